"""C17 - both parties derive the same rendezvous from the pairing phrase.

Pairing.tla specifies the bit-stream codec generically and the stream-id
relations; TLC checks the inverse laws exhaustively for small parameters and
then evaluates the specification's operators with the real parameters
(11 bits/word, 10 words, 14 bytes) on logged inputs/outputs of the real
functions: boundary entropies (every single bit, the unused tail bits),
random entropies and phrases, NewPassphraseEntropy, ConnData.SID for both
roles before and after pairing, and GetSID per direction."""
import json
import os
import re

from vlib import (Infra, build_drivers, read_ndjson, run_driver, tlc,
                  write_evidence)

MC = """INIT Init
NEXT Next
INVARIANT Laws
CHECK_DEADLOCK FALSE
"""
TR = """CONSTANT TraceFile = "%s"
INIT Init
NEXT Next
INVARIANT AllOK
CHECK_DEADLOCK FALSE
"""


def run(ctx):
    quick = ctx.tier == "quick"
    params = "{<<3, 2, 1>>, <<4, 2, 1>>, <<2, 3, 1>>, <<5, 1, 1>>}" if quick \
        else "{<<3, 2, 1>>, <<4, 2, 1>>, <<2, 3, 1>>, <<3, 5, 2>>, <<5, 3, 2>>}"
    # the parameter set is a definition of MC_Pairing; patch the scratch copy
    from vlib import _spec_copy
    d = _spec_copy(ctx)
    p = os.path.join(d, "MC_Pairing.tla")
    src = open(p).read()
    src = re.sub(r"Params == \{.*?\}\s*\\\*", "Params == %s   \\\\*" % params, src,
                 flags=re.S)
    open(p, "w").write(src)
    mc = tlc(ctx, "MC_Pairing", MC, "mc_pairing", timeout=1200)
    if not mc["ok"]:
        raise Infra("Pairing.tla violates its laws:\n" + mc["out"][-2000:])
    binary = build_drivers(ctx)
    out = ctx.sub("c17")
    rc, o = run_driver(ctx, binary, "TestPairingTrace", out)
    if rc != 0:
        raise Infra("pairing driver failed:\n" + o[-2000:])
    path = os.path.join(out, "pairing.ndjson")
    lines = read_ndjson(path)
    r = tlc(ctx, "Trace_Pairing", TR % path, "tr_pairing", workers=1,
            timeout=1500)
    if not r["ok"]:
        m = re.search(r'"PAIRING_MISMATCH_AT_LINE"\s*,\s*(\d+)', r["out"])
        if not m:
            raise Infra("Trace_Pairing failed:\n" + r["out"][-2000:])
        ln = lines[int(m.group(1)) - 1]
        ctx.report("pairing:%s" % ln["op"],
                   "real pairing code disagrees with Pairing.tla: %s" %
                   json.dumps(ln), ln)
    ops = {}
    for ln in lines:
        ops[ln["op"]] = ops.get(ln["op"], 0) + 1
    write_evidence(ctx, "model_checking", {
        "states": mc["distinct"], "transitions": mc["generated"],
        "traces_validated_against_impl": len(lines),
        "evaluations": len(lines), "distinct_nontrivial": len(lines),
        "rule": "one line = one call of a real function (codec) or one pair "
                "of derived session ids; all inputs are distinct by "
                "construction (every single-bit entropy, tail-bit patterns, "
                "seeded random entropies / phrases / key pairs)",
        "samples": [lines[0], lines[3], lines[-1]],
        "per_op": ops, "model_params": params,
        "exhaustive": False,
        "checker_cmd": "tlc MC_Pairing.tla; tlc Trace_Pairing.tla",
    }, ["SHA-512 / HMAC / ECDH are abstract: session ids are interned, so "
        "'different secrets give different ids' is checked on the sampled "
        "pairs only",
        "LocalAddr/RemoteAddr of live ClientConn/ServerConn are observed by "
        "the relay-level checks (C11/C05)"])
