"""C14 - message boundaries and contents survive chunking for every size.

GBNChunk.tla models Send's splitting and Recv's reassembly over the reliable
packet FIFO that C01 establishes, with send / receive deadlines able to fire
between any two packets; TLC checks OneSendOneRecv and AllDelivered for every
payload length 0..5, chunk sizes 0 (off), 2, 3 and message sequences.  Real
connections are then driven with every length 0..3M+1 for every small chunk
size, boundary and large payloads, mixed sequences under transport faults,
and deadlines expiring at every packet boundary of a chunked message (the
call is retried); TLC validates the Send/Recv call log (length and content
hash) against OneSendOneRecv."""
import json
import os

import linetrace
from vlib import Infra, build_drivers, read_ndjson, run_driver, tlc, write_evidence

MC = """CONSTANTS
  M = %d
  Lens = {0, 1, 2, 3, 4, 5}
  MaxMsgs = 3
  SendDeadlines = FALSE
  RecvDeadlines = %s
  EmptySendsNothing = FALSE
  RecvKeepsPartial = TRUE
SPECIFICATION Spec
INVARIANTS OneSendOneRecv AllDelivered
CHECK_DEADLOCK FALSE
"""
TR = """CONSTANT TraceFile = "%s"
SPECIFICATION TraceSpec
POSTCONDITION TraceAccepted
CHECK_DEADLOCK FALSE
"""


def run(ctx):
    states = trans = 0
    for m, rd in ((0, "FALSE"), (2, "FALSE"), (3, "FALSE"), (2, "TRUE"), (1, "TRUE")):
        r = tlc(ctx, "GBNChunk", MC % (m, rd), "mc_chunk_%d_%s" % (m, rd),
                workers=8, timeout=900)
        if not r["ok"]:
            raise Infra("GBNChunk.tla violates %s (M=%d)" % (r["violated"], m))
        states += r["distinct"]
        trans += r["generated"]
    binary = build_drivers(ctx)
    out = ctx.sub("c14")
    rc, o = run_driver(ctx, binary, "TestC14Chunk", out, timeout=1500)
    if rc != 0:
        import gbntrace
        if not gbntrace.crash_report(ctx, o, "c14"):
            raise Infra("driver failed:\n" + o[-2000:])
    path = os.path.join(out, "c14.ndjson")
    lines = read_ndjson(path)

    def keyfn(ln, cur, idx):
        # which scenario does the line belong to, and what was expected next
        s = idx
        while s > 0 and cur[s].get("op") != "new":
            s -= 1
        sc = cur[s]
        oks = [x for x in cur[s:idx] if x["op"] == "send" and x["err"] == ""]
        nrec = len([x for x in cur[s:idx] if x["op"] == "recv" and x["err"] == ""])
        exp = oks[nrec] if nrec < len(oks) else None
        if sc["scenario"] in ("sendDeadline", "recvDeadline"):
            return "chunk:%s-inside-message" % sc["scenario"]
        if exp is not None and exp["len"] == 0 and sc["M"] > 0:
            return "chunk:empty-payload-sends-nothing"
        return "chunk:%s:M=%d:%s" % (sc["scenario"], sc["M"], ln.get("op"))

    n, rej, st = linetrace.validate(ctx, "Trace_Chunk", TR, path, "tr_chunk",
                                    keyfn, "Send/Recv call log",
                                    segment_op="new", max_rejects=12)
    scen = [x for x in lines if x["op"] == "new"]
    msgs = sum(len(x["lens"]) for x in scen)
    write_evidence(ctx, "model_checking", {
        "states": states, "transitions": trans,
        "traces_validated_against_impl": len(scen) - rej,
        "trace_lines": n,
        "evaluations": msgs,
        "distinct_nontrivial": len({json.dumps([x["scenario"], x["M"], x["lens"],
                                                x["sendTO"], x["recvTO"]])
                                    for x in scen}),
        "rule": "one evaluation = one message sent through a real connection "
                "pair; scenarios: every length 0..3M+1 for each chunk size "
                "0..M, boundary/large payloads, random mixed sequences with "
                "drop/duplicate/delay, send/receive deadlines at each packet "
                "boundary; distinct = distinct scenarios",
        "samples": scen[:2] + [x for x in scen if x["scenario"] == "recvDeadline"][:1],
        "scenarios": len(scen),
        "exhaustive": False,
        "checker_cmd": "tlc GBNChunk.tla; tlc Trace_Chunk.tla",
    }, ["the packet channel below is exactly-once and ordered (C01)",
        "content compared by length and a 31-bit SHA-256 prefix"])
