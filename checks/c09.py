"""C09 - the sender never exceeds its window; Send blocks only when full.

1. TLC: window arithmetic lemmas for every (s, base, top, wire value) tuple
   (MC_Window) and WindowBound/Outstanding/AddOnlyWithRoom on GBN.tla.
2. Function-trace validation: the real queue's processACK/processNACK results
   for all 256 wire values in every window state of small sequence spaces
   (sampled for s = 255) are compared by TLC with Window.tla.
3. Trace validation of real connections: blocking scenarios (ACKs withheld,
   probes at quiescent instants) and random-fault runs, with the window
   invariants evaluated in every reconstructed state."""
import json
import os
import re

import gbnmc
import gbntrace
from vlib import Infra, apalache, build_drivers, log, run_driver, tlc, write_evidence

WIN_CFG = """CONSTANTS
  SVals = {%s}
  QVals = {100, 254, 255}
  Dev = FALSE
INIT Init
NEXT Next
INVARIANTS Safe SizeBound
CHECK_DEADLOCK FALSE
"""

TW_CFG = """CONSTANTS
  TraceFile = "%s"
  Guarded = %s
INIT Init
NEXT Next
INVARIANT LineOK
CHECK_DEADLOCK FALSE
"""


def window_trace(ctx, path, guarded):
    r = tlc(ctx, "Trace_Window", TW_CFG % (path, "TRUE" if guarded else "FALSE"),
            "tw_%s" % guarded, workers=1, timeout=900)
    mm = None
    if not r["ok"]:
        from vlib import printed_tuples
        ts = printed_tuples(r["out"], "WINDOW_MISMATCH")
        if not ts:
            raise Infra("Trace_Window failed:\n" + r["out"][-2000:])
        t = ts[0]   # [kind, "s", s, "b", b, "t", t, "q", q, "impl", i, "spec", sp]
        mm = {"kind": t[0], "s": t[2], "b": t[4], "t": t[6], "q": t[8],
              "impl": t[10], "spec": t[12]}
    return r, mm


def run(ctx):
    quick = ctx.tier == "quick"
    svals = "2,3,4,5,6,21" if quick else "2,3,4,5,6,7,8,9,21,64,128,255"
    w = tlc(ctx, "MC_Window", WIN_CFG % svals, "mc_window", timeout=1200)
    if not w["ok"]:
        raise Infra("Window.tla lemma violated: " + w["out"][-2000:])
    # the same lemma for every sequence space 2..256 at once (Apalache, SMT);
    # the pinned, unguarded arithmetic must be refuted
    if apalache(ctx, "ApaWindow", "Lemma", "lemma") != "ok":
        raise Infra("ApaWindow: the window lemma does not hold for every s")
    if apalache(ctx, "ApaWindow", "DevLemma", "devlemma") != "violated":
        raise Infra("ApaWindow: the unguarded arithmetic was not refuted")
    names = ["n1_3msg_1drop", "n2_3msg_wrap_1drop"] if quick else \
        list(gbnmc.THOROUGH)
    cfgs = {k: gbnmc.THOROUGH[k] for k in names}
    states, trans, per, bad = gbnmc.run_mc(
        ctx, cfgs, invs="TypeOK WindowBound Outstanding AddOnlyWithRoom Unwrapped")
    if bad:
        raise Infra("GBN.tla violates %s in %s" % (bad[0][1], bad[0][0]))
    states += w["distinct"]
    trans += w["generated"]

    binary = build_drivers(ctx)
    out = ctx.sub("c09")
    rc, o = run_driver(ctx, binary, "TestC09Window", out)
    if rc != 0:
        raise Infra("window driver failed:\n" + o[-2000:])
    wsum = json.load(open(os.path.join(out, "c09_window_summary.json")))
    wpath = os.path.join(out, "c09_window.ndjson")
    r1, mm = window_trace(ctx, wpath, True)
    window_ok = mm is None
    if mm is not None:
        cls = "wire-seq-outside-space" if mm["q"] >= mm["s"] else "in-space"
        ctx.report("window:%s:%s" % (mm["kind"], cls),
                   "queue.process%s(seq=%d) with s=%d base=%d top=%d gave "
                   "code %d, Window.tla gives %d (code = base + 256*valid/"
                   "resend + 512*bumped; -1 = panic)" %
                   (mm["kind"].upper(), mm["q"], mm["s"], mm["b"], mm["t"],
                    mm["impl"], mm["spec"]), mm)
        if mm["q"] >= mm["s"]:
            # everything else must still agree with the named deviation
            r2, mm2 = window_trace(ctx, wpath, False)
            if mm2 is not None:
                ctx.report("window:%s:beyond-deviation" % mm2["kind"],
                           "queue arithmetic differs from Window.tla even "
                           "with the unguarded-wire-value deviation: %s" %
                           json.dumps(mm2), mm2)

    rc, o = run_driver(ctx, binary, "TestC09Blocking", out)
    if rc != 0 and not gbntrace.crash_report(ctx, o, "c09b"):
        raise Infra("blocking driver failed:\n" + o[-2000:])
    invs = "WindowBound Outstanding Unwrapped"
    st1, runs1 = gbntrace.validate(ctx, out, "c09b", invs=invs)
    rc, o = run_driver(ctx, binary, "TestC01Random", out,
                       env={"VERIF_RUNS": 36 if quick else 1200,
                            "VERIF_SALT": 9})
    if rc != 0 and not gbntrace.crash_report(ctx, o, "c01"):
        raise Infra("random driver failed:\n" + o[-2000:])
    st2, runs2 = gbntrace.validate(ctx, out, "c01", invs=invs)

    ntr = st1["traces"] + st2["traces"] - st1["rejected"] - st2["rejected"]
    write_evidence(ctx, "model_checking", {
        "states": states, "transitions": trans,
        "traces_validated_against_impl": ntr,
        "window_tuples_compared": wsum["tuples"],
        "window_function_trace_ok": window_ok,
        "evaluations": wsum["tuples"] + st1["traces"] + st2["traces"],
        "distinct_nontrivial": wsum["lines"] + st1["traces"] + st2["faulty_traces"],
        "rule": "window tuples: one evaluation per (s, base, top, kind, wire "
                "value) on the real queue, distinct = (s, base, top, kind) "
                "lines; connection runs: blocking scenarios (all non-trivial) "
                "and random-fault runs (non-trivial = at least one fault)",
        "samples": [{"window_line": {"s": 3, "b": 2, "t": 1, "k": "nack"}},
                    {"blocking_run": runs1[0]["desc"]},
                    {"random_run": runs2[0]["desc"]}],
        "svals_model": svals, "svals_impl": wsum["svals"],
        "window_lemma_all_s_2_256_apalache": True,
        "mc_configs": per,
        "exhaustive": True,
        "checker_cmd": "tlc MC_Window.tla; tlc MC_GBN.tla; tlc Trace_Window.tla; "
                       "tlc MC_Trace_GBN.tla",
    }, [
        "arithmetic exhaustive for the listed sequence-space sizes, sampled "
        "window states for s = 255",
        "blocking behaviour observed at synctest quiescent instants",
    ])
