"""C12 - Close is idempotent, bounded, wakes blocked callers, leaks nothing.

1. TLC checks GBNLife.tla (the five-step Close body, loop exits, FIN, blocked
   callers) for every interleaving and each transport condition: NoLeak,
   CloseCompletes, BlockedCallersWake, PeerLearns, Idempotent.
2. Real connections are closed at many instants of several scenarios, by
   either/both/repeated/concurrent callers, with the transport working,
   black-holed, failing or blocking; the recorded life-cycle events (hooks at
   close(quit), loop exits, FIN, end of Close; call/return of Close, Send and
   Recv with durations; the goroutine inventory afterwards) are validated
   against GBNLife.tla, and the data-phase events of the same runs against
   GBN.tla."""
import os

import gbntrace
import lifetrace
from vlib import Infra, build_drivers, run_driver, tlc, write_evidence

MC = """CONSTANTS
  EP = {"c", "s"}
  Net = "%s"
  PongStopped = TRUE
SPECIFICATION Spec
INVARIANT NoLeak
PROPERTIES CloseCompletes BlockedCallersWake PeerLearns Idempotent
CHECK_DEADLOCK FALSE
"""


def run(ctx):
    states = trans = 0
    per = {}
    for net in ("ok", "blackhole", "block"):
        r = tlc(ctx, "GBNLife", MC % net, "life_" + net, workers=4, timeout=600)
        if not r["ok"]:
            raise Infra("GBNLife.tla violates %s with Net=%s" %
                        (r["violated"], net))
        states += r["distinct"]
        trans += r["generated"]
        per[net] = {"distinct": r["distinct"], "generated": r["generated"]}
    import mailboxlife
    s2, t2 = mailboxlife.model_check(ctx)
    states += s2
    trans += t2
    binary = build_drivers(ctx)
    # the same property one layer up: Close of real ClientConn / ServerConn
    ctx.cov.update(mailboxlife.validate(ctx, binary))
    out = ctx.sub("c12")
    rc, o = run_driver(ctx, binary, "TestC12Close", out, timeout=900)
    if rc != 0 and not gbntrace.crash_report(ctx, o, "c12"):
        raise Infra("close driver failed (a hang of the bubble means a "
                    "goroutine is stuck in real time):\n" + o[-3000:])
    st, runs = lifetrace.validate(ctx, out, "c12")
    if os.path.exists(os.path.join(out, "c12_abort.ndjson")):
        st_a, runs_a = lifetrace.validate(ctx, out, "c12", group="abort")
        for k in ("traces", "rejected", "lines"):
            st[k] += st_a[k]
        runs = runs + runs_a
    # data-phase consistency of the same runs (renamed group for the GBN
    # validator: window size 2)
    os.rename(os.path.join(out, "c12_all.ndjson"),
              os.path.join(out, "c12_n2.ndjson"))
    import json
    sm = json.load(open(os.path.join(out, "c12_summary.json")))
    sm["runs"] = [r for r in sm["runs"] if r["group"] == "all"]
    for r in sm["runs"]:
        r["group"] = "n2"
    json.dump(sm, open(os.path.join(out, "c12_summary.json"), "w"))
    st2, _ = gbntrace.validate(ctx, out, "c12",
                               invs="WindowBound PrefixDelivery")
    write_evidence(ctx, "model_checking", {
        "states": states, "transitions": trans,
        "traces_validated_against_impl": st["traces"] - st["rejected"],
        "trace_lines": st["lines"],
        "evaluations": st["traces"],
        "distinct_nontrivial": len({json.dumps(r["desc"], sort_keys=True)
                                    for r in runs}),
        "rule": "one evaluation = one connection closed at a given instant of "
                "a scenario (transfer / full window with blocked Send / idle "
                "with blocked Recv / lossy / idle with keepalive) by a given "
                "set of callers under a given transport condition; all are "
                "non-trivial; distinct = distinct descriptors",
        "samples": [r["desc"] for r in runs[:4]],
        "mc_configs": per,
        "data_phase_traces_validated": st2["traces"] - st2["rejected"],
        "exhaustive": False,
        "checker_cmd": "tlc GBNLife.tla (3 transport conditions); "
                       "tlc Trace_GBNLife.tla; tlc MC_Trace_GBN.tla",
    }, ["Close instants are sampled on a time grid, not enumerated per "
        "recorded event",
        "scenarios in which the FIN send blocks run in real time (a second "
        "Close caller waits on sync.Once, which is not a durable block in a "
        "synctest bubble); there are only a few of them",
        "the transport honours context cancellation",
        "mailbox-level ClientConn/ServerConn Close is covered by C11/C05"])
