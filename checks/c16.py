"""C16 - handshake and record framing do not depend on transport
fragmentation.

RecordIO.tla's FlushStep transcribes Machine.Flush's resumable partial-write
arithmetic; TLC checks EmitOnce / CountExact / NoNewRecordWhilePending for
every way a writer can accept a small record in pieces.  The real Machine is
then flushed through a writer that accepts every two-way (and sampled or all
three-way) split of the wire bytes and times out; every Flush call is compared
with FlushStep and the per-record accounting is checked, and handshakes of both
patterns and all versions plus record exchanges are run over readers that
return 1..k bytes per Read (FragIndependent)."""
import json
import os

import linetrace
from vlib import Infra, build_drivers, run_driver, tlc, write_evidence
from c15 import MC, TR as _TR

TR = """CONSTANTS
  HDR = 18
  MAC = 16
  GRPCBUF = 32768
  MAXREC = 65535
  TraceFile = "%s"
SPECIFICATION TraceSpec
POSTCONDITION TraceAccepted
CHECK_DEADLOCK FALSE
"""


def key_flush(ln):
    return "flush:%s" % ln.get("op")


def key_frag(ln):
    if ln.get("cErr") or ln.get("sErr") or ln.get("newErr"):
        return "frag:handshake-fails:%s" % ln.get("pattern")
    if ln.get("payloadOK") == 0:
        return "frag:payload"
    return "frag:records"


def run(ctx):
    quick = ctx.tier == "quick"
    mc = tlc(ctx, "MC_RecordIO",
             MC % (("0, 1, 4, 5, 9", "1, 3, 4, 9", 2, 3) if quick else
                   ("0, 1, 3, 4, 5, 6, 7, 13", "1, 2, 3, 4, 5, 9", 3, 5)),
             "mc_recordio", timeout=1500)
    if not mc["ok"]:
        raise Infra("RecordIO.tla violates %s" % mc["violated"])
    binary = build_drivers(ctx)
    out = ctx.sub("c16")
    rc, o = run_driver(ctx, binary, "TestC16Flush", out, timeout=900)
    if rc != 0:
        raise Infra("flush driver failed:\n" + o[-2000:])
    rc, o = run_driver(ctx, binary, "TestC16Frag", out, timeout=900)
    if rc != 0:
        raise Infra("frag driver failed:\n" + o[-2000:])
    p1 = os.path.join(out, "c16flush.ndjson")
    p2 = os.path.join(out, "c16frag.ndjson")
    n1, r1, s1 = linetrace.validate(ctx, "Trace_Flush", TR, p1, "tr_flush",
                                    key_flush, "Flush call trace")
    n2, r2, s2 = linetrace.validate(ctx, "Trace_Flush", TR, p2, "tr_frag",
                                    key_frag, "fragmented handshake log",
                                    segment_op="hs")
    # the same accounting one level up: NoiseConn.Write (one record, and the
    # chunked path above 65535 bytes) interrupted by write deadlines at every
    # kind of split point; Write's count plus the counts of the Flush calls
    # that follow must add up to what was accepted, nothing is emitted twice
    import c15
    rc, o = run_driver(ctx, binary, "TestC15WriteTimeout", out, timeout=900)
    if rc != 0:
        raise Infra("write-timeout driver failed:\n" + o[-2000:])
    p3 = os.path.join(out, "c15wt.ndjson")
    n3, r3, s3 = linetrace.validate(
        ctx, "Trace_Stream", c15.TR, p3, "tr_stream_wt",
        lambda ln: "flush:tcp-write-timeout:%s" % ln.get("op"),
        "stream call trace (write timeouts)", segment_op="new")
    n2, r2 = n2 + n3, r2 + r3
    l1 = [json.loads(x) for x in open(p1).read().splitlines()]
    l2 = [json.loads(x) for x in open(p2).read().splitlines()]
    recs = [x for x in l1 if x["op"] == "flushEnd"]
    write_evidence(ctx, "model_checking", {
        "states": mc["distinct"], "transitions": mc["generated"],
        "traces_validated_against_impl": len(recs) + len(l2) - r1 - r2,
        "trace_lines": n1 + n2,
        "evaluations": len(recs) + len(l2),
        "distinct_nontrivial": len(recs) + len(l2),
        "rule": "one evaluation = one record written through a distinct "
                "partial-write plan (all 2-way splits, sampled/all 3-way "
                "splits of the wire bytes for 7 payload sizes, random finer "
                "partitions of 64 KiB records), or one handshake + record "
                "exchange for a distinct (pattern, version range, read "
                "granularity, auth payload size)",
        "samples": l1[:2] + l2[:1],
        "records": len(recs), "handshakes": len(l2),
        "exhaustive": False,
        "checker_cmd": "tlc MC_RecordIO.tla; tlc Trace_Flush.tla",
    }, ["the writer returns a net.Error timeout after accepting a prefix",
        "read fragmentation 1, 2, 7, 33 and random 1..40 bytes per Read"])
