"""C10 - the GBN handshake converges; both ends use the window the client
proposed.

GBNHandshake.tla models clientHandshake / serverHandshake (timeouts, the
resent flag, restart on SYN, completion on SYNACK or DATA after a restart,
failure on unexpected packets, rejection of the unrepresentable window) over
lossy/duplicating FIFO channels that may start with stale packets; TLC checks
AgreeN, SrvNProposed and termination for every interleaving of small fault
budgets and stale prefixes, and convergence under fairness.  Real handshakes
are then run under virtual time for every pattern of up to three drops /
duplicates over the first packets of each direction, stale packets of every
type in either direction, several windows and start orders, followed by a
message each way; the traces (wire events, hooks at every packet the
handshake loops examine and at their timeouts, results and adopted windows)
are validated against the specification."""
import json
import os
from concurrent.futures import ThreadPoolExecutor

import gbntrace
from vlib import Infra, build_drivers, run_driver, tlc, write_evidence

MC = """CONSTANTS
  CliN = %d
  StaleCi = %d
  StaleSi = %d
  StaleC <- MCStaleC
  StaleS <- MCStaleS
  MaxDrop = %d
  MaxDup = %d
  MaxTimeouts = %d
  ChanCap = 5
  ClientSkipsLateSyn = %s
SPECIFICATION %s
%s
CHECK_DEADLOCK FALSE
"""
TR = """CONSTANTS
  CliN = %d
  StaleC <- Empty
  StaleS <- Empty
  MaxDrop = 0
  MaxDup = 0
  MaxTimeouts = 0
  ChanCap = 0
  ClientSkipsLateSyn = TRUE
  TraceFile = "%s"
SPECIFICATION TraceSpec
INVARIANTS AgreeN SrvNProposed
POSTCONDITION TraceAccepted
CHECK_DEADLOCK FALSE
"""


def run(ctx):
    quick = ctx.tier == "quick"
    states = trans = 0
    stale = [(0, 0), (1, 0), (0, 1), (3, 6), (4, 7), (2, 8), (0, 2), (0, 3), (5, 5)]
    for ci, si in stale:
        r = tlc(ctx, "MC_GBNHandshake",
                MC % (2, ci, si, 2 if quick else 3, 1, 3 if quick else 4, "TRUE", "Spec",
                      "INVARIANTS AgreeN SrvNProposed Terminal UsableWithoutStale"),
                "mc_hs_%d_%d" % (ci, si), workers=8, timeout=1200)
        if not r["ok"]:
            raise Infra("GBNHandshake.tla violates %s" % r["violated"])
        states += r["distinct"]
        trans += r["generated"]
    r = tlc(ctx, "MC_GBNHandshake",
            MC % (2, 0, 0, 0, 0, 2, "TRUE", "LiveSpec", "PROPERTY Converges"),
            "mc_hs_live", workers=4, timeout=1200)
    if not r["ok"]:
        raise Infra("GBNHandshake.tla does not converge")
    states += r["distinct"]
    trans += r["generated"]
    # the repaired deviation: a client that closes on a late SYN answer loses
    # an established connection through delay alone (two handshake timeouts,
    # no loss, nothing stale) - TLC must show that
    m = tlc(ctx, "MC_GBNHandshake",
            MC % (2, 0, 0, 0, 0, 3, "FALSE", "Spec", "INVARIANTS UsableWithoutStale"),
            "mc_hs_latesyn", workers=4, timeout=1200)
    if m["violated"] != "UsableWithoutStale":
        raise Infra("the late-SYN deviation is not shown by UsableWithoutStale (got %s)"
                    % m["violated"])

    binary = build_drivers(ctx)
    out = ctx.sub("c10")
    rc, o = run_driver(ctx, binary, "TestC10Handshake", out, timeout=1500)
    if rc != 0:
        cur = {}
        try:
            cur = json.load(open(os.path.join(out, "current.json")))
        except Exception:
            pass
        if not gbntrace.crash_report(ctx, o, "c10", extra=cur):
            raise Infra("driver failed:\n" + o[-2000:])
    summ = json.load(open(os.path.join(out, "c10_summary.json")))
    groups = {}
    for x in summ["runs"]:
        groups.setdefault(x["group"], []).append(x)
    rejected = 0
    lines_total = 0

    def work(item):
        g, rs = item
        n = int(g[1:])
        path = os.path.join(out, "c10_%s.ndjson" % g)
        lines = open(path).read().splitlines()
        todo, cur, fails = list(rs), path, []
        for attempt in range(8):
            r = tlc(ctx, "MC_Trace_GBNHandshake", TR % (n, cur),
                    "tr_hs_%s_%d" % (g, attempt), workers=1, timeout=1200)
            if r["ok"]:
                break
            if r["rejected_at"] is not None:
                at = r["rejected_at"]
                inv = None
            else:
                import re
                m = re.findall(r"/\\ l = (\d+)", r["out"])
                at = int(m[-1]) - 1 if m else 1
                inv = r["violated"]
            off, bad = 0, None
            for x in todo:
                ln = x["last"] - x["first"] + 1
                if off < at <= off + ln:
                    bad, rel = x, at - off
                    break
                off += ln
            if bad is None:
                bad, rel = todo[-1], 1
            evs = [json.loads(y) for y in lines[bad["first"] - 1:bad["last"]]]
            fails.append((bad, rel, evs, inv))
            todo = [x for x in todo if x is not bad]
            if not todo:
                break
            cur = os.path.join(ctx.tmp, "c10_%s_retry%d.ndjson" % (g, attempt))
            with open(cur, "w") as fh:
                for x in todo:
                    fh.write("\n".join(lines[x["first"] - 1:x["last"]]) + "\n")
        return g, len(lines), fails

    with ThreadPoolExecutor(max_workers=6) as ex:
        res = list(ex.map(work, groups.items()))
    for g, nl, fails in res:
        lines_total += nl
        for bad, rel, evs, inv in fails:
            rejected += 1
            ev = evs[rel - 1] if 0 < rel <= len(evs) else {}
            hs = [e for e in evs[:rel + 1] if e.get("ev") in (
                "inj", "tx", "rx", "hsTimeout", "hsCancel", "hsResult", "setN")
                and (e.get("ev") != "tx" or e.get("k") in ("SYN", "SYNACK"))]
            if inv:
                key = "hs:inv:%s" % inv
            elif ev.get("ev") == "hsResult":
                key = "hs:result"
                if ev.get("c2sGot", 0) not in (0, 1) or ev.get("s2cGot", 0) not in (0, 1):
                    key = "hs:stale-data-delivered-as-fresh"
                elif ev.get("cErr") == "" and ev.get("sErr") == "" and \
                        ev.get("cN") != ev.get("sN"):
                    key = "hs:window-mismatch"
                elif ev.get("cErr") == "" and ev.get("sErr") == "":
                    key = "hs:no-data-after-handshake"
            else:
                key = "hs:reject:%s:%s:%s" % (ev.get("ev"), ev.get("ep"), ev.get("k"))
            ctx.report(key, "handshake trace is not a behaviour of "
                       "GBNHandshake.tla at line %d: %s (scenario %s)" %
                       (rel, json.dumps(ev), json.dumps(bad["desc"])),
                       {"scenario": bad["desc"], "line": rel, "event": ev,
                        "handshake_events": hs[-60:]})
    runs = summ["runs"]
    write_evidence(ctx, "model_checking", {
        "states": states, "transitions": trans,
        "traces_validated_against_impl": len(runs) - rejected,
        "trace_lines": lines_total,
        "evaluations": len(runs),
        "distinct_nontrivial": len({json.dumps(x["desc"], sort_keys=True)
                                    for x in runs if x.get("faulty")}),
        "rule": "one evaluation = one real client/server handshake; "
                "non-trivial = at least one dropped/duplicated handshake "
                "packet or stale packet; distinct = distinct scenario "
                "descriptors (fault pattern over the first three packets of "
                "each direction, stale prefix, window, start order)",
        "samples": [x["desc"] for x in runs[:3]],
        "exhaustive": False,
        "checker_cmd": "tlc MC_GBNHandshake.tla; tlc Trace_GBNHandshake.tla",
    }, ["stale packets are a prefix of the channels (they were queued before "
        "the connection started)",
        "a left-over handshake packet that reaches an endpoint already in "
        "the data phase ends that connection with an error (visible "
        "failure); data flow is required only when no such packet is left",
        "client window 0 is exercised but, as the design notes, it is outside "
        "the judged range"])
