"""C05 - end to end: bytes written on one side arrive intact through the relay.

LNC.tla composes the stack of one secured connection - application Write, one
Noise record = header + body, one Go-Back-N message each, DATA packets through
the relay's one-way stream with drops, breaks, re-attachment and a relay that
may die, in-order exactly-once delivery or a connection that goes down,
ReadMessage, Read handing out at most 32 KiB of a record - and TLC checks
StreamIntegrity (what was read is a prefix of what was written, byte
conservation through every stage), InOrderOnce, CiphertextOnly (with two
mutants that send a record part in clear and must be caught) for every
interleaving of small configurations, and CompletesOrFails under fairness.

Real connections (mailbox.Server/Client, ServerConn/ClientConn, real GBN, real
Noise XX or KK handshakes, NoiseGrpcConn) are then driven in real time through
the in-process relay: every write size class up to 65535 in both directions,
random mixes written concurrently both ways while the relay drops and delays
messages and breaks streams for a finite period, and a relay that stops for
good.  The trace of each session - application writes, every write of the
Noise layer to the connection below, every message the relay receives, queues,
drops and delivers (GBN type, sequence number, length, and the verdict of a
leak detector looking for application plaintext, auth data, passphrase
entropy and static keys), every Read with position, length and content check,
failures, and the harness's completion verdict - is validated against LNC.tla:
packets are identified by their GBN sequence numbers, lengths must match the
record framing, the relay queue is replayed, reads must be explained by
delivered records."""
import json
import os

import linetrace
from vlib import (Infra, build_drivers, read_ndjson, run_driver, tlc, tlc_simulate,
                  write_evidence)

MC = """SPECIFICATION %s
CONSTANTS
  Dirs <- %s
  Sizes <- SmallSizes
  HsLens <- %s
  HDR = 2
  MAC = 1
  GRPCBUF = 3
  MAXREC = 5
  Window = %d
  RelayCap = %d
  RetxDepth = %d
  MaxHs = 2
  MaxWrites = %d
  MaxFaults = %d
  RelayMayDie = TRUE
  LeakyPart = "%s"
%s
CHECK_DEADLOCK FALSE
"""
INV = ("INVARIANTS StreamIntegrity InOrderOnce CiphertextOnly\n"
       "PROPERTIES ChannelSteps ChannelContent")
TR = """SPECIFICATION TraceSpec
CONSTANTS
  TraceFile = "%s"
  S = 21
  Dirs <- BothDirs
  Sizes <- AnySize
  HsLens <- AnyHs
  HDR = 18
  MAC = 16
  GRPCBUF = 32768
  MAXREC = 65535
  Window = 1000000
  RelayCap = 1000000
  RetxDepth = 1000000
  MaxHs = 10
  MaxWrites = 1000000
  MaxFaults = 0
  RelayMayDie = FALSE
  LeakyPart = "none"
INVARIANTS StreamIntegrity CiphertextOnly
CONSTRAINT HW
POSTCONDITION TraceAccepted
CHECK_DEADLOCK FALSE
"""


LINK_MC = """CONSTANTS
  MaxPkts = %d
  MaxFaults = %d
SPECIFICATION Spec
INVARIANTS TypeOK LossyFifo Causal
CHECK_DEADLOCK FALSE
"""
LINK_TR = """CONSTANTS
  TraceFile = "%s"
SPECIFICATION Spec
POSTCONDITION TraceAccepted
CHECK_DEADLOCK FALSE
"""


def model_check(ctx):
    quick = ctx.tier == "quick"
    states = trans = 0
    # the transport below GBN: send / receive retry loops over a relay stream
    # implement the lossy order-preserving channel GBN.tla assumes
    r = tlc(ctx, "MailboxLink", LINK_MC % ((4, 3) if quick else (5, 4)), "mc_link",
            timeout=1500)
    if not r["ok"]:
        raise Infra("MailboxLink.tla violates %s:\n%s" % (r["violated"], r["out"][-1500:]))
    ctx.cov["link_model_states"] = r["distinct"]
    states += r["distinct"]
    trans += r["generated"]
    # (name, spec, dirs, handshake lengths, window, relay cap, retx depth,
    #  writes, faults, properties); sizes measured: one ~65 k states, one4
    #  ~1 M (6 s), big ~7.7 M (40 s), both3 ~71 M (9 min, 12 workers)
    cfgs = [("one", "Spec", "OneDir", "OneHs", 3, 2, 1, 2, 2, INV),
            ("one4", "Spec", "OneDir", "OneHs", 4, 2, 2, 3, 2, INV),
            ("both", "Spec", "BothDirs", "NoHs", 2, 2, 1, 1, 2, INV),
            ("live", "LiveSpec", "OneDir", "NoHs", 3, 2, 1, 2, 2,
             "PROPERTIES CompletesOrFails")]
    if not quick:
        cfgs.append(("big", "Spec", "OneDir", "OneHs", 4, 3, 2, 3, 3, INV))
        cfgs.append(("both3", "Spec", "BothDirs", "NoHs", 3, 2, 1, 2, 2, INV))
    for name, spec, dirs, hs, win, cap, retx, wr, faults, props in cfgs:
        r = tlc(ctx, "MC_LNC", MC % (spec, dirs, hs, win, cap, retx, wr, faults, "none", props),
                "mc_lnc_" + name, workers=12, timeout=3000)
        if not r["ok"]:
            raise Infra("LNC.tla (%s) violates %s:\n%s" % (name, r["violated"], r["out"][-1500:]))
        states += r["distinct"]
        trans += r["generated"]
    # beyond exhaustive reach: both directions with handshake acts, a larger
    # window, more writes and faults - random behaviours, every invariant and
    # the channel refinement evaluated along each
    sim = tlc_simulate(ctx, "MC_LNC",
                       MC % ("Spec", "BothDirs", "OneHs", 4, 3, 2, 3, 4, "none", INV),
                       "sim_lnc", 250 if quick else 6000, depth=200)
    if not sim["ok"]:
        raise Infra("LNC.tla violates %s in simulation:\n%s" % (sim["violated"], sim["out"][-1500:]))
    ctx.cov["simulated_behaviours"] = sim["traces"]
    ctx.cov["simulated_states_checked"] = sim["states"]
    for part in ("hdr", "body"):
        m = tlc(ctx, "MC_LNC", MC % ("Spec", "OneDir", "NoHs", 3, 2, 1, 1, 0, part, INV),
                "mc_lnc_leak_" + part, timeout=600)
        if m["violated"] != "CiphertextOnly":
            raise Infra("specification mutant leaky-%s not caught" % part)
    return states, trans


def run(ctx):
    states, trans = model_check(ctx)
    binary = build_drivers(ctx)
    out = ctx.sub("c05")
    env = {"VERIF_THOROUGH": "0" if ctx.tier == "quick" else "1", "VERIF_HANG_S": "100000"}
    rc, o = run_driver(ctx, binary, "TestC05Streams", out, env=env, timeout=2400)
    if rc != 0:
        raise Infra("driver failed:\n" + o[-3000:])
    path = os.path.join(out, "c05_all.ndjson")
    lines = read_ndjson(path)
    summ = json.load(open(os.path.join(out, "c05_summary.json")))
    for x in lines:
        x["op2"] = x.get("op")
        x["op"] = x["ev"] if x["ev"] == "reset" else x.get("op", x["ev"])
    # keep the relay's own op under "op": the spec reads Ev.op for relay lines;
    # segmenting only needs reset lines to carry op = "reset"
    for x in lines:
        if x["ev"] == "relay":
            x["op"] = x["op2"]
        del x["op2"]
    with open(path, "w") as fh:
        for x in lines:
            fh.write(json.dumps(x) + "\n")

    def scen_of(cur, idx):
        while idx > 0 and cur[idx].get("ev") != "reset":
            idx -= 1
        return "%s#%s" % (cur[idx].get("scen", "?"), cur[idx].get("i", "?"))

    def keyfn(ln, cur, idx):
        ev = ln.get("ev")
        k = "lnc:%s" % ev
        if ev == "relay":
            k += ":" + str(ln.get("op"))
            if ln.get("plain"):
                k += ":relay-saw-plaintext"
        elif ev == "read":
            k += ":wrong-bytes" if not ln.get("ok") else ":not-explained-by-delivered-records"
        elif ev == "end":
            k += ":incomplete-without-visible-failure"
        return k + ":" + scen_of(cur, idx).split("#")[0]

    n, rejected, tstates = linetrace.validate(
        ctx, "MC_Trace_LNC", TR, path, "tr_lnc", keyfn, what="connection trace",
        segment_op="reset", context_lines=4000)
    # the mailbox transport under GBN: what one end's GoBackNConn receives is
    # what the other end's handed over, in order, with losses and in-place
    # repetitions only (MailboxLink.tla's LossyFifo, the channel GBN.tla
    # assumes)
    link_lines = link_rej = 0
    lpath = os.path.join(out, "c05link.ndjson")
    if os.path.exists(lpath) and os.path.getsize(lpath) > 0:
        def lkey(ln, cur, idx):
            j = idx
            while j > 0 and cur[j].get("ev") != "reset":
                j -= 1
            return "link:received-packet-not-in-order-of-sending:%s:%s" % (
                ln.get("side"), cur[j].get("scen", "?"))
        link_lines, link_rej, _ = linetrace.validate(
            ctx, "Trace_Link", LINK_TR, lpath, "tr_link", lkey,
            what="link tap log", segment_op="reset")
    import statustrace
    ctx.cov.update(statustrace.validate(ctx, os.path.join(out, "c05status.ndjson"),
                                        "tr_status", "lnc"))
    scen = "?"
    unmet = expects = 0
    for i, x in enumerate(lines):
        if x["ev"] == "reset":
            scen = x["scen"]
        elif x["ev"] == "expect":
            expects += 1
            if not x["ok"]:
                unmet += 1
                ctx.report("lnc:%s:expect:%s" % (scen, x["what"]),
                           "scenario %s: %s - did not happen" % (scen, x["what"]),
                           {"scenario": scen, "context": [
                               y for y in lines[max(0, i - 80):i + 1]
                               if y["ev"] not in ("relay", "read")]})
        elif x["ev"] == "harnessNote":
            ctx.report("lnc:%s:harness:%s" % (scen, x.get("what")),
                       "scenario %s: %s" % (scen, x.get("what")), {"scenario": scen})
    ends = [x for x in lines if x["ev"] == "end"]
    relay_msgs = sum(1 for x in lines if x["ev"] == "relay" and x.get("op") in ("msg", "drop"))
    dropped = sum(1 for x in lines if x["ev"] == "relay" and x.get("op") == "drop")
    breaks = sum(1 for x in lines if x["ev"] == "relayFault")
    write_evidence(ctx, "model_checking", {
        "states": states, "transitions": trans,
        "traces_validated_against_impl": len(summ["runs"]),
        "trace_lines": n, "trace_states": tstates, "rejected": rejected,
        "sessions_completed": sum(1 for x in ends if x["complete"]),
        "sessions_failed_visibly": sum(1 for x in ends if not x["complete"]),
        "bytes_written": sum(x["writtenC"] + x["writtenS"] for x in ends),
        "relay_messages_seen": relay_msgs, "relay_messages_dropped": dropped,
        "stream_breaks": breaks,
        "link_tap_lines_validated": link_lines, "link_sessions_rejected": link_rej,
        "link_model_states": ctx.cov.get("link_model_states", 0),
        "expectations_checked": expects, "expectations_unmet": unmet,
        "samples": [r["desc"] for r in summ["runs"][:5]],
    }, [
        "the relay is the in-process stand-in harness/relay: FIFO one-way streams with one "
        "reader and one writer, per-message drop/delay and stream breaks scripted by the "
        "scenario; aperture itself is not run",
        "'ciphertext' is decided by a leak detector that looks for application plaintext "
        "(recognisable blocks), the auth data, the passphrase entropy and the static public "
        "and private keys in every message the relay receives, plus the length relation "
        "between Noise writes and relayed DATA packets; it is not a cryptanalytic claim",
        "real-time runs: the harness waits up to 90 s for completion and 60 s for the "
        "failure to become visible on both ends",
    ])
