"""C13 - keepalive: dead peers are detected in bounded time, live idle peers
are kept.

KeepAlive.tla is a discrete-time model of the send loop's three locations
(outer select, full-window select, resend/sync wait), the ping, pong and
resend count-downs, the receive loop's timer resets and a peer that may die;
TLC checks DetectDead (the bound ping + pong + two resend/sync waits falls out
of the model) for every death instant, every amount of queued data and send
loop location, and NoFalseClose for a peer answering within the pong timeout.
Real keepalive connections are silenced at many instants with 0..n+2 queued
messages under three ping/pong settings (including the mailbox's 5 s/7 s/3 s),
static and adaptive resend timeouts, and healthy links are left idle for
thousands of virtual seconds with latencies just below the pong timeout; a
timed observer specification (Trace_KeepAlive.tla) validates each trace."""
import json
import os

import gbntrace
import linetrace
from vlib import Infra, build_drivers, run_driver, tlc, write_evidence

MC = """CONSTANTS
  N = %(n)d
  P = %(p)d
  Q = %(q)d
  PB = %(pb)d
  R = %(r)d
  LAT = 1
  MaxQueued = %(mq)d
  MaxLoss = %(loss)d
  BMayDie = %(die)s
  Bound = %(bound)d
  ServeKAWhenFull = TRUE
  ResetResendOnAnyRx = %(rst)s
SPECIFICATION Spec
INVARIANT %(inv)s
CHECK_DEADLOCK FALSE
"""
TR = """CONSTANTS
  TraceFile = "%s"
  SlackMs = 2500
SPECIFICATION TraceSpec
POSTCONDITION TraceAccepted
CHECK_DEADLOCK FALSE
"""


def mc_configs(quick):
    cs = []
    for n in (1, 2):
        for (p, q) in ((5, 3), (7, 3)) if not quick else ((5, 3),):
            r = 2
            cs.append(dict(n=n, p=p, q=q, pb=0, r=r, mq=n + 2, loss=0, die="TRUE",
                           bound=p + q + 6 * r + 2, rst="FALSE", inv="DetectDead"))
            cs.append(dict(n=n, p=p, q=q, pb=4, r=r, mq=n + 1, loss=1, die="FALSE",
                           bound=p + q + 6 * r + 2, rst="FALSE", inv="NoFalseClose"))
    return cs


def run(ctx):
    quick = ctx.tier == "quick"
    states = trans = 0
    for i, c in enumerate(mc_configs(quick)):
        r = tlc(ctx, "KeepAlive", MC % c, "mc_ka%d" % i, workers=8, timeout=1200)
        if not r["ok"]:
            raise Infra("KeepAlive.tla violates %s with %s" % (r["violated"], c))
        states += r["distinct"]
        trans += r["generated"]
    binary = build_drivers(ctx)
    out = ctx.sub("c13")
    rc, o = run_driver(ctx, binary, "TestC13Keepalive", out, timeout=1500)
    if rc != 0:
        cur = {}
        try:
            cur = json.load(open(os.path.join(out, "current.json")))
        except Exception:
            pass
        if not gbntrace.crash_report(ctx, o, "c13", extra=cur):
            raise Infra("driver failed:\n" + o[-2000:])
    summ = json.load(open(os.path.join(out, "c13_summary.json")))
    path = os.path.join(out, "c13_all.ndjson")
    lines = [json.loads(x) for x in open(path).read().splitlines()]
    # rename the per-run reset marker for segment handling
    def keyfn(ln, cur, idx):
        s = idx
        while s > 0 and cur[s].get("ev") != "reset":
            s -= 1
        run_ = next((r for r in summ["runs"] if r["first"] - 1 <= s <= r["last"]), None)
        kind = "?"
        cfgl = next((x for x in cur[s:idx + 1] if x.get("ev") == "kaCfg"), {})
        if ln.get("ev") == "kaEnd":
            sil = any(x.get("ev") == "silence" for x in cur[s:idx])
            if sil:
                # which side failed to close, and was its window full?
                full = [x.get("ep") for x in cur[s:idx] if x.get("ev") == "full"]
                closed = {x.get("ep") for x in cur[s:idx] if x.get("ev") == "closeQuit"}
                missing = [e for e in ("c", "s") if e not in closed]
                kind = "dead-peer-not-detected:%s%s" % (
                    "+".join(missing) or "late",
                    ":window-full" if any(e in full for e in missing) else "")
            else:
                kind = "healthy-link-closed"
        elif ln.get("ev") == "pongTimeout":
            kind = "pong-timeout-although-packet-arrived"
        else:
            kind = "reject:%s" % ln.get("ev")
        return "ka:" + kind

    # linetrace works on "op" segments; our lines use "ev"
    for x in lines:
        x["op"] = "reset" if x.get("ev") == "reset" else x.get("ev")
    p2 = path + ".op"
    with open(p2, "w") as fh:
        for x in lines:
            fh.write(json.dumps(x) + "\n")
    n, rej, st = linetrace.validate(ctx, "Trace_KeepAlive", TR, p2, "tr_ka", keyfn,
                                    "keepalive trace", segment_op="reset",
                                    max_rejects=10)
    runs = summ["runs"]
    write_evidence(ctx, "model_checking", {
        "states": states, "transitions": trans,
        "traces_validated_against_impl": len(runs) - rej,
        "trace_lines": n,
        "evaluations": len(runs),
        "distinct_nontrivial": len({json.dumps(r["desc"], sort_keys=True) for r in runs}),
        "rule": "one evaluation = one real keepalive connection pair either "
                "silenced at a chosen instant with a chosen number of queued "
                "messages (window 1-3, three ping/pong settings, static and "
                "adaptive resend timeout) or left healthy for 1500-10000 "
                "virtual seconds; all distinct",
        "samples": [r["desc"] for r in runs[:2]] +
                   [r["desc"] for r in runs if r["desc"]["kind"] == "healthy"][:1],
        "exhaustive": False,
        "checker_cmd": "tlc KeepAlive.tla; tlc Trace_KeepAlive.tla",
    }, ["bound used on traces: ping + pong + 6 x (resend timeout at the end "
        "of the run, boosts included) + 2.5 s",
        "the model's time unit is abstract (P=5, Q=3, R=2, latency 1)"])
