"""C06 - GBN progress: accepted messages are delivered or the connection
fails visibly; no silent stall; quiescence.

1. Liveness on GBN.tla: under weak/strong fairness of the loops, the
   application and the resend timer, and finitely many faults, every message
   is eventually delivered for good and the windows drain (TLC, temporal
   checking).
2. KeepAlive.tla (timed): NoSilentStall - with both ends alive, unacknowledged
   data is acknowledged within a bound, for resend timeouts below and above
   the peer's keepalive cadence.
3. Real connections: a finite prefix of random drops/duplicates/delays, then a
   reliable link; and tail loss of the last packet of a burst while the peer's
   keepalive pings keep arriving, for static timeouts below/above the ping
   cadence and adaptive timeouts over slow links.  A timed observer
   specification checks bounded delivery, no unprovoked closure (keepalive
   off: none at all) and quiescence on every trace."""
import json
import os

import gbnmc
import gbntrace
import linetrace
from vlib import Infra, build_drivers, run_driver, tlc, write_evidence

LIVE = """CONSTANTS
  N = %(n)d
  EP = {"c", "s"}
  SendC = %(sc)d
  SendS = %(ss)d
  PingC = 0
  PingS = 0
  MaxSend <- MCMaxSend
  MaxPing <- MCMaxPing
  MaxDrop = %(drop)d
  MaxDup = %(dup)d
  MaxResend = 1
  ChanCap = %(cap)d
  MaxInject = 0
  InjSeqs = {}
SPECIFICATION LiveSpec
PROPERTIES EventuallyDelivered EventuallyQuiet
CHECK_DEADLOCK FALSE
"""
SYNC_MC = """CONSTANTS
  RT = 2
  SeqS = 3
  MaxRounds = %d
  MaxTime = %d
SPECIFICATION Spec
INVARIANTS TypeOK BoundedWait EarlyOnlyWithCause NoLingeringP
CHECK_DEADLOCK FALSE
"""
SYNC_TR = """CONSTANTS
  TraceFile = "%s"
  TOL = 2
SPECIFICATION Spec
POSTCONDITION TraceAccepted
CHECK_DEADLOCK FALSE
"""
KA = """CONSTANTS
  N = %(n)d
  P = 7
  Q = 3
  PB = 5
  R = %(r)d
  LAT = 1
  MaxQueued = %(mq)d
  MaxLoss = %(loss)d
  BMayDie = FALSE
  Bound = %(bound)d
  ServeKAWhenFull = TRUE
  ResetResendOnAnyRx = FALSE
SPECIFICATION Spec
INVARIANT NoSilentStall
CHECK_DEADLOCK FALSE
"""
TR = """CONSTANT TraceFile = "%s"
SPECIFICATION TraceSpec
POSTCONDITION TraceAccepted
CHECK_DEADLOCK FALSE
"""


def run(ctx):
    quick = ctx.tier == "quick"
    states = trans = 0
    lives = [dict(n=1, sc=2, ss=0, drop=1, dup=0, cap=3)]
    if not quick:
        # Bidirectional liveness is not model-checked: with bounded channels
        # the two receive loops (which send their ACKs synchronously) block
        # each other on full channels unless ChanCap is large (an artefact of
        # the bound: cap=4 gives a spurious counterexample, cap>=6 does not
        # finish: > 4 M distinct states after 10 min for n=1 and 1+1
        # messages).  Bidirectional progress is covered by the validated
        # traces of real connections below.
        lives += [dict(n=1, sc=2, ss=0, drop=2, dup=1, cap=3),
                  dict(n=2, sc=3, ss=0, drop=1, dup=0, cap=4)]
    for i, c in enumerate(lives):
        r = tlc(ctx, "MC_GBN", LIVE % c, "mc_live%d" % i, workers=8, timeout=3000)
        if not r["ok"]:
            raise Infra("GBN.tla liveness violated (%s): %s" % (c, r["violated"]))
        states += r["distinct"]
        trans += r["generated"]
    for i, c in enumerate([dict(n=2, r=2, mq=2, loss=1, bound=30),
                           dict(n=2, r=8, mq=1, loss=1, bound=40),
                           dict(n=1, r=6, mq=2, loss=1, bound=40)]):
        r = tlc(ctx, "KeepAlive", KA % c, "mc_stall%d" % i, workers=8, timeout=1500)
        if not r["ok"]:
            raise Infra("KeepAlive.tla violates NoSilentStall with %s" % c)
        states += r["distinct"]
        trans += r["generated"]

    # gbn/syncer.go: the wait after a resend is bounded and ends early only
    # for a cause (Syncer.tla; its theorems are what Trace_Syncer demands of
    # the real waits below)
    r = tlc(ctx, "Syncer", SYNC_MC % ((2, 11) if quick else (3, 14)), "mc_syncer",
            timeout=3000)
    if not r["ok"]:
        raise Infra("Syncer.tla violates %s" % r["violated"])
    ctx.cov["syncer_model_states"] = r["distinct"]
    states += r["distinct"]
    trans += r["generated"]

    binary = build_drivers(ctx)
    out = ctx.sub("c06")
    rc, o = run_driver(ctx, binary, "TestC06Progress", out, timeout=2400)
    if rc != 0:
        cur = {}
        try:
            cur = json.load(open(os.path.join(out, "current.json")))
        except Exception:
            pass
        if not gbntrace.crash_report(ctx, o, "c06", extra=cur):
            raise Infra("driver failed:\n" + o[-2000:])
    summ = json.load(open(os.path.join(out, "c06_summary.json")))
    path = os.path.join(out, "c06_all.ndjson")
    lines = [json.loads(x) for x in open(path).read().splitlines()]
    for x in lines:
        x["op"] = x.get("ev")
    p2 = path + ".op"
    with open(p2, "w") as fh:
        for x in lines:
            fh.write(json.dumps(x) + "\n")

    def keyfn(ln, cur, idx):
        s = idx
        while s > 0 and cur[s].get("ev") != "reset":
            s -= 1
        seg = cur[s:idx + 1]
        ev = ln.get("ev")
        pings = any(x.get("ev") in ("ping", "pingFull") for x in seg)
        if ev == "pgEnd":
            nacc = len([x for x in seg if x.get("ev") == "sendRet" and x.get("err") == ""])
            ngot = len([x for x in seg if x.get("ev") == "recvRet" and x.get("err") == ""])
            if ngot < nacc:
                return "progress:stalled%s" % (":peer-keepalive-running" if pings else "")
            if ln.get("sizeC") or ln.get("sizeS"):
                return "progress:window-not-drained"
            return "progress:not-quiescent"
        if ev == "recvRet":
            return "progress:late-delivery" if ln.get("err") == "" else "progress:recv-error"
        if ev == "closeQuit":
            return "progress:closed-without-keepalive"
        if ev == "sendRet":
            return "progress:send-error-on-open-connection"
        return "progress:reject:%s" % ev

    n, rej, st = linetrace.validate(ctx, "Trace_Progress", TR, p2, "tr_prog", keyfn,
                                    "progress trace", segment_op="reset",
                                    max_rejects=10)
    # the resend-sync waits of the runs with a static resend timeout against
    # the theorems of Syncer.tla (Trace_Syncer: bounded wait, early end only
    # for a cause)
    runs = summ["runs"]
    sync_lines = sync_rej = sync_waits = 0
    keep = {"reset", "setN", "resend", "ack", "nack", "closeQuit", "syncWait", "syncDone", "pgEnd"}
    sp = os.path.join(out, "c06_sync.ndjson")
    with open(sp, "w") as fh:
        for r in runs:
            if not r["desc"].get("staticMs"):
                continue
            for x in lines[r["first"] - 1:r["last"]]:
                if x.get("ev") in keep:
                    if x["ev"] == "reset":
                        x = dict(x, desc=json.dumps(r["desc"], sort_keys=True))
                    fh.write(json.dumps(x) + "\n")
                    sync_waits += x["ev"] == "syncDone"
    if os.path.getsize(sp) > 0:
        def skey(ln, cur, idx):
            if ln.get("ev") == "pgEnd":
                return "syncer:wait-never-ends"
            return "syncer:wait-ends-without-cause-or-late:%s" % ln.get("ep")
        sync_lines, sync_rej, _ = linetrace.validate(
            ctx, "Trace_Syncer", SYNC_TR, sp, "tr_sync", skey,
            "resend-sync trace", segment_op="reset", max_rejects=10)
    rej += sync_rej
    # the syncer on its own, through scripted orders of resend / wait / ACK /
    # NACK events around the resend timeout (the orders Syncer.tla
    # distinguishes), validated by the same observer
    rc, o = run_driver(ctx, binary, "TestC06Syncer", out, timeout=1800)
    if rc != 0:
        if not gbntrace.crash_report(ctx, o, "c06syncer"):
            raise Infra("syncer driver failed:\n" + o[-2000:])
    up = os.path.join(out, "c06syncer.ndjson")
    unit_lines = unit_rej = 0
    unit_scripts = 0
    if os.path.exists(up) and os.path.getsize(up) > 0:
        unit_scripts = sum(1 for x in open(up) if '"reset"' in x)

        def ukey(ln, cur, idx):
            j = idx
            while j > 0 and cur[j].get("ev") != "reset":
                j -= 1
            what = "wait-never-ends" if ln.get("ev") == "pgEnd" else "wait-ends-without-cause-or-late"
            return "syncer:unit:%s:loop%s" % (what, cur[j].get("loopMs"))
        unit_lines, unit_rej, _ = linetrace.validate(
            ctx, "Trace_Syncer", SYNC_TR, up, "tr_sync_unit", ukey,
            "scripted syncer trace", segment_op="reset", max_rejects=6)
    rej += unit_rej
    write_evidence(ctx, "model_checking", {
        "states": states, "transitions": trans,
        "traces_validated_against_impl": len(runs) - rej,
        "trace_lines": n,
        "sync_waits_validated": sync_waits, "sync_lines": sync_lines,
        "syncer_scripts_validated": unit_scripts, "syncer_script_lines": unit_lines,
        "syncer_model_states": ctx.cov.get("syncer_model_states", 0),
        "evaluations": len(runs),
        "distinct_nontrivial": len({json.dumps(r["desc"], sort_keys=True) for r in runs}),
        "rule": "one evaluation = one real connection pair run through a "
                "finite fault prefix (seeded random drop/duplicate/delay) and "
                "a reliable suffix, or a targeted tail-loss scenario with the "
                "peer's keepalive running; all have at least one fault; "
                "distinct = distinct scenario descriptors",
        "samples": [r["desc"] for r in runs[:2]] +
                   [r["desc"] for r in runs if r["desc"]["kind"] == "tailloss"][:2],
        "exhaustive": False,
        "checker_cmd": "tlc MC_GBN.tla (LiveSpec); tlc KeepAlive.tla; "
                       "tlc Trace_Progress.tla",
    }, ["trace bound: 25 x base resend timeout + 15 s after max(accept time, "
        "end of faults); quiet window 12 x base resend timeout",
        "liveness is model-checked for small windows and message counts only",
        "with keepalive on, a closure during the fault prefix is a visible "
        "failure and is allowed"])
