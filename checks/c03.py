"""C03 - only holders of the pairing secret or paired keys can complete a
handshake.

Noise.tla models SPAKE2 masking (unmask(mask(e, pw), pw') = e iff pw = pw'),
the KK pre-message keys and the MAC over the transcript; TLC evaluates
CompleteOnlyIfAuthorised and NoResponseOnMismatch on every case (equal /
different passphrases, right / wrong expected static keys on either side, all
version ranges, payload classes, with and without tampering).  The cases are
executed on the real Machines: passphrases differing in each single bit of the
110 significant bits, wrong expected keys on either side of KK, all payload
classes; every byte the responder writes is counted; TLC compares each outcome
with the prediction and evaluates the property on the observed behaviour,
including that nothing was published to ConnData on an aborted attempt."""
import json

import noisecheck
from vlib import build_drivers, write_evidence


def run(ctx):
    mc = noisecheck.model(ctx, "C03")
    import listenercheck
    ls, lt = listenercheck.model_check(ctx)
    binary = build_drivers(ctx)
    # the TCP entry point: the real Listener hands out only connections whose
    # handshake completed (Listener.tla / Trace_Listener.tla)
    ctx.cov.update(listenercheck.validate(ctx, binary, "noise"))
    out = ctx.sub("noise")
    lines, flagged, r = noisecheck.cases(ctx, binary, out)
    for f in flagged:
        rec = f["rec"]
        if not f["c03"]:
            ctx.report("noise:unauthorised:%s" % (f["diff"] or "real"),
                       "a handshake between unauthorised parties made "
                       "progress (completed, or the responder answered, or "
                       "data was published): %s" % noisecheck.describe(rec), rec)
        elif f["diff"] in noisecheck.C03_FIELDS:
            ctx.report("noise:outcome:%s" % f["diff"],
                       "handshake outcome differs from Noise.tla in %s: %s" %
                       (f["diff"], noisecheck.describe(rec)), rec)
    unauth = [l for l in lines if (l["case"]["pattern"] == "XX" and not l["case"]["pwEq"])
              or (l["case"]["pattern"] == "KK" and
                  (l["case"]["iExpect"] != "sR" or l["case"]["rExpect"] != "sI"))]
    write_evidence(ctx, "model_checking", {
        "states": mc["distinct"] + ls, "transitions": mc["generated"] + lt,
        "traces_validated_against_impl": len(lines),
        "evaluations": len(lines),
        "distinct_nontrivial": len({json.dumps(l["case"], sort_keys=True)
                                    for l in unauth}),
        "rule": "one evaluation = one handshake case on real Machines; "
                "non-trivial = an unauthorised pairing (passphrases differing "
                "in one chosen bit, or a wrong expected static key on either "
                "side); distinct = distinct case records",
        "samples": [l["case"] for l in unauth[:3]],
        "responder_bytes_on_mismatch": sum(l.get("respBytes", 0) for l in unauth),
        "exhaustive": False,
        "checker_cmd": "tlc MC_Noise.tla; tlc Trace_Noise.tla",
    }, ["the computational hardness (a wrong passphrase cannot produce a "
        "matching transcript) is the symbolic model's assumption; the check "
        "shows the code implements the symbolic protocol",
        "scrypt cost lowered by the upstream rpctest build tag"])
