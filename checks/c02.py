"""C02 - the encrypted stream yields only a prefix of what the peer wrote,
else an error.

CipherStream.tla gives the relay edit actions (drop, duplicate, swap, replay,
reflect, corrupt, inject, truncate) over the ciphertext chunks; TLC checks
ReadPrefix for every interleaving of writes, reads and edits.  The same
operators predict, for every edit script, how many messages the reader
delivers before its first error; each script is executed on the ciphertext of
a real session (XX and KK, both directions, record sizes 0..300; corruption
concretised as single-bit flips, every bit of every chunk in the thorough
tier) and TLC compares the real outcome with the prediction."""
import json
import os
import re

from vlib import (Infra, build_drivers, read_ndjson, run_driver, tlc,
                  write_evidence)
from c08 import MC

TR = """CONSTANTS
  ROT = 1000
  TraceFile = "%s"
INIT Init
NEXT Next
INVARIANT AllOK
CHECK_DEADLOCK FALSE
"""


def run(ctx):
    quick = ctx.tier == "quick"
    states = trans = 0
    for rot, mm, ed in ((4, 3, 1), (4, 2, 2)) if quick else \
            ((4, 3, 2), (3, 4, 1), (4, 2, 3)):
        r = tlc(ctx, "CipherStream", MC % (rot, mm, ed),
                "mc_cs_%d_%d_%d" % (rot, mm, ed), timeout=2400)
        if not r["ok"]:
            raise Infra("CipherStream.tla violates %s" % r["violated"])
        states += r["distinct"]
        trans += r["generated"]
    binary = build_drivers(ctx)
    out = ctx.sub("c02")
    rc, o = run_driver(ctx, binary, "TestC02Edits", out, timeout=1800)
    if rc != 0:
        raise Infra("driver failed:\n" + o[-2000:])
    path = os.path.join(out, "c02.ndjson")
    lines = read_ndjson(path)
    # TLC stops at the first mismatch; drop the line and go on (bounded)
    cur, cur_path, bad = lines, path, 0
    for attempt in range(6):
        r = tlc(ctx, "Trace_Edit", TR % cur_path, "tr_edit%d" % attempt,
                workers=1, timeout=1500)
        if r["ok"]:
            break
        m = re.search(r'"EDIT_MISMATCH_AT_LINE"\s*,\s*(\d+)\s*,\s*"PREDICTED"\s*,\s*(\d+)',
                      r["out"])
        if not m:
            raise Infra("Trace_Edit failed:\n" + r["out"][-2000:])
        ln = cur[int(m.group(1)) - 1]
        bad += 1
        kinds = "+".join(e["e"] for e in ln["edits"]) or "none"
        if ln.get("afterErr", 0) > 0:
            key = "edit:data-returned-after-read-error"
        elif ln["prefixOK"] == 0:
            key = "edit:non-prefix-data-returned:" + kinds
        elif ln.get("keptOK", 1) == 0:
            key = "edit:returned-record-changed-by-later-read:" + kinds
        elif ln["delivered"] > int(m.group(2)):
            key = "edit:tampered-stream-accepted:" + kinds
        else:
            key = "edit:outcome-differs:" + kinds
        ctx.report(key, "reader outcome on an edited ciphertext stream "
                   "(delivered %d, model predicts %s): %s" %
                   (ln["delivered"], m.group(2), json.dumps(ln)), ln)
        cur = cur[:int(m.group(1)) - 1] + cur[int(m.group(1)):]
        cur_path = path + ".retry%d" % attempt
        with open(cur_path, "w") as fh:
            for x in cur:
                fh.write(json.dumps(x) + "\n")
    kinds = {}
    for ln in lines:
        k = "+".join(e["e"] for e in ln["edits"]) or "none"
        kinds[k] = kinds.get(k, 0) + 1
    write_evidence(ctx, "model_checking", {
        "states": states, "transitions": trans,
        "traces_validated_against_impl": len(lines) - bad,
        "evaluations": len(lines),
        "distinct_nontrivial": len({json.dumps([l["edits"], l["dir"], l["kk"],
                                                l["sizes"]]) for l in lines
                                    if l["edits"]}),
        "rule": "one evaluation = one edit script executed on the ciphertext "
                "of a fresh real session; non-trivial = at least one edit; "
                "distinct = distinct (script, direction, pattern, sizes)",
        "samples": lines[:2] + lines[-1:],
        "script_kinds": kinds,
        "exhaustive": False,
        "checker_cmd": "tlc CipherStream.tla; tlc Trace_Edit.tla",
    }, ["only reads up to the first error are judged (the connection is dead "
        "after it)",
        "AEAD is symbolic in the model: a chunk opens iff direction, key "
        "generation and nonce match; the check shows the code implements that "
        "discipline, not that ChaCha20-Poly1305 is unforgeable"])
