"""C20 - the adaptive resend timeout stays within its bounds.

TimeoutMgr.tla models TimeoutManager/TimeoutBooster in integer milliseconds;
TLC checks FloorOK, StaticOK, SampleClean, BoostRate and FreshSampleResets for
every history up to a bounded length over boundary inter-event times, and
then replays recorded histories of the real TimeoutManager (virtual clock)
through the specification's actions, comparing all getters after each event."""
import json
import os
import re
from concurrent.futures import ThreadPoolExecutor

from vlib import Infra, apalache, build_drivers, run_driver, tlc, write_evidence

MC = """CONSTANTS
  Static = %(static)s
  Initial = %(initial)d
  HsInitial = %(hs)d
  Mult = %(mult)d
  Freq = %(freq)d
  Pct = %(pct)d
  Seqs = {0, 1}
  MaxSteps = %(steps)d
  Deltas = {%(deltas)s}
SPECIFICATION MCSpec
INVARIANTS FloorOK StaticOK
PROPERTIES SampleClean BoostRate FreshSampleResets
CHECK_DEADLOCK FALSE
"""
TR = """CONSTANTS
  Static = %(static)s
  Initial = %(initial)d
  HsInitial = %(hs)d
  Mult = %(mult)d
  Freq = %(freq)d
  Pct = %(pct)d
  Seqs = {0, 1, 2, 3, 200, 255}
  TraceFile = "%(trace)s"
SPECIFICATION TraceSpec
INVARIANTS FloorOK StaticOK
PROPERTIES SampleClean BoostRate FreshSampleResets
POSTCONDITION TraceAccepted
CHECK_DEADLOCK FALSE
"""


def parse_key(k):
    m = re.fullmatch(r"s(\d)_i(\d+)_h(\d+)_m(\d+)_f(\d+)_p(\d+)", k)
    return {"static": "TRUE" if m.group(1) == "1" else "FALSE",
            "initial": int(m.group(2)), "hs": int(m.group(3)),
            "mult": int(m.group(4)), "freq": int(m.group(5)),
            "pct": int(m.group(6))}


def run(ctx):
    quick = ctx.tier == "quick"
    steps = 6 if quick else 7
    mcs = [
        dict(static="FALSE", initial=1000, hs=2000, mult=5, freq=2, pct=50,
             steps=steps, deltas="1, 150, 999, 1000, 1001, 1600"),
        dict(static="TRUE", initial=1000, hs=2000, mult=5, freq=2, pct=50,
             steps=steps, deltas="1, 150, 999, 1000, 1001, 1600"),
        dict(static="FALSE", initial=1000, hs=1000, mult=1, freq=1, pct=25,
             steps=steps - 1, deltas="1, 999, 1000, 1001, 1250, 3000"),
    ]
    states = trans = 0
    for i, c in enumerate(mcs):
        r = tlc(ctx, "MC_TimeoutMgr", MC % c, "mc_tm%d" % i, timeout=1500)
        if not r["ok"]:
            raise Infra("TimeoutMgr.tla violates %s" % r["violated"])
        states += r["distinct"]
        trans += r["generated"]
    # beyond bounded histories: the inductive invariant of ApaTimeoutMgr.tla
    # (types, clean-sample bookkeeping, FloorOK, StaticOK) and the action
    # properties on the symbolic step out of it, for every history, clock
    # value and inter-event time (Apalache, SMT); a wrong rate claim must be
    # refuted
    for init, inv, length, want in (("Init", "IndInv", 0, "ok"),
                                    ("IndInit", "IndInv", 1, "ok"),
                                    ("IndInit", "ActionProps", 1, "ok"),
                                    ("IndInit", "WrongRateA", 1, "violated")):
        got = apalache(ctx, "ApaTimeoutMgr", inv, "tm_%s_%s" % (init, inv),
                       init=init, length=length, cinit="CInit")
        if got != want:
            raise Infra("ApaTimeoutMgr: %s from %s is %s, expected %s" %
                        (inv, init, got, want))
    binary = build_drivers(ctx)
    out = ctx.sub("c20")
    rc, o = run_driver(ctx, binary, "TestC20Histories", out)
    if rc != 0:
        raise Infra("driver failed:\n" + o[-2000:])
    summ = json.load(open(os.path.join(out, "c20_summary.json")))
    groups = {}
    for r in summ["runs"]:
        groups.setdefault(r["group"], []).append(r)
    total_lines = 0
    rejected = 0

    def work(item):
        g, rs = item
        path = os.path.join(out, "c20_%s.ndjson" % g)
        c = parse_key(g)
        c["trace"] = path
        return g, rs, tlc(ctx, "Trace_TimeoutMgr", TR % c, "tr_" + g, workers=1,
                          timeout=1500), path

    with ThreadPoolExecutor(max_workers=8) as ex:
        res = list(ex.map(work, groups.items()))
    for g, rs, r, path in res:
        lines = open(path).read().splitlines()
        total_lines += len(lines)
        if r["ok"]:
            continue
        rejected += 1
        if r["rejected_at"] is not None:
            at = r["rejected_at"]
            what = "no TimeoutMgr.tla behaviour explains"
            key = "tm:reject"
        else:
            m = re.findall(r"/\\ l = (\d+)", r["out"])
            at = int(m[-1]) - 1 if m else 1
            what = "property %s violated at" % r["violated"]
            key = "tm:prop:%s" % r["violated"]
        run_ = next((x for x in rs if x["first"] <= at <= x["last"]), rs[-1])
        evs = [json.loads(x) for x in lines[run_["first"] - 1:at]]
        ev = evs[-1] if evs else {}
        key += ":%s:%s" % (ev.get("op"), ev.get("k"))
        ctx.report(key, "%s line %d of a real TimeoutManager history "
                   "(config %s): %s" % (what, at, g, json.dumps(ev)),
                   {"config": g, "history": evs[-80:]})
    write_evidence(ctx, "model_checking", {
        "states": states, "transitions": trans,
        "traces_validated_against_impl": len(summ["runs"]) - rejected,
        "trace_lines": total_lines,
        "evaluations": len(summ["runs"]),
        "distinct_nontrivial": len(summ["runs"]),
        "rule": "one evaluation = one seeded random history (20-80 events: "
                "sent/resent/received SYN, SYNACK, DATA, ACK of reused "
                "sequence numbers, with inter-event times around the current "
                "timeout) of a real TimeoutManager in one of 7 configurations",
        "samples": [json.loads(x) for x in
                    open(res[0][3]).read().splitlines()[:6]],
        "configs": sorted(groups),
        "inductive_invariant_unbounded_histories_apalache": True,
        "exhaustive": False,
        "checker_cmd": "tlc MC_TimeoutMgr.tla; apalache-mc check ApaTimeoutMgr.tla "
                       "(IndInv, ActionProps); tlc Trace_TimeoutMgr.tla",
    }, ["milliseconds; the float32 boost arithmetic is compared with a "
        "tolerance of 1 ms",
        "model checking bounded to histories of 6-7 events over boundary "
        "inter-event times"])
