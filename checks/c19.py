"""C19 - wire codecs round-trip for all field values.

Codec.tla transcribes the (de)serialisers as operators; TLC checks RoundTrip
and Stable for every message / byte string over a reduced alphabet, and then
compares the logged inputs/outputs of the real functions (all 256 values of
every one-byte field, both flags, short and malformed inputs, length-prefix
mismatches) with the operators.  Large payloads (to 1 MiB) are round-tripped
on the Go side only (encode/decode fidelity of big buffers is not something
TLC can enumerate) and reported separately."""
import json
import os

import codeccheck
from vlib import Infra, build_drivers, run_driver, write_evidence


def run(ctx):
    mc = codeccheck.model(ctx)
    binary = build_drivers(ctx)
    out = ctx.sub("c19")
    r, nlines, hits, lines = codeccheck.function_trace(ctx, binary, out, None)
    for key, ln in hits:
        # a decoder that panics instead of returning an error is C07's
        # business; C19 is about values that do (de)serialise
        if key.endswith("short-data-panic"):
            continue
        ctx.report(key, "real codec disagrees with Codec.tla on %s" %
                   json.dumps(ln)[:400], ln)
    rc, o = run_driver(ctx, binary, "TestCodecSweep", out)
    if rc != 0:
        raise Infra("sweep failed:\n" + o[-2000:])
    sw = json.load(open(os.path.join(out, "codec_sweep.json")))
    if sw["unstable"]:
        ctx.report("codec:sweep:unstable", "%d decoded values did not survive "
                   "re-encoding (Go-side sweep)" % sw["unstable"], sw)
    write_evidence(ctx, "model_checking", {
        "states": mc["distinct"], "transitions": mc["generated"],
        "traces_validated_against_impl": nlines,
        "evaluations": nlines + sw["evaluations"],
        "distinct_nontrivial": nlines,
        "rule": "function-trace lines are distinct (input, output) tuples of "
                "the real Serialize/Deserialize functions, all compared by "
                "TLC with Codec.tla; the Go-side sweep (%d byte strings, %d "
                "large payloads) uses re-encode stability as oracle" %
                (sw["evaluations"], sw["large_roundtrips"]),
        "samples": lines[300:302] + lines[-2:],
        "sweep": sw,
        "exhaustive": True,
        "checker_cmd": "tlc MC_Codec.tla; tlc Trace_Codec.tla",
    }, ["TLC enumerates a reduced byte alphabet {0..7,255}; all 256 values of "
        "each one-byte field are covered by the function trace",
        "payloads above a few hundred bytes are compared on the Go side only"])
