"""C07 - no bytes delivered by the untrusted relay can crash an endpoint.

1. TLC: Codec.tla NoPanic for every byte string over a reduced alphabet;
   Window.tla lemmas for every (s, base, top, wire value); GBN.tla with a
   relay that forges ACK/NACK packets: WindowBound.
2. Function-trace validation of the real decoders (TLC vs Codec.tla) and a
   raw no-panic sweep (all strings <= 3 bytes, random longer; the property is
   its own oracle there).
3. Live endpoints: every window value in the SYN; after valid histories that
   leave the window in every small state, a forged packet of every class is
   injected and the conversation continues; traces validated against
   Trace_GBN with WindowBound; any panic of the code is a violation."""
import json
import os
import re

import codeccheck
import gbnmc
import gbntrace
from vlib import (Infra, build_drivers, read_ndjson, run_driver, tlc,
                  write_evidence)

SYN_CFG = """CONSTANTS TraceFile = "%s"
INIT Init
NEXT Next
INVARIANT AllOK
CHECK_DEADLOCK FALSE
"""
STAGE_CFG = """CONSTANTS TraceFile = "%s"
SPECIFICATION Spec
INVARIANTS LineOK Complete
POSTCONDITION TraceAccepted
CHECK_DEADLOCK FALSE
"""


def run(ctx):
    quick = ctx.tier == "quick"
    mc = codeccheck.model(ctx)
    states, trans = mc["distinct"], mc["generated"]
    s2, t2, per, bad = gbnmc.run_mc(
        ctx, gbnmc.INJECT_QUICK if quick else gbnmc.INJECT_THOROUGH)
    if bad:
        raise Infra("GBN.tla (forging relay) violates %s in %s" %
                    (bad[0][1], bad[0][0]))
    states += s2
    trans += t2

    binary = build_drivers(ctx)
    out = ctx.sub("c07")
    # decoders
    r, nlines, hits, lines = codeccheck.function_trace(ctx, binary, out, None)
    for key, ln in hits:
        if ln.get("st") == "panic" or key.endswith("short-data-panic"):
            ctx.report(key, "decoder panics on input %s (Codec.tla: error)" %
                       ln.get("in"), ln)
    rc, o = run_driver(ctx, binary, "TestCodecSweep", out)
    if rc != 0:
        raise Infra("sweep failed:\n" + o[-2000:])
    sw = json.load(open(os.path.join(out, "codec_sweep.json")))
    if sw["panics"]:
        fb = sw["first_bad"]
        short = len(fb) == 3 and fb[0] == 2
        ctx.report("codec:gbnDeser:short-data-panic" if short else
                   "codec:sweep:panic",
                   "%d byte strings make a decoder panic, first %s" %
                   (sw["panics"], fb), sw)

    # SYN window sweep on the real server
    rc, o = run_driver(ctx, binary, "TestC07ServerSyn", out)
    syn_lines = 0
    if rc != 0:
        cur = {}
        try:
            cur = json.load(open(os.path.join(out, "current.json")))
        except Exception:
            pass
        if not gbntrace.crash_report(ctx, o, "c07syn", extra=cur,
                                     tag="syn%s" % cur.get("n", "?")):
            raise Infra("syn driver failed:\n" + o[-2000:])
    synp = os.path.join(out, "c07syn.ndjson")
    if os.path.exists(synp) and os.path.getsize(synp) > 0:
        syn_lines = len(read_ndjson(synp))
        r = tlc(ctx, "Trace_SynSweep", SYN_CFG % synp, "tr_syn", workers=1)
        if not r["ok"]:
            m = re.search(r'"SYN_MISMATCH_AT_LINE"\s*,\s*(\d+)', r["out"])
            if not m:
                raise Infra("Trace_SynSweep failed:\n" + r["out"][-2000:])
            ln = read_ndjson(synp)[int(m.group(1)) - 1]
            ctx.report("syn:window%d" % ln["proposed"],
                       "server handshake outcome for proposed window %d "
                       "contradicts the specification: %s" %
                       (ln["proposed"], json.dumps(ln)), ln)

    # the stages above GBN: Noise handshake acts, encrypted records, the
    # websocket JSON envelope
    stage_lines = 0
    rc, o = run_driver(ctx, binary, "TestC07Stages", out, env={"VERIF_HANG_S": "120"})
    if rc != 0:
        cur = {}
        try:
            cur = json.load(open(os.path.join(out, "current.json")))
        except Exception:
            pass
        if not gbntrace.crash_report(ctx, o, "c07stages", extra=cur,
                                     tag="%s:%s" % (cur.get("stage", "?"), cur.get("class", "?"))):
            raise Infra("stage driver failed:\n" + o[-2000:])
    stp = os.path.join(out, "c07_stages.ndjson")
    if os.path.exists(stp) and os.path.getsize(stp) > 0:
        from vlib import printed_tuples
        sl = read_ndjson(stp)
        stage_lines = len(sl)
        r = tlc(ctx, "Trace_Stages", STAGE_CFG % stp, "tr_stages", workers=1)
        bad = printed_tuples(r["out"], "STAGE_MISMATCH")
        for t in bad:
            ln = sl[int(t[0]) - 1]
            ctx.report("stage:%s:%s:%s" % (ln["stage"], ln["class"], ln["outcome"]),
                       "%s input of class %s: outcome %s is not what Trace_Stages.tla "
                       "allows: %s" % (ln["stage"], ln["class"], ln["outcome"], json.dumps(ln)), ln)
        if not bad and not r["ok"]:
            if rc == 0:
                raise Infra("Trace_Stages failed:\n" + r["out"][-2000:])

    # injection into live connections
    rc, o = run_driver(ctx, binary, "TestC07Inject", out)
    if rc != 0:
        cur = {}
        try:
            cur = json.load(open(os.path.join(out, "current.json")))
        except Exception:
            pass
        if not gbntrace.crash_report(ctx, o, "c07", extra=cur):
            raise Infra("inject driver failed:\n" + o[-2000:])
    st = {"traces": 0, "rejected": 0, "lines": 0}
    runs = []
    if os.path.exists(os.path.join(out, "c07_summary.json")):
        st, runs = gbntrace.validate(ctx, out, "c07", invs="WindowBound")

    write_evidence(ctx, "model_checking", {
        "states": states, "transitions": trans,
        "traces_validated_against_impl": st["traces"] - st["rejected"] + nlines
        + syn_lines + stage_lines,
        "stage_inputs_noise_record_envelope": stage_lines,
        "evaluations": nlines + sw["evaluations"] + syn_lines + st["traces"],
        "distinct_nontrivial": nlines + syn_lines + st["traces"],
        "rule": "codec lines and SYN values are distinct inputs; each "
                "injection run = (window size, acknowledged prefix, "
                "unacknowledged packets, forged packet), all distinct; the "
                "raw sweep (%d strings) is counted in evaluations only" %
                sw["evaluations"],
        "samples": [r["desc"] for r in runs[:3]] + lines[:1],
        "injection_runs": st["traces"], "syn_values": syn_lines,
        "sweep": sw, "mc_configs": per,
        "exhaustive": False,
        "checker_cmd": "tlc MC_Codec.tla; tlc MC_GBN.tla (forging relay); "
                       "tlc Trace_Codec.tla; tlc Trace_SynSweep.tla; "
                       "tlc MC_Trace_GBN.tla",
    }, ["Noise handshake / encrypted stream / MsgData / JSON envelope inputs "
        "are covered by the mailbox-level checks (C02, C04, C16) and the "
        "codec function trace; this check owns the GBN layer",
        "a panic in a connection goroutine kills the driver process; it is "
        "attributed to the scenario recorded just before"])
