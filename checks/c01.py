"""C01 - GBN delivers every message exactly once, in order and intact.

1. TLC checks PrefixDelivery (and the window invariants that explain it) on
   spec/GBN.tla for every interleaving of the bounded configurations, and
   that GBN.tla refines the channel the upper layers assume (RelChan.tla);
   larger bidirectional configurations are explored by random simulation.
2. The real GoBackNConn pair is run under virtual time over a faulty vnet; the
   recorded traces are validated line by line against the same specification
   (spec/Trace_GBN.tla), PrefixDelivery being evaluated in every state."""
import os

import gbnmc
import gbntrace
from vlib import Infra, build_drivers, log, run_driver, write_evidence


def run(ctx):
    quick = ctx.tier == "quick"
    # 1. model checking
    states, trans, per, bad = gbnmc.run_mc(
        ctx, gbnmc.QUICK if quick else gbnmc.THOROUGH)
    if bad:
        # The specification itself violates the property: that is a defect of
        # the model (or a design defect that must first be reproduced on the
        # code); it is never reported as a verdict on the code.
        raise Infra("GBN.tla violates %s in config %s:\n%s" %
                    (bad[0][1], bad[0][0], bad[0][2][-3000:]))

    # 1b. random exploration of configurations beyond exhaustive reach
    sim_tr, sim_st, sim_per, sim_bad = gbnmc.run_sim(
        ctx, 300 if quick else 5000,
        names=["n2_bidir_4x3_pings_3drop_2dup"] if quick else None)
    if sim_bad:
        raise Infra("GBN.tla violates %s in simulated config %s:\n%s" %
                    (sim_bad[0][1], sim_bad[0][0], sim_bad[0][2][-3000:]))

    # 2. implementation traces
    binary = build_drivers(ctx)
    out = ctx.sub("c01")
    runs = 96 if quick else 2400
    rc, o = run_driver(ctx, binary, "TestC01Random", out,
                       env={"VERIF_RUNS": runs})
    if rc != 0:
        crash = gbntrace.crash_report(ctx, o, "c01")
        if not crash:
            raise Infra("driver failed:\n" + o[-3000:])
    stats, runinfo = gbntrace.validate(ctx, out, "c01")
    nontrivial = len({str(sorted(r["desc"].items())) for r in runinfo
                      if r.get("faulty")})
    samples = [{"run": r["desc"], "observed": r.get("obs")}
               for r in runinfo[:3]]
    write_evidence(ctx, "model_checking", {
        "states": states, "transitions": trans,
        "traces_validated_against_impl": stats["traces"] - stats["rejected"],
        "trace_lines": stats["lines"],
        "evaluations": stats["traces"],
        "distinct_nontrivial": nontrivial,
        "rule": "one evaluation = one bidirectional run of the real "
                "GoBackNConn pair under virtual time with seeded random "
                "drop/duplicate/delay; non-trivial = at least one fault was "
                "injected; distinct = distinct run descriptors",
        "samples": samples,
        "mc_configs": per,
        "simulated_behaviours": sim_tr, "simulated_states_checked": sim_st,
        "simulated_configs": sim_per,
        "exhaustive": False,
        "checker_cmd": "tlc MC_GBN.tla (per config) ; tlc MC_Trace_GBN.tla "
                       "(per window size)",
    }, [
        "TLC explores GBN.tla exhaustively only for the listed small "
        "constants; larger windows (5, 20, 254) are covered by validated "
        "implementation traces",
        "the vnet transport is order-preserving per direction; duplicates "
        "are in place",
        "goroutine interleavings at equal virtual instants are sampled, not "
        "enumerated",
    ])
