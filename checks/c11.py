"""C11 - one live connection per session; reconnect and the post-pairing switch
of rendezvous line up.

Session.tla models Server.Accept and Client.Dial step by step (enter, wait for
the previous connection's Done, recompute the rendezvous from the connection
data, tear the old connection down on a change, hand out the new one), the
connection data (remote key => key-derived SID and KK pattern) and the two
ends of the Noise handshake feeding the keys back.  TLC checks AtMostOneOpen,
KeyedConnsUseK, SameRendezvous, OnlyThePairedClient, OldBoxesGone for every
interleaving of a server, the pairing client and a second passphrase-holding
client, with and without prior pairing and key-keeping handshake versions, and
that a paired couple always meets again (FreshAfterClose) under fairness; two
mutants of the specification (Accept does not wait, Stop does not delete) must
be caught, which shows the invariants are not vacuous.

The real mailbox.Server / mailbox.Client / ServerConn / ClientConn with real
GBN connections and NoiseGrpcConn handshakes are then driven, in real time,
against the in-process relay (harness/relay) the way gRPC drives them, through
scripted sessions: pairing and reconnects closed from either side, a session
that starts paired, handshake version 1, a second client that knows the
passphrase (during the first connection and across the server's move), Dial
while the previous connection is open, a relay failure, a pairing whose last
act is lost.  Every session trace (Accept/Dial calls and returns with the
stream ids really used and the number of earlier connections still open,
handshake results, closes, the relay's mailbox creations and deletions) is
validated against Session.tla with the invariants on; the harness's own
expectations (a fresh working connection is handed out, bytes arrive, the
unpaired client is not admitted) are checked on the trace."""
import json
import os

import linetrace
import statustrace
from vlib import (Infra, build_drivers, read_ndjson, run_driver, tlc, tlc_simulate,
                  write_evidence)

MC = """SPECIFICATION %s
CONSTANTS
  Clients <- %s
  V2s <- Booleans
  PrePairs <- Booleans
  MaxCloses = %d
  MaxConns = %d
  AcceptBlocks = %s
  StopDeletes = %s
  HalfPairFaults = %s
%s
CHECK_DEADLOCK FALSE
"""
INV = "INVARIANTS AtMostOneOpen KeyedConnsUseK SameRendezvous OnlyThePairedClient OldBoxesGone"
TR = """SPECIFICATION TraceSpec
CONSTANTS
  TraceFile = "%s"
  Clients <- AllClients
  V2s <- BothVersions
  PrePairs <- BothVersions
  MaxCloses = 1000000
  MaxConns = 1000000
  AcceptBlocks = TRUE
  StopDeletes = TRUE
  HalfPairFaults = TRUE
INVARIANTS AtMostOneOpen KeyedConnsUseK SameRendezvous OnlyThePairedClient
CONSTRAINT HW
POSTCONDITION TraceAccepted
CHECK_DEADLOCK FALSE
"""


def model_check(ctx):
    quick = ctx.tier == "quick"
    states = trans = 0
    closes, conns = (2, 5) if quick else (3, 6)
    r = tlc(ctx, "MC_Session", MC % ("Spec", "TwoClients", closes, conns, "TRUE", "TRUE",
                                     "TRUE", INV), "mc_sess", timeout=3000)
    if not r["ok"]:
        raise Infra("Session.tla violates %s:\n%s" % (r["violated"], r["out"][-1500:]))
    states += r["distinct"]
    trans += r["generated"]
    # beyond exhaustive reach: more connections and closes, random behaviours
    sim = tlc_simulate(ctx, "MC_Session",
                       MC % ("Spec", "TwoClients", 5, 9, "TRUE", "TRUE", "TRUE", INV),
                       "sim_sess", 250 if quick else 6000, depth=250)
    if not sim["ok"]:
        raise Infra("Session.tla violates %s in simulation:\n%s" % (sim["violated"], sim["out"][-1500:]))
    ctx.cov["simulated_behaviours"] = sim["traces"]
    ctx.cov["simulated_states_checked"] = sim["states"]
    # mutants of the specification must be caught
    for name, ab, sd, want in (("noblock", "FALSE", "TRUE", "AtMostOneOpen"),
                               ("nodelete", "TRUE", "FALSE", "OldBoxesGone")):
        m = tlc(ctx, "MC_Session", MC % ("Spec", "TwoClients", 2, 4, ab, sd, "TRUE", INV),
                "mc_sess_" + name, timeout=1200)
        if m["violated"] != want:
            raise Infra("specification mutant %s not caught by %s (got %s)" %
                        (name, want, m["violated"]))
    r = tlc(ctx, "MC_Session", MC % ("LiveSpec", "TwoClients", 2, 4 if quick else 5,
                                     "TRUE", "TRUE", "FALSE", "PROPERTIES FreshAfterClose"),
            "mc_sess_live", timeout=3000)
    if not r["ok"]:
        raise Infra("Session.tla: FreshAfterClose fails:\n" + r["out"][-1500:])
    states += r["distinct"]
    trans += r["generated"]
    s2, t2 = statustrace.model_check(ctx)
    return states + s2, trans + t2


def run(ctx):
    states, trans = model_check(ctx)
    binary = build_drivers(ctx)
    out = ctx.sub("c11")
    env = {"VERIF_THOROUGH": "0" if ctx.tier == "quick" else "1", "VERIF_HANG_S": "100000"}
    rc, o = run_driver(ctx, binary, "TestC11Sessions", out, env=env, timeout=1500)
    if rc != 0:
        raise Infra("driver failed:\n" + o[-3000:])
    path = os.path.join(out, "c11_all.ndjson")
    lines = read_ndjson(path)
    summ = json.load(open(os.path.join(out, "c11_summary.json")))

    def scen_of(cur, idx):
        while idx > 0 and cur[idx].get("ev") != "reset":
            idx -= 1
        return cur[idx].get("scen", "?")

    def keyfn(ln, cur, idx):
        k = "session:%s:%s" % (scen_of(cur, idx), ln.get("ev"))
        if ln.get("ev") in ("acceptRet", "dialRet") and ln.get("prevOpen", 0) != 0:
            k += ":previous-connection-still-open"
        elif ln.get("ev") == "hsRet" and ln.get("side") == "x" and not ln.get("err"):
            k += ":unpaired-client-admitted"
        elif ln.get("ev") in ("acceptRet", "dialRet"):
            k += ":" + str(ln.get("sid"))
        elif ln.get("ev") == "read" and not ln.get("ok"):
            k += ":bytes-of-another-stream"
        return k

    for x in lines:
        x["op"] = x["ev"]
    with open(path, "w") as fh:
        for x in lines:
            fh.write(json.dumps(x) + "\n")
    n, rejected, tstates = linetrace.validate(
        ctx, "MC_Trace_Session", TR, path, "tr_sess", keyfn, what="session trace",
        segment_op="reset")
    # the mailbox transport under every handed-out connection's GBN, by
    # stream: received = sent, in order, losses and in-place repetitions only,
    # and sender and receiver of a stream agree on its name (MailboxLink.tla)
    import c05
    link_lines = link_rej = 0
    lpath = os.path.join(out, "c11link.ndjson")
    if os.path.exists(lpath) and os.path.getsize(lpath) > 0:
        # a scenario in which the relay itself replaces a message is outside
        # the link's premise (the relay loses and repeats, it does not alter)
        keep, on = [], True
        for x in read_ndjson(lpath):
            if x.get("ev") == "reset":
                on = "corrupt" not in x.get("scen", "")
            if on:
                keep.append(x)
        with open(lpath, "w") as fh:
            for x in keep:
                fh.write(json.dumps(x) + "\n")

        def lkey(ln, cur, idx):
            j = idx
            while j > 0 and cur[j].get("ev") != "reset":
                j -= 1
            return "link:received-packet-not-in-order-of-sending:%s:%s" % (
                ln.get("st"), cur[j].get("scen", "?"))
        link_lines, link_rej, _ = linetrace.validate(
            ctx, "Trace_Link", c05.LINK_TR, lpath, "tr_link", lkey,
            what="link tap log", segment_op="reset")
    ctx.cov["link_tap_lines_validated"] = link_lines
    ctx.cov["link_sessions_rejected"] = link_rej
    # what the clients and the server were told about the session
    # (Status.tla): register hooks, relay answers, ConnStatus polls
    ctx.cov.update(statustrace.validate(ctx, os.path.join(out, "c11status.ndjson"),
                                        "tr_status", "session"))
    # the harness's expectations
    scen = "?"
    unmet = 0
    expects = 0
    for i, x in enumerate(lines):
        if x["ev"] == "reset":
            scen = x["scen"]
        elif x["ev"] == "expect":
            expects += 1
            if not x["ok"]:
                unmet += 1
                ctx.report("session:%s:expect:%s" % (scen, x["what"]),
                           "scenario %s: %s - did not happen" % (scen, x["what"]),
                           {"scenario": scen, "context": [
                               y for y in lines[max(0, i - 60):i + 1]
                               if y["ev"] not in ("relay", "read")]})
        elif x["ev"] == "harnessNote":
            ctx.report("session:%s:harness:%s" % (scen, x.get("what")),
                       "scenario %s: %s" % (scen, x.get("what")), {"scenario": scen})
    sessions = len(summ["runs"])
    hs = sum(1 for x in lines if x["ev"] == "hsRet")
    handed = sum(1 for x in lines if x["ev"] in ("acceptRet", "dialRet") and not x["err"])
    write_evidence(ctx, "model_checking", {
        "states": states, "transitions": trans,
        "traces_validated_against_impl": sessions,
        "trace_lines": n, "trace_states": tstates, "rejected": rejected,
        "connections_handed_out": handed, "noise_handshakes": hs,
        "expectations_checked": expects, "expectations_unmet": unmet,
        "samples": [r["desc"] for r in summ["runs"][:6]],
    }, [
        "the relay is the in-process stand-in harness/relay (one reader and one writer per "
        "stream, released when the caller's context ends, 'stream not found' / 'stream "
        "occupied' / AlreadyExists errors); aperture itself is not run",
        "sessions run in real time with the mailbox layer's own timeouts; the harness waits "
        "up to 60 s for each expected event, so an unmet expectation means tens of seconds "
        "without progress, not a slow machine",
        "most sessions use the grpcTransport (HashMailClient given directly); the ws-* sessions "
        "use the real websocketTransport through harness/wsrelay, a REST/websocket front door "
        "of the stand-in on the loopback interface that presents the two streaming calls the "
        "way grpc-gateway's websocket proxy does",
    ])
