"""C04 - completed handshakes agree on keys, version, identities and auth
payload.

Noise.tla is a symbolic (Dolev-Yao) model of both handshake patterns with the
version byte treated exactly as the code treats it; TLC evaluates Agreement on
every case: all version ranges x both patterns x payload classes x every
combination of version-byte substitutions (values 0..3 on every act) x one
corrupted field.  The same operators predict the outcome of each case, and a
large sample of the cases (all substitution combinations in the thorough tier,
single-bit flips of every handshake byte) is executed on the real Machines
behind a man in the middle; TLC compares the observed outcome (who completed,
negotiated versions, traffic keys, static keys, auth payload, what was
published to ConnData) with the prediction and evaluates Agreement on what
the real endpoints did."""
import json

import noisecheck
from vlib import build_drivers, write_evidence


def run(ctx):
    mc = noisecheck.model(ctx, "C04")
    binary = build_drivers(ctx)
    out = ctx.sub("noise")
    lines, flagged, r = noisecheck.cases(ctx, binary, out)
    nconf = 0
    for f in flagged:
        rec = f["rec"]
        if not f["c04"]:
            if f["confusion"]:
                nconf += 1
                vs = rec["case"]["verSub"]
                # the key names the pattern and which version bytes the relay
                # rewrote (x = left alone), so that a confusion reached in a
                # different way is a different finding
                ctx.report("noise:version-confusion:%s:acts=%s:%d<->%d" %
                           (rec["case"]["pattern"],
                            ",".join("x" if v < 0 else str(v) for v in vs),
                            min(rec["iVer"], rec["rVer"]), max(rec["iVer"], rec["rVer"])),
                           "both parties complete with different versions "
                           "(client %d, server %d) after the relay rewrote "
                           "version bytes %s: %s" %
                           (rec["iVer"], rec["rVer"], vs, noisecheck.describe(rec)),
                           rec)
            else:
                ctx.report("noise:agreement:%s" % (f["diff"] or "real"),
                           "both parties completed the handshake with "
                           "different views: %s -> %s" %
                           (noisecheck.describe(rec), json.dumps(
                               {k: rec.get(k) for k in ("iVer", "rVer", "keysAgree",
                                                        "iRsOK", "rRsOK", "payloadOK")})),
                           rec)
        elif f["diff"] and f["diff"] not in noisecheck.C03_FIELDS:
            ctx.report("noise:outcome:%s" % f["diff"],
                       "handshake outcome differs from Noise.tla in %s: %s" %
                       (f["diff"], noisecheck.describe(rec)), rec)
    tampered = [l for l in lines if l["case"]["verSub"] != [-1, -1, -1]
                or l["case"]["corruptAct"]]
    write_evidence(ctx, "model_checking", {
        "states": mc["distinct"], "transitions": mc["generated"],
        "traces_validated_against_impl": len(lines),
        "evaluations": len(lines),
        "distinct_nontrivial": len({json.dumps(l["case"], sort_keys=True)
                                    for l in tampered}),
        "rule": "one evaluation = one handshake case executed on real "
                "Machines behind a man in the middle; non-trivial = the relay "
                "rewrote at least one version byte or flipped a bit; distinct "
                "= distinct case records",
        "samples": [l["case"] for l in lines[:2]] + [l["case"] for l in tampered[:2]],
        "version_confusions_observed": nconf,
        "flagged_lines": len(flagged),
        "exhaustive": False,
        "checker_cmd": "tlc MC_Noise.tla; tlc Trace_Noise.tla",
    }, ["symbolic cryptography: the model shows which terms enter transcript "
        "and key chain; it does not prove the primitives secure",
        "quick tier samples the version-substitution combinations; the model "
        "covers all of them",
        "auth payloads up to 70000 bytes (multi-megabyte payloads behave like "
        "the 70000-byte class: length-prefixed, one AEAD)"])
