"""C08 - cipher stream: fresh nonces, lock-step key rotation, no plaintext on
the wire.

CipherStream.tla models both directions' writer/reader cipher states (nonce++
after every Encrypt/Decrypt, ratchet at ROT); TLC checks FreshPair, LockStep,
NonceBound and ReadPrefix with a small ROT.  Real Machine pairs (XX and KK
sessions) then exchange thousands of records with the two directions
interleaved at random, across several rotations with the real ROT = 1000; the
hooks in cipherState.Encrypt/Decrypt/rotateKey report every (key fingerprint,
nonce) and TLC validates the whole log against the discipline; the wire is
scanned for plaintext, the auth payload and repeated ciphertext blocks."""
import json
import os

import linetrace
from vlib import Infra, build_drivers, run_driver, tlc, write_evidence

MC = """CONSTANTS
  ROT = %d
  Dirs = {"c2s", "s2c"}
  MaxMsgs = %d
  MaxEdits = %d
SPECIFICATION Spec
INVARIANTS ReadPrefix FreshPair LockStep NonceBound
CHECK_DEADLOCK FALSE
"""
TR = """CONSTANTS
  ROT = 1000
  Dirs = {"c2s", "s2c"}
  TraceFile = "%s"
SPECIFICATION TraceSpec
INVARIANT TraceNonceBound
POSTCONDITION TraceAccepted
CHECK_DEADLOCK FALSE
"""


def keyfn(ln):
    if ln.get("op") == "end":
        if ln.get("plainHits") or ln.get("authHits"):
            return "cipher:plaintext-on-wire"
        if ln.get("collisions"):
            return "cipher:repeated-ciphertext"
        return "cipher:unread-records"
    return "cipher:%s:%s" % (ln.get("op"), ln.get("dir"))


def run(ctx):
    quick = ctx.tier == "quick"
    states = trans = 0
    for rot, mm, ed in ((4, 4, 0), (4, 3, 1)) if quick else \
            ((4, 6, 0), (3, 4, 1), (4, 3, 2)):
        r = tlc(ctx, "CipherStream", MC % (rot, mm, ed),
                "mc_cs_%d_%d_%d" % (rot, mm, ed), timeout=1500)
        if not r["ok"]:
            raise Infra("CipherStream.tla violates %s" % r["violated"])
        states += r["distinct"]
        trans += r["generated"]
    binary = build_drivers(ctx)
    out = ctx.sub("c08")
    rc, o = run_driver(ctx, binary, "TestC08Cipher", out, timeout=900)
    if rc != 0:
        raise Infra("driver failed:\n" + o[-2000:])
    path = os.path.join(out, "c08.ndjson")
    n, rej, st = linetrace.validate(ctx, "Trace_Cipher", TR, path, "tr_cipher",
                                    keyfn, "cipher hook log", segment_op="new")
    lines = [json.loads(x) for x in open(path).read().splitlines()]
    ends = [x for x in lines if x["op"] == "end"]
    rots = sum(1 for x in lines if x["op"] == "rot")
    write_evidence(ctx, "model_checking", {
        "states": states, "transitions": trans,
        "traces_validated_against_impl": len(ends) - rej,
        "trace_lines": n,
        "evaluations": sum(2 * e["records"] for e in ends),
        "distinct_nontrivial": rots + len(ends),
        "rule": "one evaluation = one record (two encryptions, two "
                "decryptions) of a real session; non-trivial distinct cases "
                "counted here are key rotations observed (%d) plus sessions; "
                "sizes 0, 1, 20-70 and 65535 bytes, every ninth plaintext "
                "equal" % rots,
        "samples": lines[1:4] + [x for x in lines if x["op"] == "rot"][:1] + ends[:1],
        "rotations": rots, "sessions": len(ends),
        "exhaustive": False,
        "checker_cmd": "tlc CipherStream.tla; tlc Trace_Cipher.tla",
    }, ["keys appear as 32-bit SHA-256 fingerprints",
        "ChaCha20-Poly1305 and HKDF themselves are trusted (symbolic AEAD in "
        "the model)"])
