"""C15 - secured connections honour the net.Conn stream contract for any
buffer size.

RecordIO.tla models the three reader automata (NoiseGrpcConn.Read with its
32 KiB split, NoiseConn.Read and connKit.Read re-chunking) and the TCP
variant's write chunking over abstract byte positions; TLC checks the stream
contract (n <= len(buf), contiguous positions) for every sequence of small
write sizes and buffer sizes.  The real connections (NoiseGrpcConn over a real
connKit, NoiseConn, plain connKit) are then driven with boundary and random
write/read-buffer sizes and every logged call is validated by TLC against the
same contract with the real constants."""
import json
import os

import linetrace
from vlib import Infra, build_drivers, run_driver, tlc, write_evidence

MC = """CONSTANTS
  HDR = 3
  MAC = 2
  GRPCBUF = 4
  MAXREC = 6
  Sizes = {%s}
  Bufs = {%s}
  MaxWrites = %d
  MaxReads = %d
  Lens = {0, 1, 2, 3}
  Dev = FALSE
SPECIFICATION Spec
INVARIANTS StreamContract FlushAccounting
CHECK_DEADLOCK FALSE
"""
TR = """CONSTANTS
  HDR = 18
  MAC = 16
  GRPCBUF = 32768
  MAXREC = 65535
  TraceFile = "%s"
SPECIFICATION TraceSpec
POSTCONDITION TraceAccepted
CHECK_DEADLOCK FALSE
"""


def keyfn(ln):
    if ln.get("op") == "read":
        if ln.get("n", 0) > ln.get("buf", 0):
            return "stream:%s:read-returns-more-than-buffer" % ln.get("conn")
        if ln.get("match") == 0:
            return "stream:%s:read-wrong-bytes" % ln.get("conn")
        if ln.get("err"):
            return "stream:%s:read-error" % ln.get("conn")
    if ln.get("op") == "write":
        return "stream:%s:write" % ln.get("conn")
    return "stream:%s:%s" % (ln.get("conn"), ln.get("op"))


def run(ctx):
    quick = ctx.tier == "quick"
    mc = tlc(ctx, "MC_RecordIO",
             MC % (("0, 1, 4, 5, 9", "1, 3, 4, 9", 3, 4) if quick else
                   ("0, 1, 3, 4, 5, 6, 7, 13", "1, 2, 3, 4, 5, 9", 3, 5)),
             "mc_recordio", timeout=1500)
    if not mc["ok"]:
        raise Infra("RecordIO.tla violates %s" % mc["violated"])
    binary = build_drivers(ctx)
    out = ctx.sub("c15")
    rc, o = run_driver(ctx, binary, "TestC15Stream", out, timeout=900)
    if rc != 0:
        raise Infra("driver failed:\n" + o[-2000:])
    path = os.path.join(out, "c15.ndjson")
    n, rej, st = linetrace.validate(ctx, "Trace_Stream", TR, path, "tr_stream",
                                    keyfn, "stream call trace", segment_op="new")
    # write deadlines expiring inside a record (TCP variant)
    rc, o = run_driver(ctx, binary, "TestC15WriteTimeout", out, timeout=900)
    if rc != 0:
        raise Infra("write-timeout driver failed:\n" + o[-2000:])
    path2 = os.path.join(out, "c15wt.ndjson")
    n2, rej2, st2 = linetrace.validate(ctx, "Trace_Stream", TR, path2, "tr_stream_wt",
                                       keyfn, "stream call trace (write timeouts)",
                                       segment_op="new")
    n, rej = n + n2, rej + rej2
    lines = [json.loads(x) for x in open(path).read().splitlines()] + \
        [json.loads(x) for x in open(path2).read().splitlines()]
    scen = [x for x in lines if x["op"] == "new"]
    write_evidence(ctx, "model_checking", {
        "states": mc["distinct"], "transitions": mc["generated"],
        "traces_validated_against_impl": len(scen) - rej,
        "trace_lines": n,
        "evaluations": len(scen),
        "distinct_nontrivial": len({json.dumps([x["conn"], x["ws"], x["bs"]])
                                    for x in scen}),
        "rule": "one evaluation = one (connection type, write-size sequence, "
                "read-buffer-size sequence) scenario on a fresh secured "
                "connection pair; sizes are drawn from the record/32 KiB/64 KiB "
                "boundaries and small random values; distinct = distinct "
                "(type, sizes, buffers)",
        "samples": scen[:3] + [x for x in lines if x["op"] == "read"][:2],
        "exhaustive": False,
        "checker_cmd": "tlc MC_RecordIO.tla; tlc Trace_Stream.tla",
    }, ["zero-length writes are exercised on all three variants (a zero-length "
        "write must not end or disturb the peer's stream)",
        "the model checks small symbolic constants (GRPCBUF=4, MAXREC=6); the "
        "trace validation uses the real ones"])
