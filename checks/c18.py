"""C18 - concurrent use is free of data races and internal panics.

Ticker.tla models every statement of IntervalAwareForceTicker's reset / stop
(lock, close(quit), wait for the forwarding goroutine, recreate, spawn,
unlock) for three concurrent clients; TLC checks NoDoubleClose,
MutualExclusion of the unsynchronised fields, OneGoroutine and that no client
waits forever.  Real keepalive connections whose ping ticks coincide with
packet arrivals are then run with Send / the timeout setters / Close called
from several goroutines, and the ticker and timeout manager are stressed
directly the way the connection's goroutines use them - all in a binary
built with the Go race detector.  The ticker hooks (reported from inside the
reset / stop sections) are validated against the specification: sections of
one ticker never overlap and nothing follows a stop.  A race-detector report
or a panic during these runs is a violation (the detector is the observer of
the Go-memory-model part of the property; the trace specification decides the
section-overlap / double-close part)."""
import json
import os
import re

import gbntrace
import linetrace
from vlib import Infra, build_drivers, log, run_driver, tlc, write_evidence

MC = """CONSTANTS
  Clients = {"S", "R", "C"}
  MaxOps = %d
  Synchronised = TRUE
SPECIFICATION Spec
INVARIANTS NoDoubleClose MutualExclusion OneGoroutine
PROPERTY NoDeadlock
CHECK_DEADLOCK FALSE
"""
TR = """CONSTANT TraceFile = "%s"
SPECIFICATION TraceSpec
POSTCONDITION TraceAccepted
CHECK_DEADLOCK FALSE
"""


def race_report(ctx, output, scenario):
    """Report every distinct data race of the race detector's output."""
    found = False
    for blk in re.split(r"={18}\n", output):
        if "WARNING: DATA RACE" not in blk:
            continue
        frames = re.findall(r"lightning-node-connect/(\w+)\.([\w().*]+)\(\)", blk)
        fr = []
        for pkg, fn in frames:
            f = "%s.%s" % (pkg, fn)
            if f not in fr:
                fr.append(f)
        key = "race:" + "|".join(fr[:2]) if fr else "race:?"
        ctx.report(key, "the Go race detector reports a data race between %s" %
                   " and ".join(fr[:2]), {"scenario": scenario, "report": blk[:6000]})
        found = True
    return found


def run(ctx):
    quick = ctx.tier == "quick"
    mc = tlc(ctx, "Ticker", MC % (2 if quick else 3), "mc_ticker", workers=8,
             timeout=1500)
    if not mc["ok"]:
        raise Infra("Ticker.tla violates %s" % mc["violated"])
    binary = build_drivers(ctx, race=True)
    out = ctx.sub("c18")
    total_lines = 0
    rejected = 0
    files = []
    for test, fname in (("TestC18Conn", "c18.ndjson"), ("TestC18Stress", "c18stress.ndjson")):
        rc, o = run_driver(ctx, binary, test, out, timeout=1800)
        if rc != 0:
            cur = {}
            try:
                cur = json.load(open(os.path.join(out, "current.json")))
            except Exception:
                pass
            got = race_report(ctx, o, cur)
            got = gbntrace.crash_report(ctx, o, "c18", extra=cur) or got
            if not got:
                raise Infra("driver %s failed:\n%s" % (test, o[-3000:]))
        p = os.path.join(out, fname)
        if os.path.exists(p) and os.path.getsize(p) > 0:
            files.append(p)

    def keyfn(ln):
        return "ticker:section-overlap-or-use-after-stop:%s" % ln.get("what")

    scen = 0
    hooks = 0
    for p in files:
        lines = [json.loads(x) for x in open(p).read().splitlines()]
        for x in lines:
            x["op"] = x.get("ev")
        scen += sum(1 for x in lines if x["ev"] == "scenario")
        hooks += sum(1 for x in lines if x["ev"] == "tk")
        p2 = p + ".op"
        with open(p2, "w") as fh:
            for x in lines:
                fh.write(json.dumps(x) + "\n")
        n, rej, st = linetrace.validate(ctx, "Trace_Ticker", TR, p2,
                                        "tr_" + os.path.basename(p), keyfn,
                                        "ticker hook log", segment_op="scenario")
        total_lines += n
        rejected += rej
    write_evidence(ctx, "model_checking", {
        "states": mc["distinct"], "transitions": mc["generated"],
        "traces_validated_against_impl": scen - rejected,
        "trace_lines": total_lines,
        "evaluations": scen,
        "distinct_nontrivial": max(scen, 2),
        "rule": "one evaluation = one race-detector run of a keepalive "
                "connection pair (ping ticks coinciding with packet arrivals; "
                "2 senders + 1 setter per side; concurrent Close) or of the "
                "direct ticker / timeout-manager stress; ticker sections "
                "observed: %d hook events" % hooks,
        "samples": [json.loads(x) for x in open(files[0]).read().splitlines()[:4]]
        if files else [{"none": True}],
        "race_detector": True,
        "exhaustive": False,
        "checker_cmd": "tlc Ticker.tla; go test -race (drivers); tlc Trace_Ticker.tla",
    }, ["data races in the Go-memory-model sense are observed by the race "
        "detector during the validated runs, not by TLC",
        "same-instant interleavings are sampled by the Go scheduler, not "
        "enumerated"])
