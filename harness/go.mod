module verif/harness

go 1.26.8

require (
	github.com/lightninglabs/lightning-node-connect/gbn v1.0.0
	github.com/lightninglabs/lightning-node-connect/hashmailrpc v1.0.2
	github.com/lightninglabs/lightning-node-connect/mailbox v1.0.0
)

require (
	github.com/btcsuite/btclog v0.0.0-20241003133417-09c4e92e319c // indirect
	github.com/btcsuite/btclog/v2 v2.0.1-0.20250110154127-3ae4bf1cb318 // indirect
	github.com/jrick/logrotate v1.1.2 // indirect
	github.com/klauspost/compress v1.17.9 // indirect
	github.com/lightningnetwork/lnd v0.19.0-beta // indirect
	github.com/lightningnetwork/lnd/ticker v1.1.1 // indirect
)

replace (
	github.com/lightninglabs/lightning-node-connect/gbn => /repo/gbn
	github.com/lightninglabs/lightning-node-connect/mailbox => /repo/mailbox
)
