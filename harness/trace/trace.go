// Package trace is the event recorder of the verification harness: a single
// mutex-protected append-only log of NDJSON-serialisable events with a global
// index. Hooks call it while holding the lock that protects the state they
// report, so the global index is consistent with every lock's order.
package trace

import (
	"bufio"
	"encoding/json"
	"os"
	"sync"
	"time"
)

// Event is one trace line.
type Event map[string]any

// Recorder collects events.
type Recorder struct {
	mu     sync.Mutex
	events []Event
	start  time.Time
}

// New creates a recorder whose timestamps are relative to now.
func New() *Recorder { return &Recorder{start: time.Now()} }

// Emit appends an event; kv is a list of alternating keys and values.
func (r *Recorder) Emit(ev string, kv ...any) {
	e := Event{"ev": ev}
	for i := 0; i+1 < len(kv); i += 2 {
		e[kv[i].(string)] = kv[i+1]
	}
	r.mu.Lock()
	e["t"] = int(time.Since(r.start) / time.Millisecond)
	r.events = append(r.events, e)
	r.mu.Unlock()
}

// Events returns a snapshot of the events recorded so far.
func (r *Recorder) Events() []Event {
	r.mu.Lock()
	defer r.mu.Unlock()
	out := make([]Event, len(r.events))
	copy(out, r.events)
	return out
}

// Len returns the number of events recorded so far.
func (r *Recorder) Len() int {
	r.mu.Lock()
	defer r.mu.Unlock()
	return len(r.events)
}

// Writer appends traces to an NDJSON file.
type Writer struct {
	mu sync.Mutex
	f  *os.File
	w  *bufio.Writer
	n  int
}

// NewWriter creates (truncates) the NDJSON file at path.
func NewWriter(path string) (*Writer, error) {
	f, err := os.Create(path)
	if err != nil {
		return nil, err
	}
	return &Writer{f: f, w: bufio.NewWriterSize(f, 1<<20)}, nil
}

// Write appends the events to the file, one JSON object per line, and returns
// the 1-based line number of the first event written.
func (w *Writer) Write(events []Event) (int, error) {
	w.mu.Lock()
	defer w.mu.Unlock()
	first := w.n + 1
	for _, e := range events {
		b, err := json.Marshal(e)
		if err != nil {
			return first, err
		}
		w.w.Write(b)
		w.w.WriteByte('\n')
		w.n++
	}
	return first, nil
}

// Lines returns the number of lines written so far.
func (w *Writer) Lines() int {
	w.mu.Lock()
	defer w.mu.Unlock()
	return w.n
}

// Close flushes and closes the file.
func (w *Writer) Close() error {
	w.mu.Lock()
	defer w.mu.Unlock()
	if err := w.w.Flush(); err != nil {
		return err
	}
	return w.f.Close()
}
