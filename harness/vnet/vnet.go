// Package vnet is the packet transport the harness puts under a pair of real
// GoBackNConn endpoints: two directed, order-preserving links whose per-packet
// fate (drop, duplicate in place, delay) is decided by a script.  It is meant
// to run inside a testing/synctest bubble, so all waiting is on virtual time.
package vnet

import (
	"context"
	"errors"
	"sync"
	"time"

	"verif/harness/trace"
)

// Fate is the decision taken for one transmitted packet.
type Fate struct {
	Copies int           // 0 = dropped, 1 = delivered once, 2 = duplicated in place
	Delay  time.Duration // extra delay on top of the link latency
}

// Decider decides the fate of the idx-th packet (0-based) sent by endpoint
// from ("c" or "s"); pkt is the serialized packet.
type Decider func(from string, idx int, pkt []byte, now time.Duration) Fate

type item struct {
	b  []byte
	at time.Time
}

type link struct {
	mu     sync.Mutex
	gated  bool // packets are parked in gq instead of q
	gq     [][]byte
	q      []item
	notify chan struct{}
	lastAt time.Time
	sent   int
}

// Net is a pair of links between endpoints "c" and "s".
type Net struct {
	Rec     *trace.Recorder
	Latency time.Duration
	Decide  Decider
	start   time.Time
	to      map[string]*link // link delivering *to* the endpoint

	mu       sync.Mutex
	silenced map[string]bool          // packets sent *by* this endpoint vanish silently
	blocked  map[string]bool          // sends by this endpoint block until ctx is done
	failing  map[string]bool          // sends by this endpoint fail at once
	lag      map[string]time.Duration // sends by this endpoint return late
	// Describe turns a serialized packet into trace fields.
	Describe func(b []byte) []any
}

// New creates a network.
func New(rec *trace.Recorder, latency time.Duration, d Decider,
	describe func(b []byte) []any) *Net {

	return &Net{
		Rec:     rec,
		Latency: latency,
		Decide:  d,
		start:   time.Now(),
		to: map[string]*link{
			"c": {notify: make(chan struct{}, 1)},
			"s": {notify: make(chan struct{}, 1)},
		},
		silenced: map[string]bool{},
		blocked:  map[string]bool{},
		failing:  map[string]bool{},
		lag:      map[string]time.Duration{},
		Describe: describe,
	}
}

func peer(e string) string {
	if e == "c" {
		return "s"
	}
	return "c"
}

// Since returns the time elapsed since the network was created.
func (n *Net) Since() time.Duration { return time.Since(n.start) }

// SetDecider replaces the fate decider.
func (n *Net) SetDecider(d Decider) {
	n.mu.Lock()
	n.Decide = d
	n.mu.Unlock()
}

// Silence makes every later packet sent by endpoint e disappear.
func (n *Net) Silence(e string, on bool) {
	n.mu.Lock()
	n.silenced[e] = on
	n.mu.Unlock()
}

// Block makes every later send by endpoint e block until its context ends.
func (n *Net) Block(e string, on bool) {
	n.mu.Lock()
	n.blocked[e] = on
	n.mu.Unlock()
}

// Fail makes every later send by endpoint e return an error at once.
func (n *Net) Fail(e string, on bool) {
	n.mu.Lock()
	n.failing[e] = on
	n.mu.Unlock()
}

// SetSendLag makes every later send by endpoint e return only d after the
// packet was put on the link (a stream write that returns when the relay has
// taken the message, while the packet is already on its way): the peer's
// answer can arrive before the send call has returned.
func (n *Net) SetSendLag(e string, d time.Duration) {
	n.mu.Lock()
	n.lag[e] = d
	n.mu.Unlock()
}

// Inject places a raw packet at the tail of the link towards endpoint to, as
// if its peer had sent it.  It bypasses a closed gate.
func (n *Net) Inject(to string, b []byte) {
	l := n.to[to]
	l.mu.Lock()
	g := l.gated
	l.gated = false
	l.mu.Unlock()
	n.enqueue(peer(to), b, Fate{Copies: 1}, "inj")
	l.mu.Lock()
	l.gated = g
	l.mu.Unlock()
}

// Gate parks (on) every later packet towards endpoint to until Release.
func (n *Net) Gate(to string, on bool) {
	l := n.to[to]
	l.mu.Lock()
	l.gated = on
	l.mu.Unlock()
	if !on {
		n.Release(to, -1)
	}
}

// Release lets k parked packets (all if k < 0) continue towards endpoint to,
// in order, with the link latency.
func (n *Net) Release(to string, k int) int {
	l := n.to[to]
	l.mu.Lock()
	cnt := 0
	for len(l.gq) > 0 && (k < 0 || cnt < k) {
		at := time.Now().Add(n.Latency)
		if at.Before(l.lastAt) {
			at = l.lastAt
		}
		l.lastAt = at
		l.q = append(l.q, item{b: l.gq[0], at: at})
		l.gq = l.gq[1:]
		cnt++
	}
	l.mu.Unlock()
	select {
	case l.notify <- struct{}{}:
	default:
	}
	return cnt
}

// Pending returns the number of packets in flight towards endpoint e.
func (n *Net) Pending(e string) int {
	l := n.to[e]
	l.mu.Lock()
	defer l.mu.Unlock()
	return len(l.q)
}

func (n *Net) enqueue(from string, b []byte, f Fate, ev string) {
	l := n.to[peer(from)]
	cp := append([]byte(nil), b...)
	l.mu.Lock()
	kv := append([]any{"ep", from, "c", f.Copies}, n.Describe(cp)...)
	if f.Delay > 0 {
		kv = append(kv, "d", int(f.Delay/time.Millisecond))
	}
	n.Rec.Emit(ev, kv...)
	if f.Copies > 0 && l.gated {
		for i := 0; i < f.Copies; i++ {
			l.gq = append(l.gq, cp)
		}
	} else if f.Copies > 0 {
		at := time.Now().Add(n.Latency + f.Delay)
		if at.Before(l.lastAt) {
			at = l.lastAt // order preserving
		}
		l.lastAt = at
		for i := 0; i < f.Copies; i++ {
			l.q = append(l.q, item{b: cp, at: at})
		}
	}
	l.mu.Unlock()
	select {
	case l.notify <- struct{}{}:
	default:
	}
}

// SendFunc returns the sendToStream callback for endpoint e.
func (n *Net) SendFunc(e string) func(ctx context.Context, b []byte) error {
	return func(ctx context.Context, b []byte) error {
		select {
		case <-ctx.Done():
			return ctx.Err()
		default:
		}
		n.mu.Lock()
		blocked, silenced := n.blocked[e], n.silenced[e]
		failing := n.failing[e]
		decide := n.Decide
		lag := n.lag[e]
		n.mu.Unlock()
		if failing {
			return errors.New("vnet: transport failed")
		}
		if blocked {
			<-ctx.Done()
			return ctx.Err()
		}
		l := n.to[peer(e)]
		l.mu.Lock()
		idx := l.sent
		l.sent++
		l.mu.Unlock()
		f := Fate{Copies: 1}
		if silenced {
			f = Fate{Copies: 0}
		} else if decide != nil {
			f = decide(e, idx, b, time.Since(n.start))
		}
		n.enqueue(e, b, f, "tx")
		// (not for the FIN: Close sends it under a sync.Once, and a second
		// Close waiting there is not a durable block for synctest, so
		// virtual time could not advance to end the lag)
		if lag > 0 && !(len(b) > 0 && b[0] == 0x05) {
			t := time.NewTimer(lag)
			defer t.Stop()
			select {
			case <-ctx.Done():
				return ctx.Err()
			case <-t.C:
			}
		}
		return nil
	}
}

// RecvFunc returns the recvFromStream callback for endpoint e.  ok reports,
// after the fact, whether the caller is still going to process the packet; the
// harness passes nil and emits "rx" directly.
func (n *Net) RecvFunc(e string) func(ctx context.Context) ([]byte, error) {
	l := n.to[e]
	return func(ctx context.Context) ([]byte, error) {
		for {
			l.mu.Lock()
			var wait time.Duration = -1
			if len(l.q) > 0 {
				wait = time.Until(l.q[0].at)
				if wait <= 0 {
					it := l.q[0]
					l.q = l.q[1:]
					// The event is emitted under the link lock so
					// that deq order equals channel order.
					n.Rec.Emit("deq", append([]any{"ep", e},
						n.Describe(it.b)...)...)
					l.mu.Unlock()
					return it.b, nil
				}
			}
			l.mu.Unlock()

			if wait > 0 {
				t := time.NewTimer(wait)
				select {
				case <-ctx.Done():
					t.Stop()
					return nil, ctx.Err()
				case <-t.C:
				case <-l.notify:
					t.Stop()
				}
			} else {
				select {
				case <-ctx.Done():
					return nil, ctx.Err()
				case <-l.notify:
				}
			}
		}
	}
}
