package drivers

import (
	"errors"
	"fmt"
	"io"
	"net"
	"time"

	"github.com/btcsuite/btcd/btcec/v2"
	"github.com/lightninglabs/lightning-node-connect/mailbox"
	"github.com/lightningnetwork/lnd/keychain"

	"verif/harness/mitm"
)

func newPriv() *btcec.PrivateKey {
	k, err := btcec.NewPrivateKey()
	if err != nil {
		panic(err)
	}
	return k
}

func ecdhKey(k *btcec.PrivateKey) keychain.SingleKeyECDH {
	return &keychain.PrivKeyECDH{PrivKey: k}
}

// impostorKey presents one key pair's public key and computes with another
// pair's private key.
type impostorKey struct {
	pub  *btcec.PublicKey
	priv *btcec.PrivateKey
}

func (k *impostorKey) PubKey() *btcec.PublicKey { return k.pub }
func (k *impostorKey) ECDH(pub *btcec.PublicKey) ([32]byte, error) {
	return (&keychain.PrivKeyECDH{PrivKey: k.priv}).ECDH(pub)
}

// hsParams describes one Noise handshake attempt.
type hsParams struct {
	cliKey, srvKey       *btcec.PrivateKey
	cliECDH              keychain.SingleKeyECDH // overrides ecdhKey(cliKey) if set
	cliRemote, srvRemote *btcec.PublicKey       // expected remote keys (KK) or nil (XX)
	cliEnt, srvEnt       []byte
	auth                 []byte
	// cliStale: auth data the initiator's connection data still holds from
	// an earlier connection (the ConnData object is reused for every
	// connection of a session)
	cliStale   []byte
	cliEphGen  func() (*btcec.PrivateKey, error) // initiator's ephemeral keys (nil: random)
	cMin, cMax byte
	sMin, sMax byte
}

func defaultHs() hsParams {
	ent := []byte{1, 2, 3, 4, 5, 6, 7, 8, 9, 10, 11, 12, 13, 0}
	return hsParams{cliKey: newPriv(), srvKey: newPriv(), cliEnt: ent, srvEnt: ent,
		auth: []byte("macaroon: 0201036c6e6402f801"), cMin: 0, cMax: 2, sMin: 0, sMax: 2}
}

type hsResult struct {
	cm, sm     *mailbox.Machine
	cd, sd     *mailbox.ConnData
	cErr, sErr error
	newErr     error
}

// runMachines performs a handshake between two raw Machines over the given
// transports (each an io.ReadWriter).
func runMachines(p hsParams, cRW, sRW io.ReadWriter) hsResult {
	var res hsResult
	var ck keychain.SingleKeyECDH = ecdhKey(p.cliKey)
	if p.cliECDH != nil {
		ck = p.cliECDH
	}
	res.cd = mailbox.NewConnData(ck, p.cliRemote, p.cliEnt, p.cliStale, nil, nil)
	res.sd = mailbox.NewConnData(ecdhKey(p.srvKey), p.srvRemote, p.srvEnt, p.auth, nil, nil)
	var err error
	res.cm, err = mailbox.NewBrontideMachine(&mailbox.BrontideMachineConfig{
		ConnData: res.cd, Initiator: true, HandshakePattern: res.cd.HandshakePattern(),
		MinHandshakeVersion: p.cMin, MaxHandshakeVersion: p.cMax, EphemeralGen: p.cliEphGen})
	if err != nil {
		res.newErr = err
		return res
	}
	res.sm, err = mailbox.NewBrontideMachine(&mailbox.BrontideMachineConfig{
		ConnData: res.sd, Initiator: false, HandshakePattern: res.sd.HandshakePattern(),
		MinHandshakeVersion: p.sMin, MaxHandshakeVersion: p.sMax})
	if err != nil {
		res.newErr = err
		return res
	}
	done := make(chan error, 1)
	go func() {
		e := res.sm.DoHandshake(sRW)
		if c, ok := sRW.(io.Closer); ok && e != nil {
			c.Close()
		}
		done <- e
	}()
	res.cErr = res.cm.DoHandshake(cRW)
	if c, ok := cRW.(io.Closer); ok && res.cErr != nil {
		c.Close()
	}
	res.sErr = <-done
	return res
}

// runMachinesGuarded is runMachines with a watchdog: a handshake over an
// in-memory transport that has not ended after the patience (real time; a
// handshake takes milliseconds) is stuck - e.g. waiting for bytes a read-ahead
// swallowed.  The transports are closed to release the two parties and the
// outcome says so.
func runMachinesGuarded(p hsParams, cRW, sRW io.ReadWriter, patience time.Duration) (hsResult, bool) {
	ch := make(chan hsResult, 1)
	go func() { ch <- runMachines(p, cRW, sRW) }()
	select {
	case res := <-ch:
		return res, false
	case <-time.After(patience):
	}
	for _, x := range []io.ReadWriter{cRW, sRW} {
		if c, ok := x.(io.Closer); ok {
			c.Close()
		}
	}
	select {
	case res := <-ch:
		if res.cErr == nil && res.sErr == nil && res.newErr == nil {
			// finished on its own just as the patience ran out
			return res, false
		}
		res.cErr = errors.New("verif: handshake stuck (" + fmt.Sprint(res.cErr) + ")")
		return res, true
	case <-time.After(patience):
		return hsResult{cErr: errors.New("verif: handshake stuck, parties not released"),
			sErr: errors.New("verif: handshake stuck, parties not released")}, true
	}
}

// kitProxy is a mailbox.ProxyConn built from a real connKit whose control
// messages travel over in-memory message queues (standing in for GBN).
type kitProxy struct {
	*mailbox.VerifConnKit
	in, out *mitm.MsgQueue
}

func (k *kitProxy) ReceiveControlMsg(m mailbox.ControlMsg) error {
	b, err := k.in.Get()
	if err != nil {
		return err
	}
	return m.Deserialize(b)
}

func (k *kitProxy) SendControlMsg(m mailbox.ControlMsg) error {
	b, err := m.Serialize()
	if err != nil {
		return err
	}
	k.out.Put(b)
	return nil
}
func (k *kitProxy) SetRecvTimeout(time.Duration)       {}
func (k *kitProxy) SetSendTimeout(time.Duration)       {}
func (k *kitProxy) Close() error                       { k.in.Close(); k.out.Close(); return nil }
func (k *kitProxy) LocalAddr() net.Addr                { return &mailbox.Addr{} }
func (k *kitProxy) RemoteAddr() net.Addr               { return &mailbox.Addr{} }
func (k *kitProxy) SetDeadline(t time.Time) error      { return nil }
func (k *kitProxy) SetReadDeadline(t time.Time) error  { return nil }
func (k *kitProxy) SetWriteDeadline(t time.Time) error { return nil }

func newKitPair() (*kitProxy, *kitProxy) {
	a2b, b2a := mitm.NewMsgQueue(), mitm.NewMsgQueue()
	a := &kitProxy{in: b2a, out: a2b}
	b := &kitProxy{in: a2b, out: b2a}
	a.VerifConnKit = mailbox.NewVerifConnKit(a)
	b.VerifConnKit = mailbox.NewVerifConnKit(b)
	return a, b
}

var _ mailbox.ProxyConn = (*kitProxy)(nil)
