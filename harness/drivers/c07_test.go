package drivers

import (
	"context"
	"encoding/json"
	"fmt"
	"os"
	"path/filepath"
	"testing"
	"testing/synctest"
	"time"

	"github.com/lightninglabs/lightning-node-connect/gbn"

	"verif/harness/gbnrun"
	"verif/harness/trace"
	"verif/harness/vnet"
)

func noteCurrent(dir string, v any) {
	beat(v)
	b, _ := json.Marshal(v)
	os.WriteFile(filepath.Join(dir, "current.json"), b, 0o644)
}

// TestC07Inject: after a valid history that leaves the client's window in a
// chosen (possibly wrapped) state, the relay injects one packet - every
// ACK/NACK sequence value of interest, malformed and unexpected packets - and
// the conversation then continues (resends included).
func TestC07Inject(t *testing.T) {
	dir := outDir(t)
	ts := newTraceSet(dir, "c07")
	thorough := os.Getenv("VERIF_TIER") == "thorough"
	type inj struct {
		name string
		pkt  []byte
	}
	var injs []inj
	seqs := []int{0, 1, 2, 3, 4, 5, 100, 254, 255}
	if thorough {
		seqs = nil
		for q := 0; q < 256; q++ {
			seqs = append(seqs, q)
		}
	}
	for _, q := range seqs {
		injs = append(injs, inj{fmt.Sprintf("ack%d", q), []byte{gbn.ACK, byte(q)}})
		injs = append(injs, inj{fmt.Sprintf("nack%d", q), []byte{gbn.NACK, byte(q)}})
	}
	injs = append(injs,
		inj{"data3", []byte{gbn.DATA, 0, 1}},
		inj{"data2", []byte{gbn.DATA, 0}},
		inj{"data1", []byte{gbn.DATA}},
		inj{"ack1", []byte{gbn.ACK}},
		inj{"nack1", []byte{gbn.NACK}},
		inj{"syn1", []byte{gbn.SYN}},
		inj{"syn", []byte{gbn.SYN, 7}},
		inj{"synack", []byte{gbn.SYNACK}},
		inj{"empty", []byte{}},
		inj{"type0", []byte{0, 1, 2, 3}},
		inj{"type9", []byte{9, 1, 2, 3}},
		inj{"type255", []byte{255}},
		inj{"dataSeq200", append([]byte{gbn.DATA, 200, 1, 0}, gbnrun.Payload(1, 8)...)},
		inj{"dataPingSeq", []byte{gbn.DATA, 0, 1, 1}},
	)
	ns := []uint8{1, 2, 3}
	if thorough {
		ns = append(ns, 5, 20)
	}
	idx := 0
	for _, n := range ns {
		// pre = packets acknowledged before the gate closes; held =
		// packets then left unacknowledged (window state base=pre%s,
		// top=(pre+held)%s)
		for pre := 0; pre <= int(n)+1; pre++ {
			for hv := -1; hv <= int(n); hv++ {
				held := hv
				// held = -1: the idle queue - everything sent has been
				// acknowledged and nothing is in flight when the forged
				// packet arrives; the resend timer fires before the next
				// message is sent
				idle := held < 0
				if idle {
					held = 0
				}
				// larger windows: the corner states of the window and the
				// sequence values around it (every state x every byte is
				// done for n <= 3 and, on the queue alone, by C09)
				if n > 3 && !((pre <= 1 || pre >= int(n)) && (held <= 1 || held >= int(n)-1)) {
					continue
				}
				for _, in := range injs {
					idx++
					if n > 3 && len(in.pkt) == 2 && (in.pkt[0] == gbn.ACK || in.pkt[0] == gbn.NACK) &&
						int(in.pkt[1]) > int(n)+2 && in.pkt[1] != 100 && in.pkt[1] < 254 {
						continue
					}
					// every tier runs the forged ACKs / NACKs whose
					// sequence byte lies next to the window's base or
					// top (in particular the idle queue, held = 0,
					// with an ACK for the next unsent number); the
					// rest is sampled in the quick tier
					near := false
					if len(in.pkt) == 2 && (in.pkt[0] == gbn.ACK || in.pkt[0] == gbn.NACK) {
						sp := int(n) + 1
						q := int(in.pkt[1])
						for _, w := range []int{pre % sp, (pre + held) % sp} {
							for d := -1; d <= 1; d++ {
								if q == (w+d+sp)%sp {
									near = true
								}
							}
						}
					}
					if idle && !near {
						continue
					}
					if !thorough && !near && (idx+int(seed()))%7 != 0 &&
						!(held == int(n) && pre == int(n)) {
						continue
					}
					n, pre, held, in := n, pre, held, in
					desc := map[string]any{"n": int(n), "pre": pre,
						"held": held, "inj": in.name, "i": idx, "idle": idle}
					extra := 2
					if idle {
						extra = 1
					}
					noteCurrent(dir, desc)
					cfg := gbnrun.Config{
						N:           n,
						Static:      time.Second,
						Msgs:        [2]int{pre + held + extra, 1},
						Latency:     10 * time.Millisecond,
						Horizon:     2 * time.Minute,
						ManualStart: true,
						Gap: func(ep string, id int) time.Duration {
							if ep == "c" && id == pre+1 && idle {
								return 4 * time.Second
							}
							if ep == "c" && id == pre+1 {
								return 500 * time.Millisecond
							}
							if ep == "c" && id == pre+held+1 {
								return 3 * time.Second
							}
							return 0
						},
					}
					cfg.OnReady = func(r *gbnrun.Run) {
						r.StartSenders()
						time.Sleep(300 * time.Millisecond)
						// from now on nothing the server sends reaches
						// the client (lost, not reordered)
						r.Net.Silence("s", true)
						time.Sleep(400 * time.Millisecond)
						synctest.Wait()
						r.Net.Inject("c", in.pkt)
						time.Sleep(1500 * time.Millisecond)
						r.Net.Silence("s", false)
					}
					var run *gbnrun.Run
					synctest.Test(t, func(t *testing.T) {
						run = gbnrun.Execute(cfg)
					})
					ts.add(fmt.Sprintf("n%d", n), run.Rec.Events(), desc, true,
						map[string]any{"delivered": run.Delivered,
							"sendErr": run.SendErr, "recvErr": run.RecvErr})
				}
			}
		}
	}
	ts.close(nil)
}

// TestC07ServerSyn: a raw peer plays the client of the GBN handshake and
// proposes every window value 0..255; the server must either reject it or
// run with a representable window, and must survive the first data exchange.
func TestC07ServerSyn(t *testing.T) {
	dir := outDir(t)
	w, err := trace.NewWriter(filepath.Join(dir, "c07syn.ndjson"))
	if err != nil {
		t.Fatal(err)
	}
	// pass 0: the proposed window arrives in the first SYN; pass 1: a valid
	// SYN (window 5) first, then the proposed one while the server waits for
	// the SYNACK (the server answers the later SYN and adopts its window)
	for idx := 0; idx < 512; idx++ {
		n, pass := idx%256, idx/256
		noteCurrent(dir, map[string]any{"scenario": "serverSyn", "n": n, "pass": pass})
		synctest.Test(t, func(t *testing.T) {
			rec := trace.New()
			net := vnet.New(rec, 5*time.Millisecond, nil, gbnrun.Describe)
			ctx, cancel := context.WithCancel(context.Background())
			defer cancel()
			type res struct {
				c   *gbn.GoBackNConn
				err error
			}
			ch := make(chan res, 1)
			go func() {
				c, err := gbn.NewServerConn(ctx, net.SendFunc("s"), net.RecvFunc("s"),
					gbn.WithTimeoutOptions(gbn.WithStaticResendTimeout(time.Second),
						gbn.WithHandshakeTimeout(time.Second)))
				ch <- res{c, err}
			}()
			// raw client: drain what the server sends
			go func() {
				recv := net.RecvFunc("c")
				for {
					if _, err := recv(ctx); err != nil {
						return
					}
				}
			}()
			if pass == 1 {
				net.Inject("s", []byte{gbn.SYN, 5})
				time.Sleep(50 * time.Millisecond)
			}
			net.Inject("s", []byte{gbn.SYN, byte(n)})
			time.Sleep(50 * time.Millisecond)
			net.Inject("s", []byte{gbn.SYNACK})
			var r res
			got := false
			select {
			case r = <-ch:
				got = true
			case <-time.After(10 * time.Second):
			}
			adopted, errS := -1, ""
			if got && r.err != nil {
				errS = r.err.Error()
			}
			if got && r.err == nil {
				an, _ := r.c.VerifN()
				adopted = int(an)
				// first data exchange: a DATA packet in, a Send out
				net.Inject("s", append([]byte{gbn.DATA, 0, 1, 0}, gbnrun.Payload(1, 8)...))
				time.Sleep(50 * time.Millisecond)
				r.c.SetSendTimeout(200 * time.Millisecond)
				_ = r.c.Send(gbnrun.Payload(1, 8))
				time.Sleep(1500 * time.Millisecond)
				r.c.Close()
			}
			hs := 0
			if got {
				hs = 1
			}
			cancel()
			synctest.Wait()
			w.Write([]trace.Event{{"ev": "hs", "proposed": n, "second": pass, "returned": hs,
				"adopted": adopted, "err": errS}})
		})
	}
	w.Close()
}
