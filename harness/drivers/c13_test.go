package drivers

import (
	"os"
	"testing"
	"testing/synctest"
	"time"

	"github.com/lightninglabs/lightning-node-connect/gbn"

	"verif/harness/gbnrun"
	"verif/harness/vnet"
)

// TestC13Keepalive: the transport goes silent at many instants with 0..n+2
// messages queued at the client; later the observer checks that both ends
// closed in time.  Healthy idle links with response latencies just below the
// pong timeout must never be closed.
func TestC13Keepalive(t *testing.T) {
	dir := outDir(t)
	ts := newTraceSet(dir, "c13")
	thorough := os.Getenv("VERIF_TIER") == "thorough"
	type ka struct{ pc, qc, ps, qs time.Duration }
	settings := []ka{
		{7 * time.Second, 3 * time.Second, 5 * time.Second, 3 * time.Second}, // mailbox
		{2 * time.Second, time.Second, 1500 * time.Millisecond, time.Second},
		{time.Second, 500 * time.Millisecond, time.Second, 500 * time.Millisecond},
	}
	offsets := []int{0, 300, 1900, 4100}
	if thorough {
		offsets = []int{0, 100, 300, 700, 1100, 1900, 2600, 4100, 5200, 6900, 7400}
	}
	idx := 0
	for si, s := range settings {
		for _, n := range []uint8{1, 2, 3} {
			for queued := 0; queued <= int(n)+2; queued++ {
				for _, off := range offsets {
					for _, static := range []time.Duration{time.Second, 0} {
						idx++
						if !thorough && (idx+int(seed()))%5 != 0 {
							continue
						}
						s, n, queued, off, static := s, n, queued, off, static
						desc := map[string]any{"kind": "silence", "setting": si, "n": int(n),
							"queued": queued, "silenceAtMs": off, "staticMs": int(static / time.Millisecond), "i": idx}
						noteCurrent(dir, desc)
						cfg := gbnrun.Config{
							N: n, Static: static, Latency: 30 * time.Millisecond,
							Ping: [2]time.Duration{s.pc, s.ps}, Pong: [2]time.Duration{s.qc, s.qs},
							Msgs: [2]int{2 + queued, 1}, ManualStart: true,
							Horizon: 10 * time.Minute, RecvForever: true,
							CloseScript: func(r *gbnrun.Run) {},
							Gap: func(ep string, id int) time.Duration {
								if ep == "c" && id == 3 {
									// the queued messages are sent right
									// after the transport went silent
									return time.Duration(off)*time.Millisecond + 5*time.Millisecond
								}
								return 0
							},
						}
						cfg.OnReady = func(r *gbnrun.Run) {
							r.Rec.Emit("kaCfg", "pingC", ms(s.pc), "pongC", ms(s.qc), "pingS", ms(s.ps), "pongS", ms(s.qs))
							r.StartSenders()
							time.Sleep(time.Duration(off) * time.Millisecond)
							r.Net.Silence("c", true)
							r.Net.Silence("s", true)
							r.Rec.Emit("silence")
							// long enough for any bound the observer uses
							time.Sleep(4 * time.Minute)
							synctest.Wait()
							r.Rec.Emit("kaEnd", "rtC", rtMs(r.Client), "rtS", rtMs(r.Server))
							r.Close("c", "z")
							r.Close("s", "z")
						}
						var run *gbnrun.Run
						synctest.Test(t, func(t *testing.T) { run = gbnrun.Execute(cfg) })
						ts.add("all", run.Rec.Events(), desc, true, nil)
					}
				}
			}
		}
		// healthy links: idle, or with a little traffic, response latency
		// just below the pong timeout
		for _, frac := range []int{10, 45, 49} {
			idx++
			s, frac := s, frac
			lat := time.Duration(int64(minDur(s.qc, s.qs)) * int64(frac) / 100)
			desc := map[string]any{"kind": "healthy", "setting": si, "latencyMs": ms(lat), "i": idx}
			noteCurrent(dir, desc)
			cfg := gbnrun.Config{
				N: 2, Static: 3*lat + time.Second, Latency: lat,
				Ping: [2]time.Duration{s.pc, s.ps}, Pong: [2]time.Duration{s.qc, s.qs},
				Msgs: [2]int{2, 2}, Horizon: 5 * time.Hour, RecvForever: true,
				CloseScript: func(r *gbnrun.Run) {},
				// the handshake timeout must exceed the round trip, or
				// resent SYNs stray into the data phase
				Extra: []gbn.TimeoutOptions{gbn.WithHandshakeTimeout(4*lat + time.Second)},
			}
			dur := 10000 * time.Second
			if !thorough {
				dur = 1500 * time.Second
			}
			cfg.OnReady = func(r *gbnrun.Run) {
				r.Rec.Emit("kaCfg", "pingC", ms(s.pc), "pongC", ms(s.qc), "pingS", ms(s.ps), "pongS", ms(s.qs))
				time.Sleep(dur)
				synctest.Wait()
				r.Rec.Emit("kaEnd", "rtC", rtMs(r.Client), "rtS", rtMs(r.Server))
				r.Close("c", "z")
				r.Close("s", "z")
			}
			var run *gbnrun.Run
			synctest.Test(t, func(t *testing.T) { run = gbnrun.Execute(cfg) })
			ts.add("all", run.Rec.Events(), desc, true, nil)
		}
		// a live peer behind a link that loses single packets: every third
		// ACK (all of them answer keepalive pings here) or every third ping
		// is lost; the retransmission is answered well within the pong
		// timeout, so nobody may close
		for _, lose := range []string{"ack", "ping"} {
			idx++
			s, lose := s, lose
			lat := 20 * time.Millisecond
			desc := map[string]any{"kind": "alive-lossy", "setting": si, "lose": lose, "i": idx}
			noteCurrent(dir, desc)
			rt := minDur(s.qc, s.qs) / 5
			if rt < 100*time.Millisecond {
				rt = 100 * time.Millisecond
			}
			cnt := map[string]int{}
			cfg := gbnrun.Config{
				N: 2, Static: rt, Latency: lat,
				Ping: [2]time.Duration{s.pc, s.ps}, Pong: [2]time.Duration{s.qc, s.qs},
				Msgs: [2]int{0, 0}, Horizon: 5 * time.Hour, RecvForever: true,
				CloseScript: func(r *gbnrun.Run) {},
				Extra:       []gbn.TimeoutOptions{gbn.WithHandshakeTimeout(time.Second)},
				Decide: func(from string, i int, pkt []byte, now time.Duration) vnet.Fate {
					isAck := len(pkt) > 0 && pkt[0] == gbn.ACK
					isPing := len(pkt) >= 4 && pkt[0] == gbn.DATA && pkt[3] == gbn.TRUE
					if (lose == "ack" && isAck) || (lose == "ping" && isPing) {
						cnt[from]++
						if cnt[from]%3 == 1 {
							return vnet.Fate{Copies: 0}
						}
					}
					return vnet.Fate{Copies: 1}
				},
			}
			dur := 400 * time.Second
			if thorough {
				dur = 4000 * time.Second
			}
			cfg.OnReady = func(r *gbnrun.Run) {
				r.Rec.Emit("kaCfg", "pingC", ms(s.pc), "pongC", ms(s.qc), "pingS", ms(s.ps), "pongS", ms(s.qs))
				time.Sleep(dur)
				synctest.Wait()
				r.Rec.Emit("kaEnd", "rtC", rtMs(r.Client), "rtS", rtMs(r.Server))
				r.Close("c", "z")
				r.Close("s", "z")
			}
			var run *gbnrun.Run
			synctest.Test(t, func(t *testing.T) { run = gbnrun.Execute(cfg) })
			ts.add("all", run.Rec.Events(), desc, true, nil)
		}
		// a live idle peer behind a stream whose writes return late: the
		// answer to a ping can arrive before the write of the ping has
		// returned; nobody may close
		for _, lagPct := range []int{10, 60} {
			idx++
			s, lagPct := s, lagPct
			lat := 10 * time.Millisecond
			lag := time.Duration(int64(minDur(s.qc, s.qs)) * int64(lagPct) / 100)
			desc := map[string]any{"kind": "alive-slow-write", "setting": si, "lagMs": ms(lag), "i": idx}
			noteCurrent(dir, desc)
			cfg := gbnrun.Config{
				N: 2, Static: 2*lag + time.Second, Latency: lat,
				Ping: [2]time.Duration{s.pc, s.ps}, Pong: [2]time.Duration{s.qc, s.qs},
				Msgs: [2]int{lagPct / 60, 0}, Horizon: 5 * time.Hour, RecvForever: true,
				CloseScript: func(r *gbnrun.Run) {},
				Extra:       []gbn.TimeoutOptions{gbn.WithHandshakeTimeout(2*lag + time.Second)},
			}
			dur := 300 * time.Second
			if thorough {
				dur = 3000 * time.Second
			}
			cfg.OnReady = func(r *gbnrun.Run) {
				r.Net.SetSendLag("c", lag)
				r.Net.SetSendLag("s", lag)
				r.Rec.Emit("kaCfg", "pingC", ms(s.pc), "pongC", ms(s.qc), "pingS", ms(s.ps), "pongS", ms(s.qs))
				time.Sleep(dur)
				synctest.Wait()
				r.Rec.Emit("kaEnd", "rtC", rtMs(r.Client), "rtS", rtMs(r.Server))
				r.Close("c", "z")
				r.Close("s", "z")
			}
			var run *gbnrun.Run
			synctest.Test(t, func(t *testing.T) { run = gbnrun.Execute(cfg) })
			ts.add("all", run.Rec.Events(), desc, true, nil)
		}
	}
	ts.close(nil)
}

func ms(d time.Duration) int { return int(d / time.Millisecond) }
func minDur(a, b time.Duration) time.Duration {
	if a < b {
		return a
	}
	return b
}
func rtMs(c *gbn.GoBackNConn) int {
	return ms(c.VerifTimeoutManager().GetResendTimeout())
}
