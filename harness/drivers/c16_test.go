package drivers

import (
	"bytes"
	"encoding/json"
	"errors"
	"fmt"
	"io"
	"os"
	"path/filepath"
	"sync/atomic"
	"testing"
	"time"

	"github.com/lightninglabs/lightning-node-connect/mailbox"

	"verif/harness/mitm"
)

// TestC16Flush: a record is written through a writer that accepts only part
// of the bytes and then times out; Flush is repeated until the record is out.
// Every Flush call is logged with the pending byte counts before it, the
// bytes the writer accepted during it, and its results; the peer then reads
// the record.
func TestC16Flush(t *testing.T) {
	dir := outDir(t)
	f, err := os.Create(filepath.Join(dir, "c16flush.ndjson"))
	if err != nil {
		t.Fatal(err)
	}
	defer f.Close()
	enc := json.NewEncoder(f)
	thorough := os.Getenv("VERIF_TIER") == "thorough"
	r := rng(1616)
	a, b := mitm.NewPair()
	res := runMachines(defaultHs(), a, b)
	if res.newErr != nil || res.cErr != nil || res.sErr != nil {
		t.Fatalf("handshake: %v %v %v", res.newErr, res.cErr, res.sErr)
	}
	wm, rm := res.cm, res.sm
	const HDR, MAC = 18, 16
	nrec := 0
	record := func(L int, plan []int) {
		// every third record meets a transient non-timeout failure where
		// the others meet a timeout: the pending record must be kept and
		// flushed just the same
		nrec++
		a.HardErr = nrec%3 == 0
		defer func() { a.HardErr = false }()
		p := streamOf(L)
		if err := wm.WriteMessage(p); err != nil {
			t.Fatalf("WriteMessage: %v", err)
		}
		a.SetPlan(plan)
		wire0 := len(a.Out.Wire)
		sum, calls := 0, 0
		refused := -1
		// on every second record the writing party reads a record of the
		// opposite direction while its own is only partly out (the two
		// directions of a connection are independent: a gRPC connection
		// reads and writes at once)
		rev := -1
		for {
			st := wm.VerifState()
			before := len(a.Out.Wire)
			n, err := wm.Flush(a)
			acc := len(a.Out.Wire) - before
			calls++
			es := ""
			if err != nil {
				es = "err"
				var te mitm.TimeoutErr
				if errors.As(err, &te) {
					es = "timeout"
				}
			}
			enc.Encode(map[string]any{"op": "flush", "L": L, "hdr": st.PendingHdr,
				"body": st.PendingBody, "acc": acc, "n": n, "err": es})
			sum += n
			if err == nil {
				break
			}
			if refused < 0 {
				// a new record must be refused while one is pending
				e2 := wm.WriteMessage([]byte{1, 2, 3})
				refused = 0
				if errors.Is(e2, mailbox.ErrMessageNotFlushed) {
					refused = 1
				}
			}
			if rev < 0 && nrec%2 == 0 {
				back := streamOf(3 + nrec%40)
				rev = 0
				if e := rm.WriteMessage(back); e == nil {
					if _, e = rm.Flush(b); e == nil {
						if got, e := wm.ReadMessage(a); e == nil && bytes.Equal(got, back) {
							rev = 1
						}
					}
				}
			}
			if calls > 50 {
				break
			}
		}
		st := wm.VerifState()
		got, rerr := rm.ReadMessage(b)
		peerOK := 0
		if rerr == nil && bytes.Equal(got, p) {
			peerOK = 1
		}
		enc.Encode(map[string]any{"op": "flushEnd", "L": L, "sum": sum,
			"emitted": len(a.Out.Wire) - wire0, "peerOK": peerOK,
			"refused": refused, "calls": calls, "rev": rev,
			"pending": st.PendingHdr + st.PendingBody})
	}
	sizes := []int{0, 1, 2, 15, 16, 17, 100}
	for _, L := range sizes {
		W := HDR + L + MAC
		record(L, nil)
		// all two-way splits: the first Flush gets i bytes accepted.  The
		// header and the body are separate Write calls, so a split inside
		// the header is plan [i], a split inside the body is plan [HDR, i-HDR].
		for i := 0; i < W; i++ {
			if i < HDR {
				record(L, []int{i})
			} else {
				record(L, []int{HDR, i - HDR})
			}
		}
		// three-way splits (all of them in the thorough tier)
		for i := 0; i < W; i++ {
			for j := i; j < W; j++ {
				if !thorough && r.Intn(12) != 0 {
					continue
				}
				var plan []int
				switch {
				case j < HDR: // both cuts in the header
					plan = []int{i, j - i}
				case i < HDR: // one in the header, one in the body
					plan = []int{i, HDR - i, j - HDR}
				default: // both in the body
					plan = []int{HDR, i - HDR, j - i}
				}
				record(L, plan)
			}
		}
	}
	// random finer partitions of a maximal record
	for k := 0; k < 6; k++ {
		L := 65535
		if k%2 == 1 {
			L = 1 + r.Intn(65535)
		}
		var plan []int
		left := HDR
		for left > 0 && r.Intn(2) == 0 {
			x := r.Intn(left)
			plan = append(plan, x)
			left -= x
		}
		plan = append(plan, left) // rest of the header accepted
		for i := 0; i < 2+r.Intn(6); i++ {
			plan = append(plan, r.Intn(20000))
		}
		record(L, plan)
	}
}

// TestC16Frag: handshakes and record exchanges over readers that return at
// most k bytes per Read.
func TestC16Frag(t *testing.T) {
	dir := outDir(t)
	f, err := os.Create(filepath.Join(dir, "c16frag.ndjson"))
	if err != nil {
		t.Fatal(err)
	}
	defer f.Close()
	enc := json.NewEncoder(f)
	r := rng(1617)
	type vr struct{ cMin, cMax, sMin, sMax byte }
	nStuck := 0
	for _, pattern := range []string{"XX", "KK"} {
		for _, v := range []vr{{0, 0, 0, 0}, {1, 1, 1, 1}, {0, 2, 0, 2}, {2, 2, 2, 2}, {0, 2, 0, 1}, {1, 2, 0, 2}} {
			if pattern == "KK" && (v.cMax < 2 || v.sMax < 2) {
				continue
			}
			for _, k := range []int{0, 1, 2, 7, 33, -1} {
				for _, authLen := range []int{0, 40, 400, 3000} {
					if authLen > 498 && v.sMax == 0 {
						continue
					}
					p := defaultHs()
					p.cMin, p.cMax, p.sMin, p.sMax = v.cMin, v.cMax, v.sMin, v.sMax
					p.auth = streamOf(authLen)
					if pattern == "KK" {
						p.cliRemote = p.srvKey.PubKey()
						p.srvRemote = p.cliKey.PubKey()
					}
					a, b := mitm.NewPair()
					frag := func() int {
						if k < 0 {
							return 1 + r.Intn(40)
						}
						return k
					}
					a.Frag, b.Frag = frag, frag
					// (once one handshake has been found stuck the
					// run is lost anyway: the others get less time)
					patience := 25 * time.Second
					if nStuck > 0 {
						patience = 1500 * time.Millisecond
					}
					res, stuck := runMachinesGuarded(p, a, b, patience)
					if stuck {
						nStuck++
					}
					es := func(e error) string {
						if e == nil {
							return ""
						}
						return e.Error()
					}
					line := map[string]any{"op": "hs", "pattern": pattern, "frag": k,
						"auth": authLen, "cmin": int(v.cMin), "cmax": int(v.cMax),
						"smin": int(v.sMin), "smax": int(v.sMax),
						"newErr": es(res.newErr), "cErr": es(res.cErr), "sErr": es(res.sErr)}
					recOK := -1
					if res.newErr == nil && res.cErr == nil && res.sErr == nil {
						// records both ways over the fragmenting readers
						recOK = 1
						for _, L := range []int{0, 1, 17, 5000} {
							msg := streamOf(L)
							if err := res.cm.WriteMessage(msg); err != nil {
								recOK = 0
							}
							if _, err := res.cm.Flush(a); err != nil {
								recOK = 0
							}
							got, err := res.sm.ReadMessage(b)
							if err != nil || !bytes.Equal(got, msg) {
								recOK = 0
							}
							if err := res.sm.WriteMessage(msg); err != nil {
								recOK = 0
							}
							if _, err := res.sm.Flush(b); err != nil {
								recOK = 0
							}
							got, err = res.cm.ReadMessage(a)
							if err != nil || !bytes.Equal(got, msg) {
								recOK = 0
							}
						}
						payloadOK := 0
						if bytes.Equal(res.cd.AuthData(), p.auth) ||
							(len(p.auth) == 0 && len(res.cd.AuthData()) == 0) {
							payloadOK = 1
						}
						line["payloadOK"] = payloadOK
					}
					line["recOK"] = recOK
					enc.Encode(line)
				}
			}
		}
	}
	// pipelined: each side writes its first record right behind its last
	// handshake act, and the reads of either side are held back a moment
	// after its first write, so that what a Read returns spans the boundary
	// between the peer's last act and its first record (a read-ahead inside
	// the handshake would swallow the head of the record)
	for _, pattern := range []string{"XX", "KK"} {
		for _, k := range []int{0, 1, 5, 16, 64, 100, 1000} {
			for _, L := range []int{0, 17, 3000} {
				p := defaultHs()
				p.auth = streamOf(40)
				if pattern == "KK" {
					p.cliRemote = p.srvKey.PubKey()
					p.srvRemote = p.cliKey.PubKey()
				}
				a, b := mitm.NewPair()
				frag := func() int { return k }
				a.Frag, b.Frag = frag, frag
				ca, cb := &lateReader{ReadWriter: a}, &lateReader{ReadWriter: b}
				res := hsResult{}
				res.cd = mailbox.NewConnData(ecdhKey(p.cliKey), p.cliRemote, p.cliEnt, nil, nil, nil)
				res.sd = mailbox.NewConnData(ecdhKey(p.srvKey), p.srvRemote, p.srvEnt, p.auth, nil, nil)
				var err error
				res.cm, err = mailbox.NewBrontideMachine(&mailbox.BrontideMachineConfig{
					ConnData: res.cd, Initiator: true, HandshakePattern: res.cd.HandshakePattern(),
					MinHandshakeVersion: p.cMin, MaxHandshakeVersion: p.cMax})
				if err == nil {
					res.sm, err = mailbox.NewBrontideMachine(&mailbox.BrontideMachineConfig{
						ConnData: res.sd, Initiator: false, HandshakePattern: res.sd.HandshakePattern(),
						MinHandshakeVersion: p.sMin, MaxHandshakeVersion: p.sMax})
				}
				line := map[string]any{"op": "hs", "pattern": pattern, "frag": k, "pipelined": 1, "auth": 40,
					"L": L, "newErr": "", "cErr": "", "sErr": "", "payloadOK": 1}
				if err != nil {
					line["newErr"] = err.Error()
					line["recOK"] = 0
					enc.Encode(line)
					continue
				}
				msgC, msgS := streamOf(L), streamOf(L+3)
				type out struct {
					hs  error
					got []byte
					err error
				}
				side := func(m *mailbox.Machine, rw io.ReadWriter, mine []byte) out {
					var o out
					if o.hs = m.DoHandshake(rw); o.hs != nil {
						return o
					}
					if o.err = m.WriteMessage(mine); o.err != nil {
						return o
					}
					if _, o.err = m.Flush(rw); o.err != nil {
						return o
					}
					o.got, o.err = m.ReadMessage(rw)
					return o
				}
				sch, cch := make(chan out, 1), make(chan out, 1)
				go func() { sch <- side(res.sm, cb, msgS) }()
				go func() { cch <- side(res.cm, ca, msgC) }()
				var oc, os2 out
				tmo := time.After(4 * time.Second)
				for got := 0; got < 2; {
					select {
					case oc = <-cch:
						got++
						cch = nil
					case os2 = <-sch:
						got++
						sch = nil
					case <-tmo:
						// a side that waits for bytes that never come
						if cch != nil {
							oc.err = fmt.Errorf("initiator did not finish")
						}
						if sch != nil {
							os2.err = fmt.Errorf("responder did not finish")
						}
						a.Close()
						b.Close()
						got = 2
					}
				}
				es := func(e error) string {
					if e == nil {
						return ""
					}
					return e.Error()
				}
				line["cErr"], line["sErr"] = es(oc.hs), es(os2.hs)
				recOK := 0
				if oc.err == nil && os2.err == nil && bytes.Equal(oc.got, msgS) && bytes.Equal(os2.got, msgC) {
					recOK = 1
				}
				line["recOK"] = recOK
				line["recErr"] = es(oc.err) + "|" + es(os2.err)
				enc.Encode(line)
			}
		}
	}
}

// lateReader holds the next Read back for a moment once the side has written
// something (its peer, which answers at once, has by then written whatever it
// is going to write next).
type lateReader struct {
	io.ReadWriter
	wrote atomic.Bool
}

func (l *lateReader) Write(p []byte) (int, error) {
	n, err := l.ReadWriter.Write(p)
	l.wrote.Store(true)
	return n, err
}

func (l *lateReader) Read(p []byte) (int, error) {
	// only the first Read after a Write waits (a read of one byte at a time
	// would otherwise take for ever)
	if l.wrote.CompareAndSwap(true, false) {
		time.Sleep(15 * time.Millisecond)
	}
	return l.ReadWriter.Read(p)
}
