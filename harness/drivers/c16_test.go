package drivers

import (
	"bytes"
	"encoding/json"
	"errors"
	"os"
	"path/filepath"
	"testing"

	"github.com/lightninglabs/lightning-node-connect/mailbox"

	"verif/harness/mitm"
)

// TestC16Flush: a record is written through a writer that accepts only part
// of the bytes and then times out; Flush is repeated until the record is out.
// Every Flush call is logged with the pending byte counts before it, the
// bytes the writer accepted during it, and its results; the peer then reads
// the record.
func TestC16Flush(t *testing.T) {
	dir := outDir(t)
	f, err := os.Create(filepath.Join(dir, "c16flush.ndjson"))
	if err != nil {
		t.Fatal(err)
	}
	defer f.Close()
	enc := json.NewEncoder(f)
	thorough := os.Getenv("VERIF_TIER") == "thorough"
	r := rng(1616)
	a, b := mitm.NewPair()
	res := runMachines(defaultHs(), a, b)
	if res.newErr != nil || res.cErr != nil || res.sErr != nil {
		t.Fatalf("handshake: %v %v %v", res.newErr, res.cErr, res.sErr)
	}
	wm, rm := res.cm, res.sm
	const HDR, MAC = 18, 16
	nrec := 0
	record := func(L int, plan []int) {
		// every third record meets a transient non-timeout failure where
		// the others meet a timeout: the pending record must be kept and
		// flushed just the same
		nrec++
		a.HardErr = nrec%3 == 0
		defer func() { a.HardErr = false }()
		p := streamOf(L)
		if err := wm.WriteMessage(p); err != nil {
			t.Fatalf("WriteMessage: %v", err)
		}
		a.SetPlan(plan)
		wire0 := len(a.Out.Wire)
		sum, calls := 0, 0
		refused := -1
		for {
			st := wm.VerifState()
			before := len(a.Out.Wire)
			n, err := wm.Flush(a)
			acc := len(a.Out.Wire) - before
			calls++
			es := ""
			if err != nil {
				es = "err"
				var te mitm.TimeoutErr
				if errors.As(err, &te) {
					es = "timeout"
				}
			}
			enc.Encode(map[string]any{"op": "flush", "L": L, "hdr": st.PendingHdr,
				"body": st.PendingBody, "acc": acc, "n": n, "err": es})
			sum += n
			if err == nil {
				break
			}
			if refused < 0 {
				// a new record must be refused while one is pending
				e2 := wm.WriteMessage([]byte{1, 2, 3})
				refused = 0
				if errors.Is(e2, mailbox.ErrMessageNotFlushed) {
					refused = 1
				}
			}
			if calls > 50 {
				break
			}
		}
		st := wm.VerifState()
		got, rerr := rm.ReadMessage(b)
		peerOK := 0
		if rerr == nil && bytes.Equal(got, p) {
			peerOK = 1
		}
		enc.Encode(map[string]any{"op": "flushEnd", "L": L, "sum": sum,
			"emitted": len(a.Out.Wire) - wire0, "peerOK": peerOK,
			"refused": refused, "calls": calls,
			"pending": st.PendingHdr + st.PendingBody})
	}
	sizes := []int{0, 1, 2, 15, 16, 17, 100}
	for _, L := range sizes {
		W := HDR + L + MAC
		record(L, nil)
		// all two-way splits: the first Flush gets i bytes accepted.  The
		// header and the body are separate Write calls, so a split inside
		// the header is plan [i], a split inside the body is plan [HDR, i-HDR].
		for i := 0; i < W; i++ {
			if i < HDR {
				record(L, []int{i})
			} else {
				record(L, []int{HDR, i - HDR})
			}
		}
		// three-way splits (all of them in the thorough tier)
		for i := 0; i < W; i++ {
			for j := i; j < W; j++ {
				if !thorough && r.Intn(12) != 0 {
					continue
				}
				var plan []int
				switch {
				case j < HDR: // both cuts in the header
					plan = []int{i, j - i}
				case i < HDR: // one in the header, one in the body
					plan = []int{i, HDR - i, j - HDR}
				default: // both in the body
					plan = []int{HDR, i - HDR, j - i}
				}
				record(L, plan)
			}
		}
	}
	// random finer partitions of a maximal record
	for k := 0; k < 6; k++ {
		L := 65535
		if k%2 == 1 {
			L = 1 + r.Intn(65535)
		}
		var plan []int
		left := HDR
		for left > 0 && r.Intn(2) == 0 {
			x := r.Intn(left)
			plan = append(plan, x)
			left -= x
		}
		plan = append(plan, left) // rest of the header accepted
		for i := 0; i < 2+r.Intn(6); i++ {
			plan = append(plan, r.Intn(20000))
		}
		record(L, plan)
	}
}

// TestC16Frag: handshakes and record exchanges over readers that return at
// most k bytes per Read.
func TestC16Frag(t *testing.T) {
	dir := outDir(t)
	f, err := os.Create(filepath.Join(dir, "c16frag.ndjson"))
	if err != nil {
		t.Fatal(err)
	}
	defer f.Close()
	enc := json.NewEncoder(f)
	r := rng(1617)
	type vr struct{ cMin, cMax, sMin, sMax byte }
	for _, pattern := range []string{"XX", "KK"} {
		for _, v := range []vr{{0, 0, 0, 0}, {1, 1, 1, 1}, {0, 2, 0, 2}, {2, 2, 2, 2}, {0, 2, 0, 1}, {1, 2, 0, 2}} {
			if pattern == "KK" && (v.cMax < 2 || v.sMax < 2) {
				continue
			}
			for _, k := range []int{0, 1, 2, 7, 33, -1} {
				for _, authLen := range []int{0, 40, 400, 3000} {
					if authLen > 498 && v.sMax == 0 {
						continue
					}
					p := defaultHs()
					p.cMin, p.cMax, p.sMin, p.sMax = v.cMin, v.cMax, v.sMin, v.sMax
					p.auth = streamOf(authLen)
					if pattern == "KK" {
						p.cliRemote = p.srvKey.PubKey()
						p.srvRemote = p.cliKey.PubKey()
					}
					a, b := mitm.NewPair()
					frag := func() int {
						if k < 0 {
							return 1 + r.Intn(40)
						}
						return k
					}
					a.Frag, b.Frag = frag, frag
					res := runMachines(p, a, b)
					es := func(e error) string {
						if e == nil {
							return ""
						}
						return e.Error()
					}
					line := map[string]any{"op": "hs", "pattern": pattern, "frag": k,
						"auth": authLen, "cmin": int(v.cMin), "cmax": int(v.cMax),
						"smin": int(v.sMin), "smax": int(v.sMax),
						"newErr": es(res.newErr), "cErr": es(res.cErr), "sErr": es(res.sErr)}
					recOK := -1
					if res.newErr == nil && res.cErr == nil && res.sErr == nil {
						// records both ways over the fragmenting readers
						recOK = 1
						for _, L := range []int{0, 1, 17, 5000} {
							msg := streamOf(L)
							if err := res.cm.WriteMessage(msg); err != nil {
								recOK = 0
							}
							if _, err := res.cm.Flush(a); err != nil {
								recOK = 0
							}
							got, err := res.sm.ReadMessage(b)
							if err != nil || !bytes.Equal(got, msg) {
								recOK = 0
							}
							if err := res.sm.WriteMessage(msg); err != nil {
								recOK = 0
							}
							if _, err := res.sm.Flush(b); err != nil {
								recOK = 0
							}
							got, err = res.cm.ReadMessage(a)
							if err != nil || !bytes.Equal(got, msg) {
								recOK = 0
							}
						}
						payloadOK := 0
						if bytes.Equal(res.cd.AuthData(), p.auth) ||
							(len(p.auth) == 0 && len(res.cd.AuthData()) == 0) {
							payloadOK = 1
						}
						line["payloadOK"] = payloadOK
					}
					line["recOK"] = recOK
					enc.Encode(line)
				}
			}
		}
	}
}
