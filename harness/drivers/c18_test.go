package drivers

import (
	"encoding/json"
	"fmt"
	"os"
	"path/filepath"
	"runtime"
	"sync"
	"sync/atomic"
	"testing"
	"testing/synctest"
	"time"

	"github.com/lightninglabs/lightning-node-connect/gbn"

	"verif/harness/gbnrun"
	"verif/harness/trace"
)

// tickerTap records the ticker hooks (reset / stop sections) of all tickers.
type tickerTap struct {
	mu  sync.Mutex
	ids map[any]int
	ev  []trace.Event
}

func (tt *tickerTap) sink(src any, ev string, kv ...int) {
	what := ""
	switch ev {
	case "tkResetBegin":
		what = "resetBegin"
	case "tkResetEnd":
		what = "resetEnd"
	case "tkStopBegin":
		what = "stopBegin"
	case "tkStopEnd":
		what = "stopEnd"
	default:
		return
	}
	tt.mu.Lock()
	id, ok := tt.ids[src]
	if !ok {
		id = len(tt.ids) + 1
		tt.ids[src] = id
	}
	tt.ev = append(tt.ev, trace.Event{"ev": "tk", "tk": id, "what": what})
	tt.mu.Unlock()
}

// TestC18Conn (built with -race): keepalive connections whose ping ticks
// coincide with packet arrivals, with Send, Recv, the timeout setters and
// Close called concurrently from several goroutines.
func TestC18Conn(t *testing.T) {
	dir := outDir(t)
	f, err := os.Create(filepath.Join(dir, "c18.ndjson"))
	if err != nil {
		t.Fatal(err)
	}
	defer f.Close()
	enc := json.NewEncoder(f)
	thorough := os.Getenv("VERIF_TIER") == "thorough"
	rounds := 25
	scen := 0
	for _, ping := range []time.Duration{time.Second, 500 * time.Millisecond} {
		for _, latDiv := range []int{1, 2, 4, 5, 10} {
			for _, n := range []uint8{1, 3, 20} {
				if !thorough && (scen+int(seed()))%2 == 0 {
					scen++
					continue
				}
				scen++
				ping, latDiv, n := ping, latDiv, n
				lat := ping / time.Duration(latDiv)
				noteCurrent(dir, map[string]any{"scenario": "c18conn", "pingMs": ms(ping), "latMs": ms(lat), "n": int(n)})
				tt := &tickerTap{ids: map[any]int{}}
				cfg := gbnrun.Config{
					N: n, Static: 3*lat + 700*time.Millisecond, Latency: lat,
					Ping:    [2]time.Duration{ping, ping},
					Pong:    [2]time.Duration{2*lat + 800*time.Millisecond, 2*lat + 800*time.Millisecond},
					Msgs:    [2]int{0, 0},
					Horizon: time.Hour, RecvForever: true,
					CloseScript: func(r *gbnrun.Run) {},
					Extra:       []gbn.TimeoutOptions{gbn.WithHandshakeTimeout(4*lat + time.Second)},
				}
				cfg.OnReady = func(r *gbnrun.Run) {
					conns := []*gbn.GoBackNConn{r.Client, r.Server}
					var wg sync.WaitGroup
					stop := make(chan struct{})
					// senders: data exactly at the ping instants
					for ci, c := range conns {
						for g := 0; g < 2; g++ {
							wg.Add(1)
							go func(c *gbn.GoBackNConn, ci, g int) {
								defer wg.Done()
								for i := 0; i < rounds; i++ {
									select {
									case <-stop:
										return
									default:
									}
									if err := c.Send(gbnrun.Payload(i+1, 12)); err != nil {
										return
									}
									time.Sleep(ping)
								}
							}(c, ci, g)
						}
						// setters
						wg.Add(1)
						go func(c *gbn.GoBackNConn) {
							defer wg.Done()
							for i := 0; i < rounds*3; i++ {
								c.SetSendTimeout(time.Duration(1+i) * time.Hour)
								c.SetRecvTimeout(time.Duration(1+i) * time.Hour)
								time.Sleep(ping / 3)
							}
						}(c)
					}
					wg.Wait()
					close(stop)
					// concurrent Close from two goroutines per side
					var cw sync.WaitGroup
					for _, c := range conns {
						for g := 0; g < 2; g++ {
							cw.Add(1)
							go func(c *gbn.GoBackNConn) { defer cw.Done(); c.Close() }(c)
						}
					}
					cw.Wait()
				}
				synctest.Test(t, func(t *testing.T) {
					gbnrun.ExecuteWithSink(cfg, tt.sink)
				})
				tt.mu.Lock()
				enc.Encode(trace.Event{"ev": "scenario", "pingMs": ms(ping), "latMs": ms(lat), "n": int(n), "hooks": len(tt.ev)})
				for _, e := range tt.ev {
					enc.Encode(e)
				}
				tt.mu.Unlock()
			}
		}
	}
}

// TestC18Stress (built with -race, real time): the ticker and the timeout
// manager driven directly the way the connection's goroutines drive them.
func TestC18Stress(t *testing.T) {
	dir := outDir(t)
	noteCurrent(dir, map[string]any{"scenario": "c18stress"})
	dur := 700 * time.Millisecond
	if os.Getenv("VERIF_TIER") == "thorough" {
		dur = 5 * time.Second
	}
	tt := &tickerTap{ids: map[any]int{}}
	gbn.SetVerifSink(tt.sink)
	defer gbn.SetVerifSink(nil)
	// ticker: S resets after consuming a tick, R resets and pauses, both
	// look at IsActive; Stop at the end (after both are done, as Close does)
	tk := gbn.NewIntervalAwareForceTicker(time.Millisecond)
	tk.Resume()
	var wg sync.WaitGroup
	end := time.Now().Add(dur)
	wg.Add(2)
	go func() { // send loop
		defer wg.Done()
		for time.Now().Before(end) {
			select {
			case <-tk.Ticks():
				tk.Reset()
				tk.Resume()
			case <-time.After(3 * time.Millisecond):
			}
		}
	}()
	go func() { // receive loop
		defer wg.Done()
		for time.Now().Before(end) {
			tk.Reset()
			if tk.IsActive() {
				tk.Pause()
			}
			_ = tk.NextTickIn()
			time.Sleep(200 * time.Microsecond)
			tk.Resume()
		}
	}()
	wg.Wait()
	tk.Stop()
	// timeout manager: Sent / Received / getters / setters from many goroutines
	tm := gbn.NewTimeOutManager(nil, gbn.WithResendMultiplier(5), gbn.WithTimeoutUpdateFrequency(2),
		gbn.WithKeepalivePing(time.Second, time.Second))
	end = time.Now().Add(dur)
	for g := 0; g < 6; g++ {
		wg.Add(1)
		go func(g int) {
			defer wg.Done()
			i := 0
			for time.Now().Before(end) {
				i++
				switch g {
				case 0:
					tm.Sent(&gbn.PacketData{Seq: uint8(i % 5)}, i%7 == 0)
				case 1:
					tm.Received(&gbn.PacketACK{Seq: uint8(i % 5)})
				case 2:
					_ = tm.GetResendTimeout()
					_ = tm.GetHandshakeTimeout()
					_ = tm.GetPingTime()
				case 3:
					tm.SetSendTimeout(time.Duration(i))
					tm.SetRecvTimeout(time.Duration(i))
					_ = tm.GetSendTimeout()
				case 4:
					tm.Sent(&gbn.PacketSYN{N: 20}, i%3 == 0)
					tm.Received(&gbn.PacketSYN{N: 20})
				default:
					_ = tm.GetRecvTimeout()
					_ = tm.GetPongTime()
					_ = tm.GetFinSendTimeout()
				}
			}
		}(g)
	}
	wg.Wait()
	// send queue: the send loop adds packets and resends the window (on the
	// resend ticker / a NACK), the receive loop processes ACKs and NACKs, the
	// application's Send path looks at the size - all at the same instants
	noteCurrent(dir, map[string]any{"scenario": "c18stress-queue"})
	for _, sp := range []uint8{2, 4} {
		vq := gbn.NewVerifQueue(sp, nil, gbn.WithStaticResendTimeout(300*time.Microsecond),
			gbn.WithHandshakeTimeout(200*time.Microsecond)) // (resend skips while "resent recently", measured by the handshake timeout)
		end = time.Now().Add(dur)
		var ops [3]atomic.Int64
		qdone := make(chan struct{})
		var qwg sync.WaitGroup
		qwg.Add(3)
		go func() { // send loop
			defer qwg.Done()
			// first half: the resend ticker fires on an empty queue
			// (an idle connection) while stale ACKs / NACKs arrive
			half := end.Add(-dur / 2)
			for time.Now().Before(half) {
				_ = vq.Resend()
				ops[0].Add(1)
			}
			for i := 0; time.Now().Before(end); i++ {
				if vq.Size() < sp-1 {
					vq.Add()
				} else {
					_ = vq.Resend()
				}
				if i%3 == 0 {
					_ = vq.Resend()
				}
				ops[0].Add(1)
			}
		}()
		go func() { // receive loop
			defer qwg.Done()
			for i := 0; time.Now().Before(end); i++ {
				if i%4 == 3 {
					vq.ProcessNACK(uint8(i/4) % sp)
				} else {
					vq.ProcessACK(uint8(i/4) % sp)
				}
				ops[1].Add(1)
			}
		}()
		go func() { // application
			defer qwg.Done()
			for time.Now().Before(end) {
				_ = vq.Size()
				ops[2].Add(1)
				time.Sleep(50 * time.Microsecond)
			}
		}()
		go func() { qwg.Wait(); close(qdone) }()
		select {
		case <-qdone:
		case <-time.After(dur + 20*time.Second):
			buf := make([]byte, 1<<20)
			n := runtime.Stack(buf, true)
			fmt.Printf("VERIF-HANG scenario={\"scenario\":\"c18stress-queue\",\"s\":%d,\"ops\":[%d,%d,%d]}\n%s\n",
				sp, ops[0].Load(), ops[1].Load(), ops[2].Load(), buf[:n])
			os.Exit(3)
		}
		vq.Stop()
	}
	f, err := os.Create(filepath.Join(dir, "c18stress.ndjson"))
	if err != nil {
		t.Fatal(err)
	}
	defer f.Close()
	enc := json.NewEncoder(f)
	enc.Encode(trace.Event{"ev": "scenario", "kind": "stress", "hooks": len(tt.ev)})
	for _, e := range tt.ev {
		enc.Encode(e)
	}
}
