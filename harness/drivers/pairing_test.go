package drivers

import (
	"encoding/json"
	"os"
	"path/filepath"
	"testing"

	"github.com/btcsuite/btcd/btcec/v2"
	"github.com/lightninglabs/lightning-node-connect/mailbox"
	"github.com/lightningnetwork/lnd/aezeed"
	"github.com/lightningnetwork/lnd/keychain"
)

// TestPairingTrace logs inputs/outputs of the real pairing-phrase codec and
// session-id derivation for TLC to compare with Pairing.tla.
func TestPairingTrace(t *testing.T) {
	dir := outDir(t)
	f, err := os.Create(filepath.Join(dir, "pairing.ndjson"))
	if err != nil {
		t.Fatal(err)
	}
	defer f.Close()
	enc := json.NewEncoder(f)
	n := 0
	emit := func(m map[string]any) { enc.Encode(m); n++ }
	thorough := os.Getenv("VERIF_TIER") == "thorough"
	r := rng(1717)

	wordIdx := func(ws [mailbox.NumPassphraseWords]string) []int {
		o := make([]int, len(ws))
		for i, w := range ws {
			idx, ok := aezeed.ReverseWordMap[w]
			if !ok {
				idx = -1
			}
			o[i] = idx
		}
		return o
	}
	toWords := func(e [mailbox.NumPassphraseEntropyBytes]byte) {
		ws, err := mailbox.PassphraseEntropyToMnemonic(e)
		if err != nil {
			emit(map[string]any{"op": "toWords", "bytes": ints(e[:]), "words": []int{-1}})
			return
		}
		emit(map[string]any{"op": "toWords", "bytes": ints(e[:]), "words": wordIdx(ws)})
		back := mailbox.PassphraseMnemonicToEntropy(ws)
		emit(map[string]any{"op": "fromWords", "words": wordIdx(ws), "bytes": ints(back[:])})
	}
	var e [mailbox.NumPassphraseEntropyBytes]byte
	toWords(e)
	for i := range e {
		e[i] = 0xff
	}
	toWords(e)
	for bit := 0; bit < 112; bit++ { // every single bit
		var x [mailbox.NumPassphraseEntropyBytes]byte
		x[bit/8] = 1 << (7 - bit%8)
		toWords(x)
	}
	for pat := 0; pat < 4; pat++ { // the two unused bits
		var x [mailbox.NumPassphraseEntropyBytes]byte
		r.Read(x[:])
		x[13] = x[13]&0xfc | byte(pat)
		toWords(x)
	}
	nr := 300
	if thorough {
		nr = 20000
	}
	for i := 0; i < nr; i++ {
		var x [mailbox.NumPassphraseEntropyBytes]byte
		r.Read(x[:])
		toWords(x)
	}
	// random phrases
	for i := 0; i < nr; i++ {
		var ws [mailbox.NumPassphraseWords]string
		for j := range ws {
			ws[j] = aezeed.DefaultWordList[r.Intn(2048)]
		}
		if i == 0 {
			for j := range ws {
				ws[j] = aezeed.DefaultWordList[2047]
			}
		}
		back := mailbox.PassphraseMnemonicToEntropy(ws)
		emit(map[string]any{"op": "fromWords", "words": wordIdx(ws), "bytes": ints(back[:])})
		ws2, _ := mailbox.PassphraseEntropyToMnemonic(back)
		emit(map[string]any{"op": "toWords", "bytes": ints(back[:]), "words": wordIdx(ws2)})
	}
	for i := 0; i < 50; i++ {
		ws, ent, err := mailbox.NewPassphraseEntropy()
		if err != nil {
			t.Fatal(err)
		}
		emit(map[string]any{"op": "new", "bytes": ints(ent[:]), "words": wordIdx(ws)})
	}

	// --- session ids
	intern := map[string]int{}
	sidOf := func(s [64]byte) []int {
		k := string(s[:63]) + string([]byte{s[63] &^ 1})
		id, ok := intern[k]
		if !ok {
			id = len(intern) + 1
			intern[k] = id
		}
		return []int{id, int(s[63] & 1)}
	}
	newKey := func() *btcec.PrivateKey {
		k, err := btcec.NewPrivateKey()
		if err != nil {
			t.Fatal(err)
		}
		return k
	}
	ecdhOf := func(k *btcec.PrivateKey) keychain.SingleKeyECDH {
		return &keychain.PrivKeyECDH{PrivKey: k}
	}
	sid := func(local *btcec.PrivateKey, remote *btcec.PublicKey, ent []byte) [64]byte {
		cd := mailbox.NewConnData(ecdhOf(local), remote, ent, nil, nil, nil)
		s, err := cd.SID()
		if err != nil {
			t.Fatal(err)
		}
		return s
	}
	streams := func(s [64]byte) {
		emit(map[string]any{"op": "streams", "sid": sidOf(s),
			"cliRecv": sidOf(mailbox.GetSID(s, true)),
			"cliSend": sidOf(mailbox.GetSID(s, false)),
			"srvRecv": sidOf(mailbox.GetSID(s, false)),
			"srvSend": sidOf(mailbox.GetSID(s, true))})
	}
	np := 40
	if thorough {
		np = 400
	}
	for i := 0; i < np; i++ {
		ck, sk, ok2 := newKey(), newKey(), newKey()
		ent1 := make([]byte, 14)
		ent2 := make([]byte, 14)
		r.Read(ent1)
		r.Read(ent2)
		if i%4 == 0 { // differ in a single bit
			copy(ent2, ent1)
			ent2[r.Intn(14)] ^= 1 << uint(r.Intn(8))
		}
		// before pairing: passphrase only
		c1, s1 := sid(ck, nil, ent1), sid(sk, nil, ent1)
		emit(map[string]any{"op": "sid", "cli": sidOf(c1), "srv": sidOf(s1), "same": 1})
		streams(c1)
		emit(map[string]any{"op": "sid", "cli": sidOf(c1), "srv": sidOf(sid(sk, nil, ent2)), "same": 0})
		// after pairing: static keys exchanged
		c2, s2 := sid(ck, sk.PubKey(), ent1), sid(sk, ck.PubKey(), ent1)
		emit(map[string]any{"op": "sid", "cli": sidOf(c2), "srv": sidOf(s2), "same": 1})
		streams(c2)
		// a different client key, or only the passphrase: different id
		emit(map[string]any{"op": "sid", "cli": sidOf(sid(ok2, sk.PubKey(), ent1)), "srv": sidOf(s2), "same": 0})
		emit(map[string]any{"op": "sid", "cli": sidOf(c1), "srv": sidOf(s2), "same": 0})
		// the passphrase no longer matters once keys are known
		emit(map[string]any{"op": "sid", "cli": sidOf(sid(ck, sk.PubKey(), ent2)), "srv": sidOf(s2), "same": 1})
		// the same objects through the pairing, as a session uses them: the
		// SID is asked for before the pairing, the peer's key arrives through
		// SetRemote - whose callback may look at the connection data, and
		// another goroutine (Accept / Dial of a reconnect) may ask for the SID
		// while the callback runs - and afterwards both sides must be at the
		// key-derived rendezvous
		for variant := 0; variant < 3; variant++ {
			var live [2]*mailbox.ConnData
			gate := make(chan struct{})
			for side, k := range []*btcec.PrivateKey{ck, sk} {
				side := side
				live[side] = mailbox.NewConnData(ecdhOf(k), nil, ent1, nil,
					func(*btcec.PublicKey) error {
						switch variant {
						case 1: // the callback itself inspects the data
							live[side].SID()
							live[side].HandshakePattern()
						case 2: // somebody else asks while the callback runs
							gate <- struct{}{}
							<-gate
						}
						return nil
					}, nil)
			}
			b0, _ := live[0].SID()
			b1, _ := live[1].SID()
			emit(map[string]any{"op": "sid", "cli": sidOf(b0), "srv": sidOf(b1), "same": 1})
			for side, peer := range []*btcec.PublicKey{sk.PubKey(), ck.PubKey()} {
				done := make(chan error, 1)
				go func() { done <- live[side].SetRemote(peer) }()
				if variant == 2 {
					<-gate
					live[side].SID()
					gate <- struct{}{}
				}
				if err := <-done; err != nil {
					t.Fatal(err)
				}
			}
			a0, _ := live[0].SID()
			a1, _ := live[1].SID()
			emit(map[string]any{"op": "sid", "cli": sidOf(a0), "srv": sidOf(a1), "same": 1})
			emit(map[string]any{"op": "sid", "cli": sidOf(a0), "srv": sidOf(s2), "same": 1})
			emit(map[string]any{"op": "sid", "cli": sidOf(c2), "srv": sidOf(a1), "same": 1})
			emit(map[string]any{"op": "sid", "cli": sidOf(a0), "srv": sidOf(b1), "same": 0})
		}
	}
	b, _ := json.Marshal(map[string]any{"lines": n})
	os.WriteFile(filepath.Join(dir, "pairing_summary.json"), b, 0o644)
}
