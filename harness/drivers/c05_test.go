package drivers

import (
	"encoding/json"
	"math/rand"
	"os"
	"path/filepath"
	"sync"
	"testing"
	"time"

	"verif/harness/lncrun"
	"verif/harness/relay"
	"verif/harness/trace"
)

// c05Scen: one secured connection through the relay, concurrent writes of
// mixed sizes in both directions, relay faults for a finite period.
type c05Scen struct {
	name      string
	prepaired bool
	sizes     [2][]int // written by the client / by the server
	pDrop     float64
	maxDelay  time.Duration
	breaks    int           // stream breaks during the fault period
	faultFor  time.Duration // length of the fault period (0 = no faults)
	seed      int64
	readBuf   [2]int // reader buffer sizes (client, server); 0 = 40000
	double    int    // > 0: each "break" makes that many sends in a row fail
	ws        bool   // the client uses the websocket transport (through the REST front door)
}

var c05Bufs = []int{1, 511, 4096, 16384, 32767, 32768, 32769, 40000, 70000}

var c05Sizes = []int{1, 2, 17, 18, 100, 1000, 4095, 32767, 32768, 32769, 40000, 65534, 65535}

func c05Scenarios(thorough bool) []c05Scen {
	r := rng(505)
	var out []c05Scen
	pick := func(n int, small bool) []int {
		s := make([]int, n)
		for i := range s {
			if small {
				s[i] = c05Sizes[r.Intn(7)]
			} else {
				s[i] = c05Sizes[r.Intn(len(c05Sizes))]
			}
		}
		return s
	}
	// every size once in each direction, no faults
	out = append(out, c05Scen{name: "all-sizes", sizes: [2][]int{c05Sizes, c05Sizes}})
	out = append(out, c05Scen{name: "all-sizes-kk", prepaired: true, sizes: [2][]int{c05Sizes, c05Sizes}})
	// every size read through small and odd buffers
	out = append(out, c05Scen{name: "all-sizes-small-bufs", prepaired: true, sizes: [2][]int{c05Sizes, c05Sizes},
		readBuf: [2]int{4096, 16384}})
	out = append(out, c05Scen{name: "all-sizes-odd-bufs", prepaired: true, sizes: [2][]int{c05Sizes, c05Sizes},
		readBuf: [2]int{32769, 511}})
	n := 10
	if thorough {
		n = 40
	}
	for i := 0; i < n; i++ {
		sc := c05Scen{name: "faults", prepaired: r.Intn(2) == 0, seed: int64(7000 + i),
			pDrop:    []float64{0.02, 0.1, 0.25}[r.Intn(3)],
			maxDelay: time.Duration(r.Intn(300)) * time.Millisecond,
			breaks:   r.Intn(4), faultFor: time.Duration(4+r.Intn(8)) * time.Second}
		sc.sizes = [2][]int{pick(6+r.Intn(10), i%3 == 0), pick(6+r.Intn(10), i%3 == 1)}
		sc.readBuf = [2]int{c05Bufs[1+r.Intn(len(c05Bufs)-1)], c05Bufs[1+r.Intn(len(c05Bufs)-1)]}
		if i%5 == 4 {
			sc.sizes[1] = nil // one direction only
		}
		out = append(out, sc)
	}
	// the send that is retried on a re-created stream fails again (two or
	// three stream errors in a row), in either direction
	for i, k := range []int{2, 3} {
		out = append(out, c05Scen{name: "faults-double-break", prepaired: i == 0, seed: int64(700 + i),
			sizes: [2][]int{pick(14, false), pick(14, false)}, pDrop: 0.02, breaks: 4,
			faultFor: 8 * time.Second, double: k, readBuf: [2]int{40000, 40000}})
	}
	// the browser / WASM path: the client's websocketTransport through the
	// REST/websocket front door of the relay (JSON envelopes, one socket per
	// stream, an error message and a closed socket instead of a stream error)
	out = append(out, c05Scen{name: "ws-all-sizes", ws: true, sizes: [2][]int{c05Sizes, c05Sizes}})
	out = append(out, c05Scen{name: "ws-all-sizes-kk", ws: true, prepaired: true, sizes: [2][]int{c05Sizes, c05Sizes},
		readBuf: [2]int{32769, 4096}})
	nws := 3
	if thorough {
		nws = 12
	}
	for i := 0; i < nws; i++ {
		sc := c05Scen{name: "ws-faults", ws: true, prepaired: i%2 == 0, seed: int64(9000 + i),
			pDrop:    []float64{0.02, 0.1, 0.25}[r.Intn(3)],
			maxDelay: time.Duration(r.Intn(300)) * time.Millisecond,
			breaks:   1 + r.Intn(3), faultFor: time.Duration(4+r.Intn(8)) * time.Second}
		sc.sizes = [2][]int{pick(6+r.Intn(10), i%3 == 0), pick(6+r.Intn(10), i%3 == 1)}
		sc.readBuf = [2]int{c05Bufs[1+r.Intn(len(c05Bufs)-1)], c05Bufs[1+r.Intn(len(c05Bufs)-1)]}
		if i%2 == 1 {
			sc.double = 2
		}
		out = append(out, sc)
	}
	// the relay goes away for good in the middle of a transfer: the
	// connection has to fail visibly
	out = append(out, c05Scen{name: "relay-dies", prepaired: true, seed: 1,
		sizes: [2][]int{pick(30, false), pick(30, false)}, pDrop: 1, faultFor: -1})
	return out
}

func runC05(sc c05Scen) (*lncrun.Session, [2]int, error) {
	var ids [2]int
	s, err := lncrun.New(lncrun.Options{PrePaired: sc.prepaired, Patience: 90 * time.Second,
		ReadBuf: sc.readBuf, Websocket: sc.ws})
	if err != nil {
		return nil, ids, err
	}
	x := &lncExpect{s}
	s.Serve()
	c, srv := x.connect(1)
	if c == nil {
		s.Shutdown()
		return s, ids, nil
	}
	ids = [2]int{c.ID, srv.ID}
	fr := rand.New(rand.NewSource(sc.seed))
	var fmu sync.Mutex
	faulty := sc.faultFor != 0
	seen := 0
	start := time.Now()
	if faulty {
		s.Relay.Decide = func(sid string, idx int, msg []byte) (f relay.Fate) {
			fmu.Lock()
			defer fmu.Unlock()
			if sc.faultFor > 0 && time.Since(start) > sc.faultFor {
				return
			}
			if sc.faultFor < 0 {
				// relay-dies: healthy for the first messages, then
				// nothing gets through any more
				seen++
				f.Drop = seen > 60
				return
			}
			if fr.Float64() < sc.pDrop {
				f.Drop = true
			} else if sc.maxDelay > 0 && fr.Intn(4) == 0 {
				f.Delay = time.Duration(fr.Int63n(int64(sc.maxDelay)))
			}
			return
		}
	}
	rdv := "P"
	if sc.prepaired {
		rdv = "K"
	}
	stopBreaks := make(chan struct{})
	var bwg sync.WaitGroup
	if sc.breaks > 0 {
		bwg.Add(1)
		go func() {
			defer bwg.Done()
			for i := 0; i < sc.breaks; i++ {
				fmu.Lock()
				d := time.Duration(fr.Int63n(int64(sc.faultFor) / int64(sc.breaks)))
				which := []string{"c2s", "s2c", "both"}[fr.Intn(3)]
				fmu.Unlock()
				select {
				case <-stopBreaks:
					return
				case <-time.After(d):
				}
				if sc.double > 0 {
					s.FailSends(rdv, which, sc.double)
				} else {
					s.BreakStreams(rdv, which)
				}
			}
		}()
	}
	var wg sync.WaitGroup
	werr := [2]error{}
	for i, conn := range []*lncrun.Conn{c, srv} {
		i, conn := i, conn
		wg.Add(1)
		go func() {
			defer wg.Done()
			for _, n := range sc.sizes[i] {
				if err := conn.Write(n); err != nil {
					werr[i] = err
					return
				}
			}
		}()
	}
	if sc.faultFor > 0 {
		time.Sleep(time.Until(start.Add(sc.faultFor)))
	}
	close(stopBreaks)
	bwg.Wait()
	s.Rec.Emit("faultsEnd", "forever", b2i(sc.faultFor < 0))
	// the writers finish (or fail) within the patience bound - a Write that
	// neither returns nor fails is a transfer that neither completes nor
	// fails visibly
	wdone := make(chan struct{})
	go func() { wg.Wait(); close(wdone) }()
	writersDone := true
	select {
	case <-wdone:
	case <-time.After(120 * time.Second):
		writersDone = false
		s.Rec.Emit("note", "what", "a Write call is still blocked 120 s after the faults ended")
	}
	// completion, or visible failure on both ends
	okC := writersDone && srv.AwaitRead(c.Written(), 90*time.Second)
	okS := writersDone && c.AwaitRead(srv.Written(), 90*time.Second)
	complete := okC && okS && werr[0] == nil && werr[1] == nil
	if !complete {
		downC := c.AwaitDown(60 * time.Second)
		downS := srv.AwaitDown(60 * time.Second)
		x.check("the transfer completes or the connection fails visibly on both ends", downC && downS)
	} else {
		x.check("the transfer completes or the connection fails visibly on both ends", true)
	}
	s.Rec.Emit("end", "complete", b2i(complete), "writtenC", int(c.Written()), "writtenS", int(srv.Written()),
		"readByS", int(srv.ReadSoFar()), "readByC", int(c.ReadSoFar()))
	s.Shutdown()
	return s, ids, nil
}

// TestC05Streams runs the scenarios in parallel, in real time.
func TestC05Streams(t *testing.T) {
	dir := outDir(t)
	ts := newTraceSet(dir, "c05")
	scens := c05Scenarios(envInt("VERIF_THOROUGH", 0) == 1)
	type out struct {
		events []trace.Event
		desc   map[string]any
		link   []trace.Event
		stat   []trace.Event
	}
	var mu sync.Mutex
	var outs []out
	var wg sync.WaitGroup
	sem := make(chan struct{}, 14)
	for i, sc := range scens {
		i, sc := i, sc
		wg.Add(1)
		go func() {
			defer wg.Done()
			sem <- struct{}{}
			defer func() { <-sem }()
			s, ids, err := runC05(sc)
			if err != nil {
				t.Errorf("%s: %v", sc.name, err)
				return
			}
			desc := map[string]any{"i": i, "scen": sc.name, "prepaired": sc.prepaired, "pDrop": sc.pDrop, "websocket": sc.ws,
				"maxDelayMs": int(sc.maxDelay / time.Millisecond), "breaks": sc.breaks,
				"faultForS": int(sc.faultFor / time.Second), "readBuf": sc.readBuf, "sizesC": sc.sizes[0], "sizesS": sc.sizes[1]}
			ev := append([]trace.Event{{"ev": "reset", "scen": sc.name, "i": i,
				"prepaired": b2i(sc.prepaired), "v1": 0, "cconn": ids[0], "sconn": ids[1]}}, s.Rec.Events()...)
			// the packets the two ends' GBN connections handed to / got
			// from the mailbox transport (validated against
			// MailboxLink.tla's LossyFifo)
			link := append([]trace.Event{{"ev": "reset", "op": "reset", "scen": sc.name, "i": i}},
				s.LinkEvents()...)
			stat := append([]trace.Event{{"ev": "reset", "scen": sc.name, "i": i, "ws": b2i(sc.ws)}}, s.Stat.Events()...)
			mu.Lock()
			outs = append(outs, out{ev, desc, link, stat})
			mu.Unlock()
		}()
	}
	wg.Wait()
	lf, err := os.Create(filepath.Join(dir, "c05link.ndjson"))
	if err != nil {
		t.Fatal(err)
	}
	lenc := json.NewEncoder(lf)
	for _, o := range outs {
		ts.add("all", o.events, o.desc, true, nil)
		for _, e := range o.link {
			if _, ok := e["op"]; !ok {
				e["op"] = e["ev"]
			}
			lenc.Encode(e)
		}
	}
	lf.Close()
	writeStatus(t, filepath.Join(dir, "c05status.ndjson"), func(emit func(trace.Event)) {
		for _, o := range outs {
			for _, e := range o.stat {
				emit(e)
			}
		}
	})
	ts.close(nil)
}
