package drivers

import (
	"bytes"
	"encoding/json"
	"fmt"
	"os"
	"path/filepath"
	"testing"

	"github.com/lightninglabs/lightning-node-connect/mailbox"

	"verif/harness/mitm"
)

type edit struct {
	E string `json:"e"`
	I int    `json:"i"`
	J int    `json:"j"`
	// concretisation of corrupt: bit to flip inside the chunk (-1: random
	// bytes for inject)
	Bit int `json:"bit,omitempty"`
}

// session writes K messages in each direction of a fresh session and returns
// the two machines, the authentic plaintexts and the ciphertext chunks (header
// and body ciphertext alternating) of both directions.
func editSession(t *testing.T, kk bool, sizes []int) (cm, sm *mailbox.Machine,
	msgs [][]byte, c2s, s2c [][]byte) {

	p := defaultHs()
	if kk {
		p.cliRemote = p.srvKey.PubKey()
		p.srvRemote = p.cliKey.PubKey()
		p.cMin, p.sMin = 2, 2
	}
	a, b := mitm.NewPair()
	res := runMachines(p, a, b)
	if res.newErr != nil || res.cErr != nil || res.sErr != nil {
		t.Fatalf("handshake: %v %v %v", res.newErr, res.cErr, res.sErr)
	}
	chunks := func(m *mailbox.Machine, e *mitm.End) [][]byte {
		var out [][]byte
		for i, sz := range sizes {
			msg := streamOf(sz + 1)[1:]
			if len(msg) > 0 {
				msg[0] = byte(i + 1)
			}
			before := len(e.Out.Wire)
			if err := m.WriteMessage(msg); err != nil {
				t.Fatal(err)
			}
			if _, err := m.Flush(e); err != nil {
				t.Fatal(err)
			}
			w := e.Out.Wire[before:]
			out = append(out, append([]byte(nil), w[:18]...), append([]byte(nil), w[18:]...))
		}
		return out
	}
	for i, sz := range sizes {
		msg := streamOf(sz + 1)[1:]
		if len(msg) > 0 {
			msg[0] = byte(i + 1)
		}
		msgs = append(msgs, msg)
	}
	c2s = chunks(res.cm, a)
	s2c = chunks(res.sm, b)
	return res.cm, res.sm, msgs, c2s, s2c
}

func applyEdits(q, orig, other [][]byte, es []edit, r interface{ Read([]byte) (int, error) }) [][]byte {
	q = append([][]byte(nil), q...)
	ins := func(i int, x []byte) {
		q = append(q[:i-1], append([][]byte{x}, q[i-1:]...)...)
	}
	for _, e := range es {
		switch e.E {
		case "drop":
			q = append(q[:e.I-1], q[e.I:]...)
		case "dup":
			ins(e.I, q[e.I-1])
		case "swap":
			q[e.I-1], q[e.I] = q[e.I], q[e.I-1]
		case "corrupt":
			c := append([]byte(nil), q[e.I-1]...)
			c[e.Bit/8] ^= 1 << uint(e.Bit%8)
			q[e.I-1] = c
		case "inject":
			junk := make([]byte, 18)
			r.Read(junk)
			ins(e.I, junk)
		case "replay":
			ins(e.I, orig[e.J-1])
		case "reflect":
			ins(e.I, other[e.J-1])
		case "trunc":
			q = q[:e.I]
		case "cut":
			c := q[e.I-1]
			q = append(q[:e.I-1], c[:len(c)/2])
		}
	}
	return q
}

// TestC02Edits: edit scripts over the ciphertext of real sessions.
func TestC02Edits(t *testing.T) {
	dir := outDir(t)
	f, err := os.Create(filepath.Join(dir, "c02.ndjson"))
	if err != nil {
		t.Fatal(err)
	}
	defer f.Close()
	enc := json.NewEncoder(f)
	thorough := os.Getenv("VERIF_TIER") == "thorough"
	r := rng(202)
	K := 4
	sizeSets := [][]int{{5, 0, 17, 1}, {1, 2, 15, 16}, {300, 0, 0, 2}, {16, 17, 2, 2}}
	var scripts [][]edit
	nch := 2 * K
	// all single edits
	for i := 1; i <= nch; i++ {
		scripts = append(scripts, []edit{{E: "drop", I: i}}, []edit{{E: "dup", I: i}},
			[]edit{{E: "trunc", I: i - 1}}, []edit{{E: "cut", I: i}},
			[]edit{{E: "inject", I: i}})
		if i < nch {
			scripts = append(scripts, []edit{{E: "swap", I: i}})
		}
		for j := 1; j <= nch; j++ {
			if thorough || (i+j)%3 == 0 {
				scripts = append(scripts, []edit{{E: "replay", I: i, J: j}},
					[]edit{{E: "reflect", I: i, J: j}})
			}
		}
	}
	scripts = append(scripts, []edit{}, []edit{{E: "inject", I: nch + 1}})
	// random multi-edit scripts (positions valid for the current length)
	nmulti := 60
	if thorough {
		nmulti = 1500
	}
	for s := 0; s < nmulti; s++ {
		var es []edit
		ln := nch
		for k := 0; k < 2+r.Intn(2) && ln > 1; k++ {
			switch r.Intn(7) {
			case 0:
				es = append(es, edit{E: "drop", I: 1 + r.Intn(ln)})
				ln--
			case 1:
				es = append(es, edit{E: "dup", I: 1 + r.Intn(ln)})
				ln++
			case 2:
				es = append(es, edit{E: "swap", I: 1 + r.Intn(ln-1)})
			case 3:
				es = append(es, edit{E: "replay", I: 1 + r.Intn(ln+1), J: 1 + r.Intn(nch)})
				ln++
			case 4:
				es = append(es, edit{E: "reflect", I: 1 + r.Intn(ln+1), J: 1 + r.Intn(nch)})
				ln++
			case 5:
				es = append(es, edit{E: "inject", I: 1 + r.Intn(ln+1)})
				ln++
			case 6:
				es = append(es, edit{E: "corrupt", I: 1 + r.Intn(ln), Bit: -2})
			}
		}
		scripts = append(scripts, es)
	}
	run := func(sn int, es []edit, sizes []int, kk bool, d string) {
		cm, sm, msgs, c2s, s2c := editSession(t, kk, sizes)
		orig, other, reader := c2s, s2c, sm
		if d == "s2c" {
			orig, other, reader = s2c, c2s, cm
		}
		// resolve corrupt bits that depend on the chunk length
		es = append([]edit{}, es...)
		q := append([][]byte(nil), orig...)
		for k := range es {
			if es[k].E == "corrupt" && es[k].Bit == -2 {
				cur := applyEdits(orig, orig, other, es[:k], r)
				es[k].Bit = r.Intn(8 * len(cur[es[k].I-1]))
			}
		}
		q = applyEdits(orig, orig, other, es, r)
		stream := mitm.NewStream()
		for _, c := range q {
			stream.Push(c)
		}
		stream.Close()
		rdEnd := &mitm.End{In: stream, Out: mitm.NewStream()}
		delivered, prefixOK, errored, afterErr := 0, 1, 0, 0
		// what the reader returned is kept as returned (not copied) and
		// looked at again when the stream has ended: a record handed out as
		// valid must stay what the peer wrote, whatever is read afterwards
		var kept [][]byte
		for i := 0; i < K+8; i++ {
			got, err := reader.ReadMessage(rdEnd)
			if err != nil {
				errored = 1
				break
			}
			if delivered >= len(msgs) || !bytes.Equal(got, msgs[delivered]) {
				prefixOK = 0
			}
			kept = append(kept, got)
			delivered++
		}
		// a reader that reads on after the error must not be handed
		// anything any more (what came before the error was a prefix; what
		// would come now lies behind a gap)
		if errored == 1 {
			for i := 0; i < 4; i++ {
				if _, err := reader.ReadMessage(rdEnd); err == nil {
					afterErr++
				}
			}
		}
		keptOK := 1
		for i, k := range kept {
			if i >= len(msgs) || !bytes.Equal(k, msgs[i]) {
				keptOK = 0
			}
		}
		enc.Encode(map[string]any{"op": "script", "n": sn, "dir": d, "nmsgs": K, "edits": es, "keptOK": keptOK,
			"delivered": delivered, "prefixOK": prefixOK, "errored": errored, "afterErr": afterErr,
			"kk": b2i(kk), "sizes": sizes})
	}
	sn := 0
	for _, es := range scripts {
		sn++
		d := []string{"c2s", "s2c"}[sn%2]
		run(sn, es, sizeSets[sn%len(sizeSets)], sn%3 == 0, d)
	}
	// long streams across a key rotation (500 messages = 1000 encryptions):
	// records of the previous key generation replayed at the same nonces
	longSizes := make([]int, 505)
	for i := range longSizes {
		longSizes[i] = 1 + i%7
	}
	for _, es := range [][]edit{
		{{E: "replay", I: 1001, J: 1}, {E: "replay", I: 1002, J: 2}},
		{{E: "replay", I: 1003, J: 3}},
		{{E: "drop", I: 1000}},
		{{E: "swap", I: 1000}},
		{},
	} {
		sn++
		K = 505
		run(sn, es, longSizes, sn%2 == 0, []string{"c2s", "s2c"}[sn%2])
		K = 4
	}
	// a whole earlier record (header and body) put in front of a later one,
	// at every distance class within and across a key generation: if the
	// nonce that reaches the AEAD ever repeats under one key (a counter
	// truncated to 8 or 16 bits, a rotation that keeps the key) the old
	// record decrypts at the new position
	dists := []int{1, 2, 3, 5, 8, 16, 32, 64, 100, 127, 128, 129, 200, 250, 255, 256,
		257, 300, 384, 400, 499, 500, 501, 504}
	if thorough {
		dists = dists[:0]
		for dd := 1; dd <= 504; dd++ {
			dists = append(dists, dd)
		}
	}
	for k, dd := range dists {
		from := 0
		if k%3 == 1 && dd+17 <= 504 {
			from = 17
		}
		sn++
		K = 505
		run(sn, []edit{{E: "replay", I: 2*(from+dd) + 1, J: 2*from + 1},
			{E: "replay", I: 2*(from+dd) + 2, J: 2*from + 2}},
			longSizes, sn%2 == 0, []string{"c2s", "s2c"}[sn%2])
		K = 4
	}
	// every single-bit flip of every chunk of a short session (thorough: all
	// bits of all chunks; quick: every bit of one header and one body, and a
	// stride over the rest)
	sizes := []int{3, 0, 16, 1}
	_, _, _, c2s, _ := editSession(t, false, sizes)
	for ci := 1; ci <= nch; ci++ {
		bits := 8 * len(c2s[ci-1])
		for bit := 0; bit < bits; bit++ {
			if !thorough && ci > 2 && bit%11 != 0 {
				continue
			}
			sn++
			run(sn, []edit{{E: "corrupt", I: ci, Bit: bit}}, sizes, ci%2 == 0, "c2s")
		}
	}
	_ = fmt.Sprint
}
