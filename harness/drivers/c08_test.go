package drivers

import (
	"bytes"
	"encoding/json"
	"os"
	"path/filepath"
	"sync"
	"testing"

	"github.com/lightninglabs/lightning-node-connect/mailbox"

	"verif/harness/mitm"
)

// cipherTap collects the cipher hooks' events of one Machine pair.
type cipherTap struct {
	mu   sync.Mutex
	ids  map[any][2]string // cipher state -> (direction, role)
	enc  *json.Encoder
	n    int
	skip bool
}

func (c *cipherTap) sink(src any, ev string, kv ...int) {
	c.mu.Lock()
	defer c.mu.Unlock()
	id, ok := c.ids[src]
	if !ok || c.skip {
		return
	}
	switch ev {
	case "enc", "dec":
		c.enc.Encode(map[string]any{"op": ev, "dir": id[0], "key": kv[0], "nonce": kv[1]})
	case "rot":
		c.enc.Encode(map[string]any{"op": "rot", "dir": id[0], "role": id[1], "key": kv[0], "nonce": kv[1]})
	}
	c.n++
}

func tapMachines(enc *json.Encoder, cm, sm *mailbox.Machine) *cipherTap {
	t := &cipherTap{ids: map[any][2]string{}, enc: enc}
	cs, cr := cm.VerifCipherIDs()
	ss, sr := sm.VerifCipherIDs()
	t.ids[cs] = [2]string{"c2s", "w"}
	t.ids[sr] = [2]string{"c2s", "r"}
	t.ids[ss] = [2]string{"s2c", "w"}
	t.ids[cr] = [2]string{"s2c", "r"}
	mailbox.SetVerifSink(t.sink)
	return t
}

// TestC08Cipher: thousands of records in both directions, interleaved, across
// several key rotations, with equal plaintexts repeated; the cipher hooks'
// (key, nonce) events are logged for TLC and the wire is scanned for
// plaintext and repeated ciphertext.
func TestC08Cipher(t *testing.T) {
	dir := outDir(t)
	f, err := os.Create(filepath.Join(dir, "c08.ndjson"))
	if err != nil {
		t.Fatal(err)
	}
	defer f.Close()
	enc := json.NewEncoder(f)
	thorough := os.Getenv("VERIF_TIER") == "thorough"
	r := rng(808)
	sessions := 2
	perDir := 1300 // records per direction: > 2 rotations (2 encryptions each)
	if thorough {
		sessions = 4
		perDir = 2600 // five rotations per direction and session
	}
	for s := 0; s < sessions; s++ {
		p := defaultHs()
		p.auth = []byte("AUTHPAYLOAD-macaroon-0123456789abcdef-AUTHPAYLOAD")
		if s%2 == 1 { // KK session
			p.cliRemote = p.srvKey.PubKey()
			p.srvRemote = p.cliKey.PubKey()
			p.cMin, p.sMin = 2, 2
		}
		a, b := mitm.NewPair()
		res := runMachines(p, a, b)
		if res.newErr != nil || res.cErr != nil || res.sErr != nil {
			t.Fatalf("handshake: %v %v %v", res.newErr, res.cErr, res.sErr)
		}
		hsWire := [2]int{len(a.Out.Wire), len(b.Out.Wire)}
		enc.Encode(map[string]any{"op": "new", "session": s})
		tap := tapMachines(enc, res.cm, res.sm)
		marker := []byte("PLAINTEXT-MARKER-16b")
		sentN := map[string]int{}
		recvN := map[string]int{}
		type end struct {
			m   *mailbox.Machine
			rw  *mitm.End
			dir string
		}
		cEnd := end{res.cm, a, "c2s"}
		sEnd := end{res.sm, b, "s2c"}
		// the plaintext schedule has period 50, which divides the 500
		// messages of a key epoch: message i and message i+500 carry equal
		// plaintexts under equal nonces of successive key generations
		payload := func(i int) []byte {
			if i >= perDir-650 {
				// more than a whole key epoch of records with one and the
				// same plaintext: any two of them that meet the same key
				// and nonce (at whatever distance) show as equal ciphertext
				return append([]byte(nil), marker...)
			}
			switch i % 10 {
			case 0:
				return []byte{}
			case 1:
				return append([]byte(nil), marker...) // equal plaintexts, repeated
			case 2:
				if i%50 == 2 {
					x := make([]byte, 65535)
					copy(x, marker)
					return x
				}
				return []byte{byte(i % 50)}
			default:
				x := make([]byte, 20+i%50)
				copy(x, marker)
				x[len(x)-1] = byte(i % 50)
				return x
			}
		}
		var sentLog = map[string][][]byte{}
		write := func(e end) {
			i := sentN[e.dir]
			pl := payload(i)
			if err := e.m.WriteMessage(pl); err != nil {
				t.Fatalf("WriteMessage: %v", err)
			}
			if _, err := e.m.Flush(e.rw); err != nil {
				t.Fatalf("Flush: %v", err)
			}
			sentLog[e.dir] = append(sentLog[e.dir], pl)
			sentN[e.dir]++
		}
		read := func(rd end, d string) {
			got, err := rd.m.ReadMessage(rd.rw)
			i := recvN[d]
			ok, match := 1, 1
			if err != nil {
				ok, match = 0, 0
			} else if !bytes.Equal(got, sentLog[d][i]) {
				match = 0
			}
			tap.mu.Lock()
			enc.Encode(map[string]any{"op": "read", "dir": d, "ok": ok, "match": match, "len": len(got)})
			tap.mu.Unlock()
			recvN[d]++
		}
		// a write whose flush is interrupted by a write timeout after a
		// few bytes of the header (or of the body); while the record is
		// partly out the same party reads the next record of the opposite
		// direction, then flushes the rest: the two directions keep their
		// own ciphers, buffers and counters
		writeInterrupted := func(e, peer end) {
			i := sentN[e.dir]
			pl := payload(i)
			if err := e.m.WriteMessage(pl); err != nil {
				t.Fatalf("WriteMessage: %v", err)
			}
			if r.Intn(3) == 0 {
				e.rw.SetPlan([]int{18, r.Intn(len(pl) + 16)})
			} else {
				e.rw.SetPlan([]int{r.Intn(18)})
			}
			_, err := e.m.Flush(e.rw)
			if err != nil {
				if recvN[peer.dir] >= sentN[peer.dir] && sentN[peer.dir] < perDir {
					write(peer)
				}
				if recvN[peer.dir] < sentN[peer.dir] {
					read(e, peer.dir)
				}
				for k := 0; err != nil && k < 10; k++ {
					_, err = e.m.Flush(e.rw)
				}
			}
			e.rw.SetPlan(nil)
			if err != nil {
				t.Fatalf("Flush does not finish: %v", err)
			}
			sentLog[e.dir] = append(sentLog[e.dir], pl)
			sentN[e.dir]++
		}
		// the later sessions are bursty: each side writes several hundred
		// records before the other side reads any, so both ends cross a key
		// rotation of their sending direction while the peer's records of
		// the previous key generation are still unread
		bursty := s >= sessions/2
		for bursty && (recvN["c2s"] < perDir || recvN["s2c"] < perDir) {
			for _, e := range []end{cEnd, sEnd} {
				for k := 350 + r.Intn(400); k > 0 && sentN[e.dir] < perDir; k-- {
					write(e)
				}
			}
			for recvN["c2s"] < sentN["c2s"] {
				read(sEnd, "c2s")
			}
			for recvN["s2c"] < sentN["s2c"] {
				read(cEnd, "s2c")
			}
		}
		for sentN["c2s"] < perDir || sentN["s2c"] < perDir || recvN["c2s"] < perDir || recvN["s2c"] < perDir {
			switch x := r.Intn(5); {
			case x == 4 && r.Intn(4) == 0 && sentN["c2s"] < perDir && sentN["s2c"] < perDir:
				if r.Intn(2) == 0 {
					writeInterrupted(cEnd, sEnd)
				} else {
					writeInterrupted(sEnd, cEnd)
				}
			case x == 0 && sentN["c2s"] < perDir:
				write(cEnd)
			case x == 1 && sentN["s2c"] < perDir:
				write(sEnd)
			case x == 2 && recvN["c2s"] < sentN["c2s"]:
				read(sEnd, "c2s")
			case x == 3 && recvN["s2c"] < sentN["s2c"]:
				read(cEnd, "s2c")
			}
		}
		mailbox.SetVerifSink(nil)
		// wire scans (post-handshake bytes, and the whole wire for the auth
		// payload)
		w1, w2 := a.Out.Wire[hsWire[0]:], b.Out.Wire[hsWire[1]:]
		plainHits := bytes.Count(w1, marker[:16]) + bytes.Count(w2, marker[:16])
		authHits := bytes.Count(a.Out.Wire, p.auth[:16]) + bytes.Count(b.Out.Wire, p.auth[:16])
		// repeated ciphertext: every record (18-byte header ciphertext, body
		// ciphertext) of both directions must be unique
		seen := map[string]bool{}
		coll := 0
		for di, w := range [][]byte{w1, w2} {
			d := []string{"c2s", "s2c"}[di]
			pos := 0
			for _, pl := range sentLog[d] {
				for _, ln := range []int{18, len(pl) + 16} {
					if pos+ln > len(w) {
						break
					}
					k := d + string(w[pos:pos+ln])
					if seen[k] {
						coll++
					}
					seen[k] = true
					pos += ln
				}
			}
		}
		enc.Encode(map[string]any{"op": "end", "collisions": coll, "plainHits": plainHits,
			"authHits": authHits, "records": perDir, "hooks": tap.n})
	}
}
