package drivers

import (
	"encoding/json"
	"fmt"
	"testing"
	"time"

	"verif/harness/lncrun"
)

func TestLncSmoke(t *testing.T) {
	s, err := lncrun.New(lncrun.Options{Patience: 30 * time.Second})
	if err != nil {
		t.Fatal(err)
	}
	s.Serve()
	c := s.Dial("c", 1)
	if c == nil || c.Sec == nil {
		t.Fatalf("dial failed")
	}
	sc := s.Accepted()
	if sc == nil || sc.Sec == nil {
		t.Fatalf("accept failed")
	}
	for _, n := range []int{1, 100, 40000, 65535} {
		if err := c.Write(n); err != nil {
			t.Fatal(err)
		}
		if err := sc.Write(n); err != nil {
			t.Fatal(err)
		}
	}
	fmt.Println("read ok", sc.AwaitRead(c.Written(), 20*time.Second), c.AwaitRead(sc.Written(), 20*time.Second))
	c.Close("script")
	fmt.Println("server down", sc.AwaitDown(20*time.Second))
	c2 := s.Dial("c", 2)
	sc2 := s.Accepted()
	fmt.Println("second", c2 != nil && c2.Sec != nil, sc2 != nil && sc2.Sec != nil)
	if c2 != nil && c2.Sec != nil {
		c2.Write(1000)
		fmt.Println("read2", sc2.AwaitRead(1000, 10*time.Second))
	}
	s.Shutdown()
	for _, e := range s.Rec.Events() {
		b, _ := json.Marshal(e)
		fmt.Println(string(b))
	}
}

func TestLncSmokeWebsocket(t *testing.T) {
	s, err := lncrun.New(lncrun.Options{Patience: 30 * time.Second, Websocket: true})
	if err != nil {
		t.Fatal(err)
	}
	s.Serve()
	c := s.Dial("c", 1)
	if c == nil || c.Sec == nil {
		for _, e := range s.Stat.Events() {
			b, _ := json.Marshal(e)
			fmt.Println(string(b))
		}
		t.Fatalf("dial failed")
	}
	sc := s.Accepted()
	if sc == nil || sc.Sec == nil {
		t.Fatalf("accept failed")
	}
	for _, n := range []int{1, 100, 40000, 65535} {
		if err := c.Write(n); err != nil {
			t.Fatal(err)
		}
		if err := sc.Write(n); err != nil {
			t.Fatal(err)
		}
	}
	fmt.Println("read ok", sc.AwaitRead(c.Written(), 20*time.Second), c.AwaitRead(sc.Written(), 20*time.Second))
	c.Close("script")
	fmt.Println("server down", sc.AwaitDown(20*time.Second))
	c2 := s.Dial("c", 2)
	sc2 := s.Accepted()
	fmt.Println("second", c2 != nil && c2.Sec != nil, sc2 != nil && sc2.Sec != nil)
	s.Shutdown()
	n := 0
	for _, e := range s.Stat.Events() {
		if e["ev"] == "cstat" && n < 12 {
			b, _ := json.Marshal(e)
			fmt.Println(string(b))
			n++
		}
	}
}
