package drivers

import (
	"bytes"
	"encoding/json"
	"fmt"
	"os"
	"path/filepath"
	"testing"
	"time"

	"github.com/lightninglabs/lightning-node-connect/mailbox"

	"verif/harness/mitm"
)

// TestC07Stages: arbitrary and mutated bytes delivered at the stages above
// the GBN layer - each act of the Noise handshake (XX and KK, either role),
// the encrypted record stream, the websocket JSON envelope.  Every call's
// outcome (ok / err) is logged per input class; a panic kills the process and
// is attributed to the case noted last.
func TestC07Stages(t *testing.T) {
	dir := outDir(t)
	f, err := os.Create(filepath.Join(dir, "c07_stages.ndjson"))
	if err != nil {
		t.Fatal(err)
	}
	defer f.Close()
	enc := json.NewEncoder(f)
	r := rng(707)
	n := 0
	emit := func(stage, class, outcome string, extra map[string]any) {
		m := map[string]any{"op": "stage", "stage": stage, "class": class, "outcome": outcome}
		for k, v := range extra {
			m[k] = v
		}
		enc.Encode(m)
		n++
	}
	oc := func(err error) string {
		if err != nil {
			return "err"
		}
		return "ok"
	}

	// ---- Noise handshake acts --------------------------------------------
	// victim: which party reads the mutated act (act numbers 1..3; XX has
	// three acts, KK two)
	type hsCase struct {
		pattern string
		act     int
	}
	for _, hc := range []hsCase{{"XX", 1}, {"XX", 2}, {"XX", 3}, {"KK", 1}, {"KK", 2}} {
		// learn the act's length from an unmodified run
		actLen := 0
		probe := func(mut func(b []byte) []byte) (string, string) {
			p := defaultHs()
			if hc.pattern == "KK" {
				p.cliRemote, p.srvRemote = p.srvKey.PubKey(), p.cliKey.PubKey()
			}
			a, b := mitm.NewPair()
			// acts 1 and 3 travel client -> server (a.Out), act 2 back
			idx := 0
			edit := func(chunk []byte) []byte {
				idx++
				want := 1
				if hc.act == 3 {
					want = 2
				}
				if idx == want {
					if mut == nil {
						actLen = len(chunk)
						return chunk
					}
					// whatever the victim makes of the mutated act, the
					// transport ends shortly afterwards (a reader waiting
					// for bytes that never come gets EOF, as it would get
					// a read timeout on a real transport)
					time.AfterFunc(40*time.Millisecond, func() {
						a.Out.Close()
						b.Out.Close()
					})
					return mut(chunk)
				}
				return chunk
			}
			if hc.act == 2 {
				b.Out.Edit = edit
			} else {
				a.Out.Edit = edit
			}
			res := runMachines(p, a, b)
			return oc(res.cErr), oc(res.sErr)
		}
		probe(nil)
		if actLen == 0 {
			t.Fatalf("no act %d seen for %s", hc.act, hc.pattern)
		}
		victim := func(c, s string) string {
			if hc.act == 2 {
				return c
			}
			return s
		}
		stage := fmt.Sprintf("hs-%s-act%d", hc.pattern, hc.act)
		step := 1
		if actLen > 60 {
			step = 3
		}
		for k := 0; k < actLen; k += step {
			k := k
			noteCurrent(dir, map[string]any{"stage": stage, "class": "trunc", "k": k})
			c, s := probe(func(b []byte) []byte { return b[:k] })
			emit(stage, "trunc", victim(c, s), map[string]any{"k": k})
		}
		for i := 0; i < actLen; i++ {
			i := i
			bit := byte(1) << uint(r.Intn(8))
			noteCurrent(dir, map[string]any{"stage": stage, "class": "flip", "i": i, "bit": bit})
			c, s := probe(func(b []byte) []byte { b[i] ^= bit; return b })
			cls := "flip"
			if i == 0 {
				cls = "flip-version"
			}
			emit(stage, cls, victim(c, s), map[string]any{"i": i})
		}
		for _, ln := range []int{1, 2, 3, 4, actLen - 1, actLen, actLen + 1, 1000, 70000} {
			ln := ln
			noteCurrent(dir, map[string]any{"stage": stage, "class": "random", "len": ln})
			c, s := probe(func(b []byte) []byte {
				x := make([]byte, ln)
				r.Read(x)
				return x
			})
			emit(stage, "random", victim(c, s), map[string]any{"len": ln})
		}
		// every string of up to two bytes over a small alphabet
		alpha := []byte{0x00, 0x01, 0x02, 0x03, 0xff}
		var shorts [][]byte
		for _, x := range alpha {
			shorts = append(shorts, []byte{x})
			for _, y := range alpha {
				shorts = append(shorts, []byte{x, y})
			}
		}
		for _, sh := range shorts {
			sh := sh
			noteCurrent(dir, map[string]any{"stage": stage, "class": "short", "bytes": sh})
			c, s := probe(func(b []byte) []byte { return sh })
			emit(stage, "short", victim(c, s), nil)
		}
	}

	// ---- encrypted record stream -------------------------------------------
	// A fresh secured pair per case: the genuine record is readable, then one
	// piece of garbage (or a replay) fails, whatever it is.  (A failed
	// decryption consumes the nonce, so the stream is over after it - that
	// is C02's "a prefix, then an error"; here only the absence of a crash
	// and the error matter.)
	{
		newPair := func() hsResult {
			p := defaultHs()
			a, b := mitm.NewPair()
			res := runMachines(p, a, b)
			if res.cErr != nil || res.sErr != nil {
				t.Fatalf("handshake: %v %v", res.cErr, res.sErr)
			}
			return res
		}
		record := func(res hsResult, sz int) []byte {
			msg := make([]byte, sz)
			r.Read(msg)
			if err := res.cm.WriteMessage(msg); err != nil {
				t.Fatal(err)
			}
			var buf bytes.Buffer
			if _, err := res.cm.Flush(&buf); err != nil {
				t.Fatal(err)
			}
			return buf.Bytes()
		}
		feed := func(res hsResult, class string, data []byte, extra map[string]any) {
			noteCurrent(dir, map[string]any{"stage": "record", "class": class, "len": len(data)})
			_, err := res.sm.ReadMessage(bytes.NewReader(data))
			emit("record", class, oc(err), extra)
		}
		for _, ln := range []int{0, 1, 2, 17, 18, 19, 33, 34, 35, 1000, 70000} {
			x := make([]byte, ln)
			r.Read(x)
			feed(newPair(), "random", x, map[string]any{"len": ln})
		}
		for round := 0; round < 60; round++ {
			res := newPair()
			rec := record(res, 1+r.Intn(300))
			feed(res, "genuine", rec, nil)
			rec2 := record(res, 1+r.Intn(300))
			switch round % 3 {
			case 0:
				i := r.Intn(len(rec2))
				mut := append([]byte(nil), rec2...)
				mut[i] ^= 1 << uint(r.Intn(8))
				feed(res, "flip", mut, map[string]any{"i": i})
			case 1:
				feed(res, "trunc", rec2[:r.Intn(len(rec2))], nil)
			case 2:
				feed(res, "replay", rec, nil)
			}
		}
	}

	// ---- websocket JSON envelope -------------------------------------------
	{
		env := func(class string, msg []byte, want []byte) {
			noteCurrent(dir, map[string]any{"stage": "envelope", "class": class, "msg": string(msg[:min(len(msg), 80)])})
			got, err := mailbox.VerifUnmarshalCipherBox(msg)
			extra := map[string]any{}
			if want != nil {
				extra["payloadOK"] = b2i(err == nil && bytes.Equal(got, want))
			}
			emit("envelope", class, oc(err), extra)
		}
		env("valid", []byte(`{"result":{"desc":{"stream_id":"QUJD"},"msg":"SGVsbG8="}}`), []byte("Hello"))
		env("valid", []byte(`{"result":{"msg":"AAEC/w=="}}`), []byte{0, 1, 2, 255})
		big := bytes.Repeat([]byte("QUJD"), 30000)
		env("valid", append(append([]byte(`{"result":{"msg":"`), big...), []byte(`"}}`)...), bytes.Repeat([]byte("ABC"), 30000))
		env("error-wrapped", []byte(`{"error":{"code":2,"message":"stream not found"}}`), nil)
		env("error-wrapped", []byte(`{"error":"read stream occupied"}`), nil)
		for _, g := range []string{``, `{`, `}`, `{}`, `null`, `[]`, `{"result":`, `{"result":}`, `{"result":{"msg":"!!!"}}`,
			`{"result":{"msg":5}}`, `{"result":[1,2]}`, `{"result":"x"}`, `{"result":{"msg":"QUJD"}`, `{"results":{}}`,
			`{"result":{"desc":{"stream_id":7}}}`, "\x00\x01\x02", `{"result":{"msg":"QUJD"}}{"result":{"msg":"QUJD"}}`} {
			env("malformed", []byte(g), nil)
		}
		alpha := []byte(`{}":a`)
		var gen func(prefix []byte, depth int)
		gen = func(prefix []byte, depth int) {
			if len(prefix) > 0 {
				env("short", prefix, nil)
			}
			if depth == 0 {
				return
			}
			for _, c := range alpha {
				gen(append(append([]byte(nil), prefix...), c), depth-1)
			}
		}
		gen(nil, 3)
		for i := 0; i < 300; i++ {
			x := make([]byte, 1+r.Intn(200))
			r.Read(x)
			env("random", x, nil)
		}
		for i := 0; i < 200; i++ {
			// a valid envelope with one byte changed
			v := []byte(`{"result":{"desc":{"stream_id":"QUJD"},"msg":"SGVsbG8="}}`)
			v[r.Intn(len(v))] = byte(r.Intn(256))
			env("mutated", v, nil)
		}
	}
	enc.Encode(map[string]any{"op": "stageEnd", "n": n})
}
