package drivers

import (
	"fmt"
	"os"
	"testing"
	"testing/synctest"
	"time"

	"github.com/lightninglabs/lightning-node-connect/gbn"

	"verif/harness/gbnrun"
	"verif/harness/vnet"
)

// TestC06Progress: a finite prefix of drops / duplicates / delays, then a
// reliable transport with latency below the resend timeout.  The observer
// specification checks bounded delivery, absence of unprovoked closure and
// quiescence.  Targeted scenarios lose the last packet of a burst while the
// peer's keepalive pings keep arriving.
func TestC06Progress(t *testing.T) {
	dir := outDir(t)
	ts := newTraceSet(dir, "c06")
	thorough := os.Getenv("VERIF_TIER") == "thorough"
	type scen struct {
		desc  map[string]any
		cfg   gbnrun.Config
		until time.Duration
		base  time.Duration // base resend timeout once the link is reliable
		ka    bool
	}
	var scens []scen
	r := rng(606)
	nrand := 40
	if thorough {
		nrand = 1500
	}
	for i := 0; i < nrand; i++ {
		n := []uint8{1, 2, 3, 20, 254, 200}[r.Intn(6)]
		static := []time.Duration{time.Second, 0, 2 * time.Second}[r.Intn(3)]
		lat := time.Duration(5+r.Intn(150)) * time.Millisecond
		ka := r.Intn(2) == 0
		until := time.Duration(3+r.Intn(30)) * time.Second
		pDrop := []float64{0.1, 0.3, 0.5}[r.Intn(3)]
		dec, _ := randomFaults(int64(60000+i), pDrop, 0.15, 800*time.Millisecond, until)
		msgs := [2]int{3 + r.Intn(3*int(n)+4), r.Intn(2) * (1 + r.Intn(6))}
		if n > 20 {
			// large windows: single messages and bursts of every size class
			msgs = [2]int{[]int{1, 2, 5, 55, 60, 300}[r.Intn(6)], r.Intn(2) * (1 + r.Intn(3))}
		}
		cfg := gbnrun.Config{N: n, Static: static, Latency: lat, Decide: dec, Msgs: msgs}
		if ka {
			cfg.Ping = [2]time.Duration{7 * time.Second, 5 * time.Second}
			cfg.Pong = [2]time.Duration{3 * time.Second, 3 * time.Second}
		}
		if r.Intn(3) == 0 {
			cfg.Gap = func(ep string, id int) time.Duration {
				return time.Duration((id*977)%2500) * time.Millisecond
			}
		}
		base := static
		if base == 0 {
			base = time.Second
		}
		scens = append(scens, scen{map[string]any{"kind": "random", "i": i, "n": int(n),
			"staticMs": ms(static), "latMs": ms(lat), "ka": ka, "untilS": int(until / time.Second),
			"pDrop": pDrop, "msgs": msgs}, cfg, until, base, ka})
	}
	// tail loss with the peer's keepalive running: the last packet of a burst
	// of k is lost (every copy sent before `until`), nothing else is sent
	for _, static := range []time.Duration{time.Second, 4 * time.Second, 6 * time.Second, 8 * time.Second, 0} {
		for _, lat := range []time.Duration{20 * time.Millisecond, 600 * time.Millisecond, 800 * time.Millisecond} {
			for _, burst := range []int{1, 3} {
				if static != 0 && lat > 100*time.Millisecond && static < 4*lat {
					continue // latency must stay below the resend timeout
				}
				burst, lat, static := burst, lat, static
				dropped := false
				dec := func(from string, idx int, pkt []byte, now time.Duration) vnet.Fate {
					// drop the first transmission of the client's last
					// burst packet, once
					if !dropped && from == "c" && len(pkt) > 4 && pkt[0] == gbn.DATA &&
						pkt[3] != gbn.TRUE && gbnrun.PayloadID(pkt[4:]) == burst {
						dropped = true
						return vnet.Fate{Copies: 0}
					}
					return vnet.Fate{Copies: 1}
				}
				cfg := gbnrun.Config{N: 20, Static: static, Latency: lat, Decide: dec,
					Msgs:  [2]int{burst, 0},
					Ping:  [2]time.Duration{7 * time.Second, 5 * time.Second},
					Pong:  [2]time.Duration{3 * time.Second, 3 * time.Second},
					Extra: []gbn.TimeoutOptions{gbn.WithHandshakeTimeout(4*lat + 2*time.Second)}}
				base := static
				if base == 0 {
					base = 10 * lat // 5 x RTT
					if base < time.Second {
						base = time.Second
					}
				}
				scens = append(scens, scen{map[string]any{"kind": "tailloss", "staticMs": ms(static),
					"latMs": ms(lat), "burst": burst, "ka": true}, cfg, 0, base, true})
			}
		}
	}
	for _, n := range []uint8{254, 200, 128} {
		for _, burst := range []int{1, 5, 55, 56, 127} {
			burst, n := burst, n
			for _, which := range []int{1, burst} { // first or last packet of the burst
				which := which
				dropped := false
				dec := func(from string, idx int, pkt []byte, now time.Duration) vnet.Fate {
					if !dropped && from == "c" && len(pkt) > 4 && pkt[0] == gbn.DATA &&
						pkt[3] != gbn.TRUE && gbnrun.PayloadID(pkt[4:]) == which {
						dropped = true
						return vnet.Fate{Copies: 0}
					}
					return vnet.Fate{Copies: 1}
				}
				cfg := gbnrun.Config{N: n, Static: time.Second, Latency: 20 * time.Millisecond,
					Decide: dec, Msgs: [2]int{burst, 0}}
				scens = append(scens, scen{map[string]any{"kind": "tailloss", "n": int(n),
					"burst": burst, "lost": which, "ka": false, "staticMs": 1000, "latMs": 20},
					cfg, 0, time.Second, false})
			}
		}
	}
	// a keepalive ping travels in the data sequence space: the k-th ping of
	// the client is lost, and data is queued behind it before anything is
	// resent; the ping must be retransmitted like any other packet or the
	// receiver waits for its sequence number for ever
	for _, n := range []uint8{2, 20} {
		for _, static := range []time.Duration{time.Second, 0} {
			for _, lostPing := range []int{1, 2} {
				for _, burst := range []int{1, 3} {
					n, static, lostPing, burst := n, static, lostPing, burst
					pings := 0
					dec := func(from string, idx int, pkt []byte, now time.Duration) vnet.Fate {
						if from == "c" && len(pkt) >= 4 && pkt[0] == gbn.DATA && pkt[3] == gbn.TRUE {
							pings++
							if pings == lostPing {
								return vnet.Fate{Copies: 0}
							}
						}
						return vnet.Fate{Copies: 1}
					}
					cfg := gbnrun.Config{N: n, Static: static, Latency: 20 * time.Millisecond, Decide: dec,
						Msgs: [2]int{burst, 0},
						Ping: [2]time.Duration{400 * time.Millisecond, 0},
						Pong: [2]time.Duration{90 * time.Second, 0},
						Gap: func(ep string, id int) time.Duration {
							if id == 1 {
								// after the lost ping, before its resend
								return time.Duration(400*lostPing+150) * time.Millisecond
							}
							return 0
						}}
					scens = append(scens, scen{map[string]any{"kind": "pingloss", "n": int(n),
						"staticMs": ms(static), "lostPing": lostPing, "burst": burst, "ka": true,
						"latMs": 20}, cfg, 3 * time.Second, time.Second, true})
				}
			}
		}
	}
	// a connection that has been idle for a while (the resend ticker has
	// ticked on an empty queue, NACK-less) loses a packet: the pause limiter
	// of queue.resend compares the time since the last *resend* with the
	// handshake timeout, which the mailbox layer sets above the resend
	// timeout (2 s vs >= 1 s); the lost packet must be retransmitted whatever
	// the ratio of the two, with and without the peer's keepalive
	for _, to := range [][2]time.Duration{{300 * time.Millisecond, time.Second},
		{time.Second, 2 * time.Second}, {0, 2 * time.Second}, {500 * time.Millisecond, 5 * time.Second}} {
		for _, idle := range []time.Duration{3500 * time.Millisecond, 11 * time.Second} {
			for _, ka := range []bool{false, true} {
				for _, burst := range []int{1, 4} {
					to, idle, ka, burst := to, idle, ka, burst
					dropped := false
					dec := func(from string, idx int, pkt []byte, now time.Duration) vnet.Fate {
						if !dropped && from == "c" && len(pkt) > 4 && pkt[0] == gbn.DATA &&
							pkt[3] != gbn.TRUE && gbnrun.PayloadID(pkt[4:]) == burst {
							dropped = true
							return vnet.Fate{Copies: 0}
						}
						return vnet.Fate{Copies: 1}
					}
					cfg := gbnrun.Config{N: 5, Static: to[0], Latency: 20 * time.Millisecond, Decide: dec,
						Msgs:  [2]int{burst, 0},
						Extra: []gbn.TimeoutOptions{gbn.WithHandshakeTimeout(to[1])},
						Gap: func(ep string, id int) time.Duration {
							if id == 1 {
								return idle
							}
							return 0
						}}
					if ka {
						cfg.Ping = [2]time.Duration{7 * time.Second, 5 * time.Second}
						cfg.Pong = [2]time.Duration{3 * time.Second, 3 * time.Second}
					}
					base := to[0]
					if base == 0 {
						base = time.Second
					}
					scens = append(scens, scen{map[string]any{"kind": "idle-then-loss", "staticMs": ms(to[0]),
						"hsMs": ms(to[1]), "idleMs": ms(idle), "burst": burst, "ka": ka, "latMs": 20, "n": 5},
						cfg, idle + time.Second, base, ka})
				}
			}
		}
	}
	// acknowledgements that are late rather than lost, and stream writes that
	// take a good part of a resend timeout: the resend starts although
	// everything arrived, the ACKs (the expected one among them) and NACKs
	// come in while the window is still being written again, and the
	// goroutine the expected ACK starts may be done before the send loop
	// begins to wait; more messages follow later
	for _, n := range []uint8{3, 5} {
		for _, lagMs := range []int{300, 600} {
			for _, ackDelayMs := range []int{1100, 1700} {
				n, lagMs, ackDelayMs := n, lagMs, ackDelayMs
				dec := func(from string, idx int, pkt []byte, now time.Duration) vnet.Fate {
					if from == "s" && len(pkt) == 2 && now < 6*time.Second {
						return vnet.Fate{Copies: 1, Delay: time.Duration(ackDelayMs) * time.Millisecond}
					}
					return vnet.Fate{Copies: 1}
				}
				cfg := gbnrun.Config{N: n, Static: time.Second, Latency: 20 * time.Millisecond,
					Decide: dec, Msgs: [2]int{int(n) + 4, 0},
					SendLag: [2]time.Duration{time.Duration(lagMs) * time.Millisecond, 0},
					Gap: func(ep string, id int) time.Duration {
						if id == int(n)+1 {
							return 9 * time.Second
						}
						return 0
					}}
				scens = append(scens, scen{map[string]any{"kind": "late-acks-slow-write", "n": int(n),
					"staticMs": 1000, "lagMs": lagMs, "ackDelayMs": ackDelayMs, "ka": false, "latMs": 20},
					cfg, 6 * time.Second, time.Second, false})
			}
		}
	}
	for si, sc := range scens {
		sc := sc
		noteCurrent(dir, sc.desc)
		cfg := sc.cfg
		// the horizon leaves room for the paced senders to finish
		var pace time.Duration
		if cfg.Gap != nil {
			for ei, ep := range []string{"c", "s"} {
				var sum time.Duration
				for id := 1; id <= cfg.Msgs[ei]; id++ {
					sum += cfg.Gap(ep, id)
				}
				if sum > pace {
					pace = sum
				}
			}
		}
		cfg.Horizon = sc.until + pace + 25*sc.base + 20*time.Second
		// The time bounds of the observer scale with the resend timeout in
		// force once the link is reliable: with adaptive timeouts that is
		// the boosted value the fault period left behind (gbn/
		// timeout_manager.go boosts it on every resend until the next
		// dynamic update), so it is measured at the end of the fault
		// period.  bound = 25*base + 15 s, quiet = 12*base, settle = 22*base
		// are computed from it by Trace_Progress.tla.
		base := sc.base
		faultsOver := make(chan struct{})
		cfg.OnReady = func(run *gbnrun.Run) {
			run.Rec.Emit("pgCfg", "keepalive", b2i(sc.ka))
			if d := sc.until - run.Net.Since(); d > 0 {
				time.Sleep(d)
			}
			time.Sleep(time.Millisecond)
			for _, c := range []*gbn.GoBackNConn{run.Client, run.Server} {
				if rto := c.VerifTimeoutManager().GetResendTimeout(); rto > base {
					base = rto
				}
			}
			run.Rec.Emit("faultEnd", "baseMs", ms(base))
			close(faultsOver)
		}
		cfg.CloseScript = func(run *gbnrun.Run) {
			// let outstanding acknowledgements and a last resend round settle,
			// then observe the quiet window
			<-faultsOver
			time.Sleep(22*base + time.Second)
			synctest.Wait()
			_, _, sc0 := run.Client.VerifQueueState()
			_, _, ss0 := run.Server.VerifQueueState()
			run.Rec.Emit("pgEnd", "sizeC", int(sc0), "sizeS", int(ss0))
			run.Rec.Emit("harnessClose")
			run.Close("c", "z")
			run.Close("s", "z")
		}
		var res *gbnrun.Run
		synctest.Test(t, func(t *testing.T) { res = gbnrun.Execute(cfg) })
		sc.desc["si"] = si
		ts.add(fmt.Sprintf("all"), res.Rec.Events(), sc.desc, true,
			map[string]any{"delivered": res.Delivered, "accepted": res.Accepted})
	}
	ts.close(nil)
}
