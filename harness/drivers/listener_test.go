package drivers

import (
	"crypto/rand"
	"encoding/json"
	"fmt"
	"net"
	"os"
	"path/filepath"
	"regexp"
	"runtime"
	"strings"
	"sync"
	"testing"
	"time"

	"github.com/btcsuite/btcd/btcec/v2"
	"github.com/lightninglabs/lightning-node-connect/mailbox"
	"github.com/lightningnetwork/lnd/keychain"

	"verif/harness/trace"
)

// The real mailbox.Listener (mailbox/tcp_noise_listner.go) on the loopback
// interface: peers that hold the passphrase dial it with the real mailbox.Dial
// (initiator handshake), others present a wrong passphrase, garbage, or
// nothing at all; one or two callers loop over Accept; Close comes at a
// scripted moment.  Every event the harness can see goes to the trace that
// Trace_Listener.tla validates against Listener.tla.

type lstPeer struct {
	name string
	kind string // good | wrongpass | garbage | silent
	at   time.Duration
}

type lstScen struct {
	name    string
	peers   []lstPeer
	callers []string
	// acceptFrom: when the callers start to call Accept
	acceptFrom time.Duration
	closeAt    time.Duration
	closes     int
}

func listenerGoroutines() int {
	buf := make([]byte, 1<<22)
	n := runtime.Stack(buf, true)
	c := 0
	for _, g := range strings.Split(string(buf[:n]), "\n\n") {
		if strings.Contains(g, "mailbox.(*Listener)") {
			c++
		}
	}
	return c
}

var lstAddrRe = regexp.MustCompile(`from (127\.0\.0\.1:\d+)`)

func runListener(sc lstScen) []trace.Event {
	rec := trace.New()
	// goroutines an earlier scenario has left behind are that scenario's
	base := listenerGoroutines()
	pass := []byte{11, 22, 33, 44, 55, 66, 77, 88, 99, 110, 121, 132, 143, 0}
	wrong := []byte{12, 22, 33, 44, 55, 66, 77, 88, 99, 110, 121, 132, 143, 0}
	key := func() keychain.SingleKeyECDH {
		k, err := btcec.NewPrivateKey()
		if err != nil {
			panic(err)
		}
		return &keychain.PrivKeyECDH{PrivKey: k}
	}
	l, err := mailbox.NewListener(pass, key(), "127.0.0.1:0", []byte("auth"))
	if err != nil {
		rec.Emit("harnessNote", "what", "listen: "+err.Error())
		return rec.Events()
	}
	addr := l.Addr()
	var mu sync.Mutex
	byAddr := map[string]string{}
	connected := func(p string, c net.Conn) {
		// name and line under one lock, before the peer sends anything
		mu.Lock()
		byAddr[c.LocalAddr().String()] = p
		rec.Emit("connect", "p", p)
		mu.Unlock()
	}
	start := time.Now()
	var wg sync.WaitGroup
	var open []net.Conn
	for _, p := range sc.peers {
		p := p
		wg.Add(1)
		go func() {
			defer wg.Done()
			time.Sleep(time.Until(start.Add(p.at)))
			switch p.kind {
			case "good", "wrongpass":
				pw := pass
				if p.kind == "wrongpass" {
					pw = wrong
				}
				nc, err := mailbox.Dial(key(), addr, pw, 5*time.Second,
					func(network, a string, to time.Duration) (net.Conn, error) {
						c, err := net.DialTimeout(network, a, to)
						if err == nil {
							connected(p.name, c)
						}
						return c, err
					})
				rec.Emit("dialRet", "p", p.name, "ok", b2i(err == nil))
				if err == nil {
					mu.Lock()
					open = append(open, nc)
					mu.Unlock()
				}
			case "garbage", "silent":
				c, err := net.DialTimeout("tcp", addr.String(), 5*time.Second)
				if err != nil {
					rec.Emit("dialRet", "p", p.name, "ok", 0)
					return
				}
				connected(p.name, c)
				if p.kind == "garbage" {
					junk := make([]byte, 80)
					rand.Read(junk)
					c.Write(junk)
					time.Sleep(200 * time.Millisecond)
					c.Close()
				} else {
					mu.Lock()
					open = append(open, c)
					mu.Unlock()
				}
			}
		}()
	}
	var cwg sync.WaitGroup
	for _, cn := range sc.callers {
		cn := cn
		cwg.Add(1)
		go func() {
			defer cwg.Done()
			time.Sleep(time.Until(start.Add(sc.acceptFrom)))
			for {
				rec.Emit("acceptCall", "c", cn)
				c, err := l.Accept()
				switch {
				case err == nil:
					mu.Lock()
					p, ok := byAddr[c.RemoteAddr().String()]
					mu.Unlock()
					if !ok {
						p = "?" + c.RemoteAddr().String()
					}
					rec.Emit("acceptRet", "c", cn, "kind", "conn", "p", p)
					mu.Lock()
					open = append(open, c)
					mu.Unlock()
				case strings.Contains(err.Error(), "brontide connection closed"):
					rec.Emit("acceptRet", "c", cn, "kind", "closed", "p", "")
					return
				default:
					p := "tcp"
					if m := lstAddrRe.FindStringSubmatch(err.Error()); m != nil {
						mu.Lock()
						if q, ok := byAddr[m[1]]; ok {
							p = q
						} else {
							p = "?" + m[1]
						}
						mu.Unlock()
					}
					rec.Emit("acceptRet", "c", cn, "kind", "err", "p", p, "err", err.Error())
				}
			}
		}()
	}
	time.Sleep(time.Until(start.Add(sc.closeAt)))
	for i := 0; i < sc.closes; i++ {
		rec.Emit("close")
		l.Close()
	}
	done := make(chan struct{})
	go func() { cwg.Wait(); wg.Wait(); close(done) }()
	select {
	case <-done:
	case <-time.After(20 * time.Second):
		rec.Emit("harnessNote", "what", "callers or peers did not finish")
	}
	// the read deadline of a handshake that got no bytes is 5 s
	lingering := -1
	for i := 0; i < 80; i++ {
		if lingering = listenerGoroutines() - base; lingering <= 0 {
			lingering = 0
			break
		}
		time.Sleep(100 * time.Millisecond)
	}
	rec.Emit("end", "lingering", lingering)
	mu.Lock()
	for _, c := range open {
		c.Close()
	}
	mu.Unlock()
	return rec.Events()
}

func TestListener(t *testing.T) {
	dir := outDir(t)
	ms := time.Millisecond
	scens := []lstScen{
		{name: "mixed", callers: []string{"a"}, closeAt: 2500 * ms, closes: 1, peers: []lstPeer{
			{"g1", "good", 0}, {"b1", "wrongpass", 50 * ms}, {"g2", "good", 100 * ms},
			{"b2", "garbage", 150 * ms}, {"g3", "good", 300 * ms}, {"b3", "wrongpass", 400 * ms}}},
		{name: "close-during-silent-handshake", callers: []string{"a", "b"}, closeAt: 1500 * ms, closes: 1,
			peers: []lstPeer{{"g1", "good", 0}, {"b1", "silent", 100 * ms}, {"g2", "good", 200 * ms}}},
		{name: "silent-peer-times-out", callers: []string{"a"}, closeAt: 6500 * ms, closes: 1,
			peers: []lstPeer{{"b1", "silent", 0}, {"g1", "good", 100 * ms}}},
		{name: "results-wait-for-accept", callers: []string{"a"}, acceptFrom: 1200 * ms, closeAt: 2500 * ms,
			closes: 1, peers: []lstPeer{{"g1", "good", 0}, {"g2", "good", 0}, {"b1", "wrongpass", 0}}},
		{name: "closed-with-results-pending", callers: []string{"a"}, acceptFrom: 3 * time.Second,
			closeAt: 1500 * ms, closes: 2, peers: []lstPeer{{"g1", "good", 0}, {"b1", "garbage", 0}, {"g2", "good", 100 * ms}}},
		{name: "burst", callers: []string{"a", "b"}, closeAt: 3 * time.Second, closes: 1, peers: []lstPeer{
			{"g1", "good", 0}, {"g2", "good", 0}, {"g3", "good", 0}, {"g4", "good", 0}, {"g5", "good", 0},
			{"g6", "good", 0}, {"b1", "wrongpass", 0}, {"b2", "wrongpass", 0}, {"b3", "garbage", 0},
			{"b4", "garbage", 0}, {"b5", "wrongpass", 0}, {"b6", "garbage", 0}}},
		{name: "dial-after-close", callers: []string{"a"}, closeAt: 500 * ms, closes: 1, peers: []lstPeer{
			{"g1", "good", 0}, {"g2", "good", 800 * ms}, {"b1", "garbage", 900 * ms}}},
	}
	f, err := os.Create(filepath.Join(dir, "listener.ndjson"))
	if err != nil {
		t.Fatal(err)
	}
	defer f.Close()
	enc := json.NewEncoder(f)
	n := 0
	for _, sc := range scens {
		// one after the other: the goroutine inventory is per process
		evs := runListener(sc)
		enc.Encode(trace.Event{"ev": "reset", "op": "reset", "scen": sc.name})
		for _, e := range evs {
			e["op"] = e["ev"]
			enc.Encode(e)
			n++
		}
	}
	fmt.Println("listener lines", n)
}
