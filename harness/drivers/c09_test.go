package drivers

import (
	"encoding/json"
	"os"
	"path/filepath"
	"testing"
	"testing/synctest"
	"time"

	"github.com/lightninglabs/lightning-node-connect/gbn"

	"verif/harness/gbnrun"
)

// TestC09Window drives the real send queue to window states (base, top) and
// feeds it every ACK and NACK value 0..255; each line of the output holds the
// 256 results for one (s, base, top, kind).  TLC compares every result with
// the specification's AckResult / NackResult (spec/Trace_Window.tla).
func TestC09Window(t *testing.T) {
	dir := outDir(t)
	f, err := os.Create(filepath.Join(dir, "c09_window.ndjson"))
	if err != nil {
		t.Fatal(err)
	}
	defer f.Close()
	enc := json.NewEncoder(f)
	thorough := os.Getenv("VERIF_TIER") == "thorough"
	svals := []int{2, 3, 4, 5, 6, 21}
	if thorough {
		svals = append(svals, 7, 8, 9, 64, 128)
	}
	r := rng(909)
	lines, tuples := 0, 0
	emit := func(s, b, tp int) {
		for _, kind := range []string{"ack", "nack"} {
			res := make([]int, 256)
			for q := 0; q < 256; q++ {
				vq := gbn.NewVerifQueue(uint8(s), nil)
				vq.Set(uint8(b), uint8(tp))
				code := 0
				func() {
					defer func() {
						if e := recover(); e != nil {
							code = -1
						}
					}()
					if kind == "ack" {
						if vq.ProcessACK(uint8(q)) {
							code += 256
						}
					} else {
						rs, bm := vq.ProcessNACK(uint8(q))
						if rs {
							code += 256
						}
						if bm {
							code += 512
						}
					}
					nb, nt := vq.State()
					if int(nt) != tp {
						code = -2
					} else {
						code += int(nb)
					}
				}()
				vq.Stop()
				res[q] = code
				tuples++
			}
			enc.Encode(map[string]any{"s": s, "b": b, "t": tp, "k": kind, "r": res})
			lines++
		}
	}
	for _, s := range svals {
		for b := 0; b < s; b++ {
			for tp := 0; tp < s; tp++ {
				emit(s, b, tp)
			}
		}
	}
	// s = 255 (n = 254): sampled window states plus the corners
	nSample := 150
	if thorough {
		nSample = 3000
	}
	for _, bt := range [][2]int{{0, 0}, {0, 254}, {254, 0}, {254, 253}, {1, 0}, {127, 126}} {
		emit(255, bt[0], bt[1])
	}
	for i := 0; i < nSample; i++ {
		emit(255, r.Intn(255), r.Intn(255))
	}
	b, _ := json.Marshal(map[string]any{"lines": lines, "tuples": tuples, "svals": append(svals, 255)})
	os.WriteFile(filepath.Join(dir, "c09_window_summary.json"), b, 0o644)
}

// TestC09Blocking: acknowledgements towards the client are withheld; the
// trace records how many Send calls returned and whether one is blocked at
// quiescent instants ("probe" events), before and after single ACKs are let
// through.
func TestC09Blocking(t *testing.T) {
	dir := outDir(t)
	ts := newTraceSet(dir, "c09b")
	ns := []uint8{1, 2, 3, 5, 20, 254}
	if os.Getenv("VERIF_TIER") == "thorough" {
		ns = append(ns, 4, 7, 10, 100)
	}
	for vi, variant := range []string{"hold", "nackmove"} {
		for _, n := range ns {
			n := n
			total := int(n) + 4
			cfg := gbnrun.Config{
				N:       n,
				Static:  2 * time.Second,
				Msgs:    [2]int{total, 0},
				Latency: 10 * time.Millisecond,
				Horizon: 10 * time.Minute,
				Strict:  true,
			}
			variant := variant
			cfg.OnReady = func(r *gbnrun.Run) {
				// everything towards the client is parked
				r.Net.Gate("c", true)
				r.StartSenders()
				time.Sleep(50 * time.Millisecond)
				synctest.Wait()
				r.Probe("c")
				if variant == "nackmove" {
					// drop the client's 2nd packet on resend... keep
					// simple: wait for a resend round, still blocked
					time.Sleep(2500 * time.Millisecond)
					synctest.Wait()
					r.Probe("c")
				}
				for i := 0; i < 3; i++ {
					r.Net.Release("c", 1)
					time.Sleep(100 * time.Millisecond)
					synctest.Wait()
					r.Probe("c")
				}
				r.Net.Gate("c", false)
			}
			var run *gbnrun.Run
			synctest.Test(t, func(t *testing.T) {
				run = gbnrun.Execute(cfg)
			})
			ts.add("n"+itoa(int(n)), run.Rec.Events(), map[string]any{
				"n": int(n), "variant": variant, "i": vi*100 + int(n),
				"total": total}, true,
				map[string]any{"delivered": run.Delivered, "accepted": run.Accepted})
		}
	}
	ts.close(nil)
}
