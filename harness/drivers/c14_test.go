package drivers

import (
	"crypto/sha256"
	"encoding/binary"
	"encoding/json"
	"os"
	"path/filepath"
	"sync"
	"testing"
	"testing/synctest"
	"time"

	"verif/harness/gbnrun"
	"verif/harness/vnet"
)

func hash31(b []byte) int {
	h := sha256.Sum256(b)
	return int(binary.BigEndian.Uint32(h[:4]) >> 1)
}

// content of message id with the given length (any length, including 0..3)
func chunkPayload(id, n int) []byte {
	b := streamOf(n + 8*id + 3)
	return append([]byte(nil), b[8*id+3:]...)
}

type chunkScenario struct {
	name      string
	M         int
	n         uint8
	lens      []int
	latency   time.Duration
	decide    vnet.Decider
	sendTO    time.Duration // send deadline for the first attempt of each message
	recvTO    time.Duration // receive deadline for the first attempts of each Recv
	recvTries int           // how many attempts use the deadline (default 1)
	horizon   time.Duration
	ping      time.Duration // keepalive ping interval of both ends (0: off)
	gap       time.Duration // pause of the sender between two messages
	lag       time.Duration // the sender's stream writes return this late
}

// TestC14Chunk: every payload length against every chunk size (small ones
// exhaustively), boundary and large sizes, sequences with transport faults,
// and send / receive deadlines expiring inside a chunked message (the call is
// then retried without deadline).
func TestC14Chunk(t *testing.T) {
	dir := outDir(t)
	f, err := os.Create(filepath.Join(dir, "c14.ndjson"))
	if err != nil {
		t.Fatal(err)
	}
	defer f.Close()
	enc := json.NewEncoder(f)
	var encMu sync.Mutex
	emit := func(m map[string]any) {
		encMu.Lock()
		enc.Encode(m)
		encMu.Unlock()
	}
	thorough := os.Getenv("VERIF_TIER") == "thorough"
	r := rng(1414)
	var scen []chunkScenario
	// exhaustive small
	maxM := 3
	if thorough {
		maxM = 5
	}
	for M := 0; M <= maxM; M++ {
		var lens []int
		for L := 0; L <= 3*maxM+1; L++ {
			lens = append(lens, L)
		}
		scen = append(scen, chunkScenario{name: "plain", M: M, n: 2, lens: lens,
			latency: 5 * time.Millisecond})
	}
	// boundaries and large payloads
	for _, M := range []int{1000, 4096, 65535} {
		lens := []int{M - 1, M, M + 1, 2 * M, 2*M + 1, 0, 1}
		if M <= 4096 {
			lens = append(lens, 65535, 65536, 100000+r.Intn(100000))
		}
		scen = append(scen, chunkScenario{name: "large", M: M, n: 20, lens: lens,
			latency: 5 * time.Millisecond})
	}
	// sequences of mixed lengths with transport faults
	nf := 4
	if thorough {
		nf = 60
	}
	for i := 0; i < nf; i++ {
		M := 1 + r.Intn(4)
		var lens []int
		for k := 0; k < 12; k++ {
			lens = append(lens, r.Intn(4*M+2))
		}
		dec, _ := randomFaults(int64(14000+i), 0.2, 0.15, 200*time.Millisecond, 20*time.Second)
		scen = append(scen, chunkScenario{name: "faults", M: M, n: uint8(1 + r.Intn(3)),
			lens: lens, latency: 20 * time.Millisecond, decide: dec})
	}
	// deadlines inside a message: window 1, each packet needs a 200 ms round
	// trip before the next one is accepted
	for _, to := range []int{50, 250, 450, 650, 850, 1050} {
		scen = append(scen, chunkScenario{name: "sendDeadline", M: 2, n: 1, lens: []int{7, 3, 0, 5},
			latency: 100 * time.Millisecond, sendTO: time.Duration(to) * time.Millisecond})
		scen = append(scen, chunkScenario{name: "recvDeadline", M: 2, n: 1, lens: []int{7, 3, 0, 5},
			latency: 100 * time.Millisecond, recvTO: time.Duration(to) * time.Millisecond})
	}
	// many short receive deadlines in a row: several time out inside the same
	// message, some of them without a new chunk having arrived in between
	for _, to := range []int{30, 50, 90, 130} {
		scen = append(scen, chunkScenario{name: "recvDeadline", M: 2, n: 1, lens: []int{7, 4, 9},
			latency: 100 * time.Millisecond, recvTO: time.Duration(to) * time.Millisecond,
			recvTries: 40})
	}
	// keepalive pings travel in the sender's data sequence space: with
	// pings more frequent than the round trip they fall next to (and, if the
	// send loop ever lets them, between) the chunks of a message
	for i, n := range []uint8{1, 2, 3, 5} {
		M := 1 + i%3
		var lens []int
		for k := 0; k < 10; k++ {
			lens = append(lens, (k*7+i)%(6*M+2))
		}
		var dec vnet.Decider
		if i%2 == 1 {
			dec, _ = randomFaults(int64(14500+i), 0.15, 0.1, 100*time.Millisecond, 10*time.Second)
		}
		scen = append(scen, chunkScenario{name: "pings", M: M, n: n, lens: lens,
			latency: 60 * time.Millisecond, decide: dec, ping: 40 * time.Millisecond,
			gap: time.Duration(30*(i+1)) * time.Millisecond})
	}
	// ... and with stream writes that take longer than the ping interval:
	// while a chunk is being written the next ping falls due, so when the
	// write returns the send loop has a ping and the next chunk to choose from
	for i, n := range []uint8{2, 3, 5, 20} {
		M := 1 + i%2
		var lens []int
		for k := 0; k < 10; k++ {
			lens = append(lens, 4*M+(k*5+i)%(8*M))
		}
		scen = append(scen, chunkScenario{name: "pings-slow-write", M: M, n: n, lens: lens,
			latency: 60 * time.Millisecond, ping: 20 * time.Millisecond,
			lag: 30 * time.Millisecond})
	}
	for si, sc := range scen {
		sc := sc
		beat(map[string]any{"scenario": sc.name, "M": sc.M, "i": si})
		emit(map[string]any{"op": "new", "scenario": sc.name, "M": sc.M, "n": int(sc.n),
			"lens": sc.lens, "sendTO": int(sc.sendTO / time.Millisecond),
			"recvTO": int(sc.recvTO / time.Millisecond)})
		cfg := gbnrun.Config{
			N: sc.n, Static: time.Second, Latency: sc.latency, Decide: sc.decide,
			Chunk: sc.M, Horizon: 30 * time.Minute,
		}
		if sc.lag > 0 {
			cfg.SendLag = [2]time.Duration{sc.lag, 0}
		}
		if sc.ping > 0 {
			cfg.Ping = [2]time.Duration{sc.ping, sc.ping}
			cfg.Pong = [2]time.Duration{10 * time.Minute, 10 * time.Minute}
		}
		cfg.OnReady = func(run *gbnrun.Run) {
			var wg sync.WaitGroup
			wg.Add(2)
			go func() { // sender (client)
				defer wg.Done()
				for i, L := range sc.lens {
					if sc.gap > 0 && i > 0 {
						time.Sleep(sc.gap)
					}
					p := chunkPayload(i+1, L)
					if sc.sendTO > 0 {
						run.Client.SetSendTimeout(sc.sendTO)
					}
					err := run.Client.Send(append([]byte(nil), p...))
					if err != nil && sc.sendTO > 0 {
						emit(map[string]any{"op": "send", "m": i + 1, "len": L,
							"h": hash31(p), "err": err.Error()})
						// retry without deadline
						run.Client.SetSendTimeout(time.Duration(1<<63 - 1))
						err = run.Client.Send(append([]byte(nil), p...))
					}
					es := ""
					if err != nil {
						es = err.Error()
					}
					emit(map[string]any{"op": "send", "m": i + 1, "len": L, "h": hash31(p), "err": es})
					if err != nil {
						return
					}
				}
			}()
			got := 0
			var kept [][]byte // what Recv returned, held by the application
			var keptH []int
			go func() { // receiver (server)
				defer wg.Done()
				for got < len(sc.lens) {
					if sc.recvTO > 0 {
						run.Server.SetRecvTimeout(sc.recvTO)
					}
					b, err := run.Server.Recv()
					tries := sc.recvTries
					if tries == 0 {
						tries = 1
					}
					for k := 1; err != nil && sc.recvTO > 0 && k <= tries; k++ {
						emit(map[string]any{"op": "recv", "len": 0, "h": 0, "err": err.Error()})
						if k == tries {
							run.Server.SetRecvTimeout(time.Duration(1<<63 - 1))
						}
						b, err = run.Server.Recv()
					}
					es := ""
					if err != nil {
						es = err.Error()
					}
					emit(map[string]any{"op": "recv", "len": len(b), "h": hash31(b), "err": es})
					if err != nil {
						return
					}
					kept = append(kept, b)
					keptH = append(keptH, hash31(b))
					got++
				}
			}()
			done := make(chan struct{})
			go func() { wg.Wait(); close(done) }()
			quiet := 1
			select {
			case <-done:
			case <-time.After(20 * time.Minute):
				// not everything arrived within 20 virtual minutes
				quiet = 1
			}
			synctest.Wait()
			bad := 0
			for k, kb := range kept {
				if hash31(kb) != keptH[k] {
					bad++
				}
			}
			emit(map[string]any{"op": "kept", "n": len(kept), "bad": bad})
			emit(map[string]any{"op": "end", "quiet": quiet, "got": got})
		}
		synctest.Test(t, func(t *testing.T) {
			gbnrun.Execute(cfg)
		})
	}
}
