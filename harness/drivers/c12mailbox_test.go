package drivers

import (
	"encoding/json"
	"os"
	"path/filepath"
	"runtime"
	"strings"
	"sync"
	"testing"
	"time"

	"verif/harness/lncrun"
	"verif/harness/trace"
)

// C12 at the mailbox level: ClientConn.Close / ServerConn.Close of real
// connections (real GBN below, real relay streams) called once, twice, from
// two goroutines, from both ends at once, with the relay gone - every call
// must return within a bounded time, Done must be closed afterwards, and
// once the session is shut down no goroutine may be left inside the mailbox
// or gbn packages.  Sessions run one after the other (the goroutine
// inventory is per process).  Validated by Trace_MailboxLife.tla.

func lncGoroutines() (int, string) {
	buf := make([]byte, 1<<22)
	n := runtime.Stack(buf, true)
	c, first := 0, ""
	for _, g := range strings.Split(string(buf[:n]), "\n\n") {
		if strings.Contains(g, "lightning-node-connect/mailbox.") ||
			strings.Contains(g, "lightning-node-connect/gbn.") {
			c++
			if first == "" {
				first = g
			}
		}
	}
	return c, first
}

type mbCloser struct {
	s  *lncrun.Session
	wg sync.WaitGroup
}

// close calls the transport connection's Close (ClientConn / ServerConn)
// directly, as caller k, and records when it returns.
func (m *mbCloser) close(c *lncrun.Conn, k string) {
	m.wg.Add(1)
	go func() {
		defer m.wg.Done()
		m.s.Rec.Emit("mbCloseCall", "side", c.Side, "conn", c.ID, "k", k)
		t := time.Now()
		done := make(chan error, 1)
		go func() { done <- c.Raw.Close() }()
		select {
		case <-done:
			m.s.Rec.Emit("mbCloseRet", "side", c.Side, "conn", c.ID, "k", k,
				"ms", int(time.Since(t)/time.Millisecond), "done", b2i(c.IsDone()))
		case <-time.After(30 * time.Second):
			m.s.Rec.Emit("mbCloseRet", "side", c.Side, "conn", c.ID, "k", k, "ms", -1, "done", b2i(c.IsDone()))
		}
	}()
}

func TestC12Mailbox(t *testing.T) {
	dir := outDir(t)
	type scen struct {
		name string
		opts lncrun.Options
		run  func(s *lncrun.Session, x *lncExpect, m *mbCloser)
	}
	both := func(first string, gap time.Duration, twice bool) func(*lncrun.Session, *lncExpect, *mbCloser) {
		return func(s *lncrun.Session, x *lncExpect, m *mbCloser) {
			s.Serve()
			c, sc := x.connect(1)
			if c == nil {
				return
			}
			x.exchange(c, sc, 100, 3000)
			a, b := c, sc
			if first == "s" {
				a, b = sc, c
			}
			m.close(a, "1")
			if twice {
				m.close(a, "2")
			}
			time.Sleep(gap)
			m.close(b, "1")
			m.wg.Wait()
			m.close(a, "3") // a late Close call
			m.wg.Wait()
		}
	}
	relayGone := func(s *lncrun.Session, x *lncExpect, m *mbCloser) {
		s.Serve()
		c, sc := x.connect(1)
		if c == nil {
			return
		}
		x.exchange(c, sc, 100)
		// the relay loses everything and refuses the streams from now on:
		// the endpoints' retry loops are busy re-creating them
		s.Relay.Restart()
		for _, st := range []string{"c2s", "s2c"} {
			s.FailSends("K", st, 1000)
		}
		time.Sleep(1500 * time.Millisecond)
		m.close(c, "1")
		m.close(sc, "1")
		m.close(c, "2")
		m.wg.Wait()
	}
	// the websocket proxy is killed: its sockets are dropped without a closing
	// handshake, so closing them reports an error - Close must carry on
	// (close the other stream, fire Done, cancel) all the same
	proxyKilled := func(s *lncrun.Session, x *lncExpect, m *mbCloser) {
		s.Serve()
		c, sc := x.connect(1)
		if c == nil {
			return
		}
		x.exchange(c, sc, 100)
		s.KillFrontDoors()
		time.Sleep(300 * time.Millisecond)
		m.close(c, "1")
		m.wg.Wait()
		m.close(c, "2")
		m.close(sc, "1")
		m.wg.Wait()
	}
	scens := []scen{
		{"client-first", lncrun.Options{PrePaired: true}, both("c", 500*time.Millisecond, false)},
		{"server-first", lncrun.Options{PrePaired: true}, both("s", 500*time.Millisecond, false)},
		{"both-at-once-twice", lncrun.Options{}, both("c", 0, true)},
		{"server-twice-then-client", lncrun.Options{PrePaired: true}, both("s", 20*time.Millisecond, true)},
		{"relay-gone", lncrun.Options{PrePaired: true}, relayGone},
		{"ws-client-first-twice", lncrun.Options{PrePaired: true, Websocket: true}, both("c", 300*time.Millisecond, true)},
		{"ws-server-first", lncrun.Options{Websocket: true}, both("s", 0, false)},
		{"ws-relay-gone", lncrun.Options{PrePaired: true, Websocket: true}, relayGone},
		{"ws-proxy-killed", lncrun.Options{PrePaired: true, Websocket: true}, proxyKilled},
	}
	f, err := os.Create(filepath.Join(dir, "c12mailbox.ndjson"))
	if err != nil {
		t.Fatal(err)
	}
	defer f.Close()
	enc := json.NewEncoder(f)
	for _, sc := range scens {
		base, _ := lncGoroutines()
		s, err := lncrun.New(sc.opts)
		if err != nil {
			t.Fatal(err)
		}
		m := &mbCloser{s: s}
		done := make(chan struct{})
		go func() {
			defer close(done)
			sc.run(s, &lncExpect{s}, m)
			s.Shutdown()
		}()
		select {
		case <-done:
		case <-time.After(4 * time.Minute):
			s.Rec.Emit("harnessNote", "what", "scenario did not finish")
		}
		lingering, where := -1, ""
		for i := 0; i < 150; i++ {
			n, g := lncGoroutines()
			lingering, where = n-base, g
			if lingering <= 0 {
				lingering, where = 0, ""
				break
			}
			time.Sleep(100 * time.Millisecond)
		}
		if len(where) > 1500 {
			where = where[:1500]
		}
		enc.Encode(trace.Event{"ev": "reset", "op": "reset", "scen": sc.name})
		for _, e := range s.Rec.Events() {
			switch e["ev"] {
			case "mbCloseCall", "mbCloseRet", "expect", "harnessNote":
				e["op"] = e["ev"]
				enc.Encode(e)
			}
		}
		enc.Encode(trace.Event{"ev": "end", "op": "end", "lingering": lingering, "where": where})
	}
}
