package drivers

import (
	"fmt"
	"testing"
	"testing/synctest"
	"time"

	"verif/harness/gbnrun"
	"verif/harness/vnet"
)

// randomFaults returns a decider that, until virtual time `until`, drops a
// packet with probability pDrop, duplicates it in place with probability pDup
// and delays it by up to maxDelay.
func randomFaults(salt int64, pDrop, pDup float64, maxDelay,
	until time.Duration) (vnet.Decider, *int) {

	r := rng(salt)
	faults := new(int)
	return func(from string, idx int, pkt []byte, now time.Duration) vnet.Fate {
		f := vnet.Fate{Copies: 1}
		if now > until {
			return f
		}
		x := r.Float64()
		switch {
		case x < pDrop:
			f.Copies = 0
			*faults++
		case x < pDrop+pDup:
			f.Copies = 2
			*faults++
		}
		if maxDelay > 0 && r.Intn(3) == 0 {
			f.Delay = time.Duration(r.Int63n(int64(maxDelay)))
		}
		return f
	}, faults
}

// TestC01Random: bidirectional conversations over a randomly faulty transport
// for several window sizes; every run's trace is written for validation
// against GBN.tla.
func TestC01Random(t *testing.T) {
	dir := outDir(t)
	runs := envInt("VERIF_RUNS", 40)
	ts := newTraceSet(dir, "c01")
	ns := []uint8{1, 2, 3, 1, 2, 3, 5, 20, 1, 2, 3, 254}
	for i := 0; i < runs; i++ {
		i := i
		r := rng(int64(i) + int64(envInt("VERIF_SALT", 0))*100000)
		n := ns[i%len(ns)]
		msgs := [2]int{2*int(n) + 3 + r.Intn(6), r.Intn(2*int(n) + 4)}
		if n > 20 {
			msgs = [2]int{258 + r.Intn(40), r.Intn(12)}
		} else if n == 20 {
			msgs = [2]int{45 + r.Intn(40), r.Intn(30)}
		}
		pDrop := []float64{0, 0.05, 0.2, 0.4}[r.Intn(4)]
		pDup := []float64{0, 0.1, 0.3}[r.Intn(3)]
		maxDelay := []time.Duration{0, 300 * time.Millisecond,
			1500 * time.Millisecond}[r.Intn(3)]
		static := []time.Duration{0, time.Second, 300 * time.Millisecond}[r.Intn(3)]
		until := time.Duration(5+r.Intn(40)) * time.Second
		dec, faults := randomFaults(int64(i)+7777+int64(envInt("VERIF_SALT", 0))*100000, pDrop, pDup, maxDelay, until)
		sizes := r.Intn(3)
		cfg := gbnrun.Config{
			N:       n,
			Static:  static,
			Msgs:    msgs,
			Latency: time.Duration(1+r.Intn(200)) * time.Millisecond,
			Decide:  dec,
			Horizon: 20 * time.Minute,
			Size: func(ep string, id int) int {
				switch sizes {
				case 0:
					return 4
				case 1:
					return 4 + (id*37)%200
				default:
					return 4 + (id*7919)%70000
				}
			},
		}
		// keepalive pings travel in the data sequence space: in some runs
		// one or both ends ping more often than they resend (the pong
		// timeout is long, the faults must not end the run early)
		pingMs := [2]int{}
		if i%3 == 1 {
			for e := 0; e < 2; e++ {
				if r.Intn(3) > 0 {
					pingMs[e] = []int{150, 400, 2000}[r.Intn(3)]
					cfg.Ping[e] = time.Duration(pingMs[e]) * time.Millisecond
					cfg.Pong[e] = 90 * time.Second
				}
			}
		}
		// stream writes that return late: the answer to a packet can be
		// processed before the send call that carried it has returned
		lagMs := 0
		if i%4 == 2 {
			lagMs = []int{5, 60, 350}[r.Intn(3)]
			cfg.SendLag = [2]time.Duration{time.Duration(lagMs) * time.Millisecond,
				time.Duration(lagMs*r.Intn(2)) * time.Millisecond}
		}
		if r.Intn(3) == 0 {
			cfg.Gap = func(ep string, id int) time.Duration {
				return time.Duration((id*131)%1700) * time.Millisecond
			}
		}
		var run *gbnrun.Run
		synctest.Test(t, func(t *testing.T) {
			run = gbnrun.Execute(cfg)
		})
		desc := map[string]any{
			"i": i, "n": int(n), "msgs": msgs, "pDrop": pDrop, "pDup": pDup,
			"maxDelayMs":  int(maxDelay / time.Millisecond),
			"staticMs":    int(static / time.Millisecond),
			"latencyMs":   int(cfg.Latency / time.Millisecond),
			"faultUntilS": int(until / time.Second), "sizes": sizes,
			"seed": seed(), "pingMs": pingMs, "sendLagMs": lagMs,
		}
		obs := map[string]any{
			"delivered": run.Delivered, "accepted": run.Accepted,
			"sendErr": run.SendErr, "recvErr": run.RecvErr,
			"leaked": len(run.Leaked), "faults": *faults,
		}
		ts.add(fmt.Sprintf("n%d", n), run.Rec.Events(), desc, *faults > 0, obs)
	}
	ts.close(nil)
}
