package drivers

import (
	"encoding/json"
	"fmt"
	"os"
	"path/filepath"
	"sort"
	"sync"
	"testing"
	"testing/synctest"
	"time"

	"github.com/lightninglabs/lightning-node-connect/gbn"
)

// TestC06Syncer drives a stand-alone syncer (gbn/syncer.go) through scripted
// orders of the events of a resend round - initResendUpTo, the duration of the
// resend loop before waitForSync listens, ACKs and NACKs (expected and other)
// at instants around the resend timeout - under virtual time, and logs when
// waitForSync returns.  The scripts enumerate the orders Syncer.tla
// distinguishes (an expected ACK / NACK before or after the wait begins, the
// goroutine an expected ACK starts expiring before or after it, two rounds);
// the log is validated by Trace_Syncer (bounded wait, early end only for a
// cause, no wait overdue at the end).
func TestC06Syncer(t *testing.T) {
	dir := outDir(t)
	f, err := os.Create(filepath.Join(dir, "c06syncer.ndjson"))
	if err != nil {
		t.Fatal(err)
	}
	defer f.Close()
	enc := json.NewEncoder(f)
	thorough := os.Getenv("VERIF_TIER") == "thorough"
	const rt = 1000 // ms
	type ev struct {
		at   int // ms after initResendUpTo
		kind string
		seq  int
	}
	// sequence space 3, top = 1: expected ACK 0, expected NACK 1
	kinds := []ev{{0, "ack", 0}, {0, "ack", 2}, {0, "nack", 1}, {0, "nack", 0}}
	times := []int{100, 400, 700, 1300, 1900, 2600, 3400}
	loops := []int{0, 500, 1500, 2500} // resend loop duration before the wait
	var scripts [][]ev
	scripts = append(scripts, nil)
	var singles []ev
	for _, tm := range times {
		for _, k := range kinds {
			singles = append(singles, ev{tm, k.kind, k.seq})
		}
	}
	for i, a := range singles {
		scripts = append(scripts, []ev{a})
		for j, b := range singles {
			if j <= i || (!thorough && (i*31+j)%3 != int(seed())%3 && a.kind == b.kind && a.seq == b.seq) {
				continue
			}
			scripts = append(scripts, []ev{a, b})
			if thorough && (i+j)%5 == 0 {
				for _, c := range singles[j+1:] {
					scripts = append(scripts, []ev{a, b, c})
				}
			}
		}
	}
	n := 0
	for _, loop := range loops {
		for _, sc := range scripts {
			n++
			loop, sc := loop, sc
			var lines []map[string]any
			var mu sync.Mutex
			emit := func(m map[string]any) {
				mu.Lock()
				lines = append(lines, m)
				mu.Unlock()
			}
			synctest.Test(t, func(t *testing.T) {
				start := time.Now()
				now := func() int { return int(time.Since(start) / time.Millisecond) }
				v := gbn.NewVerifSyncer(3, gbn.WithStaticResendTimeout(rt*time.Millisecond))
				var quitOnce sync.Once
				quit := func() { quitOnce.Do(v.Quit) }
				desc := ""
				for _, e := range sc {
					desc += fmt.Sprintf("%s(%d)@%d ", e.kind, e.seq, e.at)
				}
				emit(map[string]any{"ev": "reset", "op": "reset", "n": 2, "loopMs": loop, "script": desc})
				rounds := 1
				if len(sc) > 0 && sc[len(sc)-1].at >= 2600 {
					rounds = 2 // a second round follows: late events meet it
				}
				var wg sync.WaitGroup
				wg.Add(1)
				go func() { // the send loop
					defer wg.Done()
					for r := 0; r < rounds; r++ {
						v.InitResendUpTo(1)
						emit(map[string]any{"ev": "resend", "ep": "c", "base": 0, "top": 1, "t": now()})
						time.Sleep(time.Duration(loop) * time.Millisecond)
						emit(map[string]any{"ev": "syncWait", "ep": "c", "t": now(), "rt": rt})
						done := make(chan struct{})
						go func() { v.WaitForSync(); close(done) }()
						select {
						case <-done:
							emit(map[string]any{"ev": "syncDone", "ep": "c", "t": now()})
						case <-time.After(20 * time.Second):
							// overdue: reported by the stock-taking line
							emit(map[string]any{"ev": "pgEnd", "t": now()})
							quit()
							<-done
							return
						}
					}
					emit(map[string]any{"ev": "pgEnd", "t": now()})
				}()
				evs := append([]ev(nil), sc...)
				sort.SliceStable(evs, func(i, j int) bool { return evs[i].at < evs[j].at })
				wg.Add(1)
				go func() { // the receive loop
					defer wg.Done()
					for _, e := range evs {
						if d := time.Duration(e.at)*time.Millisecond - time.Since(start); d > 0 {
							time.Sleep(d)
						}
						if e.kind == "ack" {
							v.ProcessACK(uint8(e.seq))
							emit(map[string]any{"ev": "ack", "ep": "c", "seq": e.seq, "t": now(), "rt": rt})
						} else {
							v.ProcessNACK(uint8(e.seq))
							emit(map[string]any{"ev": "nack", "ep": "c", "seq": e.seq, "t": now()})
						}
					}
				}()
				wg.Wait()
				quit()
				time.Sleep(2 * rt * time.Millisecond) // lingering goroutines end
			})
			for _, l := range lines {
				if _, ok := l["op"]; !ok {
					l["op"] = l["ev"]
				}
				enc.Encode(l)
			}
		}
	}
	t.Logf("%d scripts", n)
}
