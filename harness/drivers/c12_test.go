package drivers

import (
	"context"
	"errors"
	"fmt"
	"os"
	"sync"
	"sync/atomic"
	"testing"
	"testing/synctest"
	"time"

	"github.com/lightninglabs/lightning-node-connect/gbn"

	"verif/harness/gbnrun"
	"verif/harness/trace"
	"verif/harness/vnet"
)

// TestC12Close: Close invoked at many points of a connection's life, by
// either side / both / repeatedly / from several goroutines, with the
// transport working, black-holed or blocking, with Send and Recv blocked.
func TestC12Close(t *testing.T) {
	dir := outDir(t)
	ts := newTraceSet(dir, "c12")
	thorough := os.Getenv("VERIF_TIER") == "thorough"
	// resendStalled: the peer's ACKs vanish, then the client's transport
	// blocks; the resend timer fires and the send loop sits in the write of
	// a retransmitted packet when Close is called
	scenarios := []string{"transfer", "fullwindow", "idle", "lossy", "idleKeepalive", "backlog",
		"resendStalled"}
	whos := []string{"c", "s", "both", "twice", "many"}
	nets := []string{"ok", "blackhole", "fail", "block"}
	times := []int{0, 7, 60, 130, 520, 1010, 1700, 3100}
	if thorough {
		times = nil
		for x := 0; x <= 4000; x += 90 {
			times = append(times, x)
		}
	}
	idx := 0
	for _, sc := range scenarios {
		for _, who := range whos {
			for _, nt := range nets {
				for _, at := range times {
					idx++
					if sc == "resendStalled" {
						if !(nt == "block" && at == 130 && (who == "c" || who == "twice")) {
							continue
						}
					} else if nt == "block" {
						// a second Close caller waits on a
						// sync.Once mutex while the first sits out
						// the FIN timeout; mutex waits are not
						// durable in a synctest bubble, so these
						// scenarios run in real time and there
						// are only a few of them
						if !(at == 130 && (sc == "transfer" || (thorough && sc == "fullwindow")) &&
							(who == "c" || who == "many" || (thorough && who == "both"))) {
							continue
						}
					} else if !thorough && (idx+int(seed()))%4 != 0 {
						continue
					}
					sc, who, nt, at := sc, who, nt, at
					desc := map[string]any{"scenario": sc, "who": who,
						"net": nt, "atMs": at, "i": idx}
					noteCurrent(dir, desc)
					cfg := gbnrun.Config{
						N:           2,
						Static:      time.Second,
						Msgs:        [2]int{6, 4},
						Latency:     40 * time.Millisecond,
						Horizon:     3 * time.Minute,
						RecvForever: true,
						CloseScript: func(r *gbnrun.Run) {},
					}
					switch sc {
					case "fullwindow", "resendStalled":
						cfg.Msgs = [2]int{8, 0}
					case "backlog":
						// the server application never reads: its
						// receive loop ends up holding a payload
						// it cannot hand over
						cfg.Msgs = [2]int{7, 0}
						cfg.NoRecv = [2]bool{false, true}
					case "idle":
						cfg.Msgs = [2]int{0, 0}
					case "idleKeepalive":
						cfg.Msgs = [2]int{0, 0}
						cfg.Ping = [2]time.Duration{700 * time.Millisecond, 500 * time.Millisecond}
						cfg.Pong = [2]time.Duration{300 * time.Millisecond, 300 * time.Millisecond}
					case "lossy":
						r := rng(int64(idx))
						cfg.Decide = func(from string, i int, pkt []byte, now time.Duration) vnet.Fate {
							if r.Intn(3) == 0 {
								return vnet.Fate{Copies: 0}
							}
							return vnet.Fate{Copies: 1}
						}
					}
					cfg.OnReady = func(r *gbnrun.Run) {
						if sc == "fullwindow" || sc == "resendStalled" {
							// the server's ACKs vanish: the client's
							// window fills and its Send blocks
							r.Net.Silence("s", true)
						}
						time.Sleep(time.Duration(at) * time.Millisecond)
						r.Quiesce()
						switch nt {
						case "fail":
							r.Net.Fail("c", true)
							r.Net.Fail("s", true)
						case "blackhole":
							r.Net.Silence("c", true)
							r.Net.Silence("s", true)
						case "block":
							r.Net.Block("c", true)
							r.Net.Block("s", true)
						}
						if sc == "resendStalled" {
							// past the resend timeout: the send loop is
							// now stuck in the write of a resent packet
							time.Sleep(1600 * time.Millisecond)
						}
						r.Rec.Emit("netAtClose", "net", nt)
						r.NoteBlocked("c")
						r.NoteBlocked("s")
						var cw sync.WaitGroup
						closer := func(ep, tag string) {
							cw.Add(1)
							go func() {
								defer cw.Done()
								r.Close(ep, tag)
							}()
						}
						first := "c"
						switch who {
						case "c":
							closer("c", "a")
						case "s":
							closer("s", "a")
							first = "s"
						case "both":
							closer("c", "a")
							closer("s", "a")
						case "twice":
							closer("c", "a")
							cw.Wait()
							closer("c", "b")
						case "many":
							closer("c", "a")
							closer("c", "b")
							closer("c", "c")
						}
						cw.Wait()
						r.PostCalls(first)
						// give the peer time to learn (FIN or
						// keepalive), then close it too
						if nt == "block" {
							time.Sleep(300 * time.Millisecond)
						} else {
							time.Sleep(6 * time.Second)
						}
						r.Quiesce()
						r.NoteBlocked("c")
						r.NoteBlocked("s")
						peer := map[string]string{"c": "s", "s": "c"}[first]
						// an application that never reads exerts
						// back-pressure: its receive loop cannot get
						// to the FIN, which is outside the property
						if !(sc == "backlog" && peer == "s") {
							r.Rec.Emit("peerCheck", "ep", peer)
						}
						for _, ep := range []string{"c", "s"} {
							closer(ep, "z")
						}
						cw.Wait()
					}
					var run *gbnrun.Run
					if nt == "block" {
						cfg.RealTime = true
						run = gbnrun.Execute(cfg)
					} else {
						synctest.Test(t, func(t *testing.T) {
							run = gbnrun.Execute(cfg)
						})
					}
					ts.add("all", run.Rec.Events(), desc, true, map[string]any{
						"leaked": len(run.Leaked)})
				}
			}
		}
	}
	// selfClose: nobody calls Close.  One endpoint has keepalive on, the other
	// none; at some instant the packets of the other endpoint stop arriving
	// (its own transport keeps taking them), so the keepalive endpoint closes
	// the connection itself - from inside its send loop - while its transport
	// towards the peer still works: the peer must be told by a FIN and its
	// blocked calls must fail instead of hanging.
	for _, who := range []string{"c", "s"} {
		for _, at := range []int{0, 130, 1010, 1700} {
			for _, msgs := range [][2]int{{0, 0}, {6, 4}} {
				idx++
				if !thorough && (idx+int(seed()))%2 != 0 && !(at == 130 && msgs[0] == 0) {
					continue
				}
				who, at, msgs := who, at, msgs
				peer := map[string]string{"c": "s", "s": "c"}[who]
				desc := map[string]any{"scenario": "selfClose", "who": who, "net": "peer silent",
					"atMs": at, "msgs": msgs[0], "i": idx}
				noteCurrent(dir, desc)
				cfg := gbnrun.Config{
					N:           2,
					Static:      time.Second,
					Msgs:        msgs,
					Latency:     40 * time.Millisecond,
					Horizon:     3 * time.Minute,
					RecvForever: true,
					CloseScript: func(r *gbnrun.Run) {},
				}
				wi := map[string]int{"c": 0, "s": 1}[who]
				cfg.Ping[wi] = 700 * time.Millisecond
				cfg.Pong[wi] = 300 * time.Millisecond
				cfg.OnReady = func(r *gbnrun.Run) {
					time.Sleep(time.Duration(at) * time.Millisecond)
					r.Net.Silence(peer, true)
					// ping + pong + resends, with room to spare
					time.Sleep(12 * time.Second)
					r.Quiesce()
					r.NoteBlocked("c")
					r.NoteBlocked("s")
					r.Rec.Emit("selfClosed", "ep", who)
					r.Rec.Emit("peerCheck", "ep", peer)
					var cw sync.WaitGroup
					for _, ep := range []string{"c", "s"} {
						ep := ep
						cw.Add(1)
						go func() {
							defer cw.Done()
							r.Close(ep, "z")
						}()
					}
					cw.Wait()
				}
				var run *gbnrun.Run
				synctest.Test(t, func(t *testing.T) {
					run = gbnrun.Execute(cfg)
				})
				ts.add("all", run.Rec.Events(), desc, true, map[string]any{
					"leaked": len(run.Leaked)})
			}
		}
	}
	// A connection attempt abandoned during its handshake (the peer never
	// answers, the caller cancels the context): the constructor returns an
	// error and nothing of it stays behind.  Real time, one at a time (the
	// inventory is by package, and a leaked goroutine would wedge a bubble).
	for _, role := range []string{"c", "s"} {
		for _, at := range []int{60, 700} {
			desc := map[string]any{"scenario": "abortHandshake", "who": role, "net": "silent", "atMs": at}
			noteCurrent(dir, desc)
			rec := trace.New()
			ctx, cancel := context.WithCancel(context.Background())
			recv := func(c context.Context) ([]byte, error) {
				<-c.Done()
				time.Sleep(50 * time.Millisecond) // the transport reports the cancellation late
				return nil, c.Err()
			}
			send := func(c context.Context, b []byte) error { return nil }
			done := make(chan error, 1)
			go func() {
				var err error
				var conn *gbn.GoBackNConn
				opt := gbn.WithTimeoutOptions(gbn.WithHandshakeTimeout(200 * time.Millisecond))
				if role == "c" {
					conn, err = gbn.NewClientConn(ctx, 2, send, recv, opt)
				} else {
					conn, err = gbn.NewServerConn(ctx, send, recv, opt)
				}
				if err == nil && conn != nil {
					// the server constructor may hand back a connection
					// whose context is already done: close it
					conn.Close()
				}
				done <- err
			}()
			time.Sleep(time.Duration(at) * time.Millisecond)
			cancel()
			t0 := time.Now()
			stuck, ret, es := 0, 0, ""
			select {
			case err := <-done:
				ret = int(time.Since(t0) / time.Millisecond)
				if err != nil {
					es = err.Error()
				}
			case <-time.After(10 * time.Second):
				stuck = 1
			}
			time.Sleep(1500 * time.Millisecond)
			leaked := gbnrun.Goroutines("lightning-node-connect/gbn")
			names := []string{}
			for _, g := range leaked {
				names = append(names, gbnrun.LeakName(g))
			}
			rec.Emit("abortInventory", "role", role, "atMs", at, "err", es, "retMs", ret,
				"stuck", stuck, "leaked", len(leaked), "names", names)
			ts.add("abort", rec.Events(), desc, true, map[string]any{"leaked": len(leaked)})
		}
	}
	// A connection attempt whose handshake fails on its own (the transport
	// refuses the re-sent SYN / the reply to a second SYN) while the caller's
	// context stays alive: the constructor returns the error and nothing of
	// the attempt stays behind - in particular not the reader blocked in the
	// transport's receive call.
	for _, role := range []string{"c", "s"} {
		desc := map[string]any{"scenario": "failHandshake", "who": role, "net": "send fails on the second packet"}
		noteCurrent(dir, desc)
		rec := trace.New()
		ctx, cancel := context.WithCancel(context.Background())
		in := make(chan []byte, 4)
		if role == "s" {
			// a client's SYN now, the same again while the server waits for
			// the SYNACK after its handshake timeout
			in <- []byte{gbn.SYN, 2}
			go func() {
				time.Sleep(300 * time.Millisecond)
				in <- []byte{gbn.SYN, 2}
			}()
		}
		recv := func(c context.Context) ([]byte, error) {
			select {
			case b := <-in:
				return b, nil
			case <-c.Done():
				return nil, c.Err()
			}
		}
		var sends atomic.Int32
		send := func(c context.Context, b []byte) error {
			if sends.Add(1) >= 2 {
				return errors.New("transport: send failed")
			}
			return nil
		}
		done := make(chan error, 1)
		t0 := time.Now()
		go func() {
			var err error
			var conn *gbn.GoBackNConn
			opt := gbn.WithTimeoutOptions(gbn.WithHandshakeTimeout(200 * time.Millisecond))
			if role == "c" {
				conn, err = gbn.NewClientConn(ctx, 2, send, recv, opt)
			} else {
				conn, err = gbn.NewServerConn(ctx, send, recv, opt)
			}
			if err == nil && conn != nil {
				conn.Close()
			}
			done <- err
		}()
		stuck, ret, es := 0, 0, ""
		select {
		case err := <-done:
			ret = int(time.Since(t0) / time.Millisecond)
			if err != nil {
				es = err.Error()
			}
		case <-time.After(10 * time.Second):
			stuck = 1
		}
		time.Sleep(1500 * time.Millisecond)
		leaked := gbnrun.Goroutines("lightning-node-connect/gbn")
		names := []string{}
		for _, g := range leaked {
			names = append(names, gbnrun.LeakName(g))
		}
		rec.Emit("abortInventory", "role", role, "atMs", 0, "err", es, "retMs", ret,
			"stuck", stuck, "leaked", len(leaked), "names", names)
		ts.add("abort", rec.Events(), desc, true, map[string]any{"leaked": len(leaked)})
		cancel()
		time.Sleep(100 * time.Millisecond)
	}
	ts.close(nil)
	_ = fmt.Sprint
}
