package drivers

import (
	"fmt"
	"os"
	"testing"
	"testing/synctest"
	"time"

	"github.com/lightninglabs/lightning-node-connect/gbn"

	"verif/harness/gbnrun"
	"verif/harness/vnet"
)

// TestC10Handshake: GBN handshakes under every pattern of drop / duplicate
// over the first handshake packets of each direction, with stale packets of
// every type queued in either direction, several client windows and start
// orders; afterwards one message is exchanged each way.
func TestC10Handshake(t *testing.T) {
	dir := outDir(t)
	ts := newTraceSet(dir, "c10")
	thorough := os.Getenv("VERIF_TIER") == "thorough"
	r := rng(1010)
	stales := map[string][]byte{
		"syn7":   {gbn.SYN, 7},
		"synN":   nil, // SYN with the client's own n (filled in below)
		"syn255": {gbn.SYN, 255},
		"synack": {gbn.SYNACK},
		"data":   append([]byte{gbn.DATA, 0, 1, 0}, gbnrun.Payload(9, 8)...),
		"ack":    {gbn.ACK, 0},
		"nack":   {gbn.NACK, 1},
		"fin":    {gbn.FIN},
	}
	staleNames := []string{"syn7", "synN", "syn255", "synack", "data", "ack", "nack", "fin"}
	// fates for the first three packets of each direction: 0 drop, 1 pass, 2 dup
	type pat struct{ c, s [3]int }
	var pats []pat
	for a := 0; a < 27; a++ {
		for b := 0; b < 27; b++ {
			p := pat{[3]int{a % 3, a / 3 % 3, a / 9}, [3]int{b % 3, b / 3 % 3, b / 9}}
			faults := 0
			for i := 0; i < 3; i++ {
				if p.c[i] != 1 {
					faults++
				}
				if p.s[i] != 1 {
					faults++
				}
			}
			if faults <= 3 {
				pats = append(pats, p)
			}
		}
	}
	ns := []uint8{1, 2, 20, 254, 0}
	idx := 0
	lat := 20 * time.Millisecond
	static := time.Second // 0: adaptive timeouts (the handshake timeout is boosted on every resent SYN)
	run := func(n uint8, p pat, staleC, staleS []string, delay [2]time.Duration) {
		idx++
		desc := map[string]any{"n": int(n), "fc": p.c, "fs": p.s, "staleC": staleC,
			"staleS": staleS, "delayMs": [2]int{int(delay[0] / time.Millisecond), int(delay[1] / time.Millisecond)}, "i": idx,
			"latMs": int(lat / time.Millisecond), "staticMs": int(static / time.Millisecond)}
		noteCurrent(dir, desc)
		mk := func(names []string) [][]byte {
			var out [][]byte
			for _, nm := range names {
				if nm == "synN" {
					out = append(out, []byte{gbn.SYN, n})
				} else {
					out = append(out, stales[nm])
				}
			}
			return out
		}
		cfg := gbnrun.Config{
			N: n, Static: static, Latency: lat,
			HsDecide: func(from string, i int, pkt []byte, now time.Duration) vnet.Fate {
				f := p.s
				if from == "c" {
					f = p.c
				}
				if i < 3 {
					return vnet.Fate{Copies: f[i]}
				}
				return vnet.Fate{Copies: 1}
			},
			StaleC: mk(staleC), StaleS: mk(staleS), StartDelay: delay,
			HsProbe: true, HsPatience: 40 * time.Second, Horizon: time.Minute,
			Extra: []gbn.TimeoutOptions{gbn.WithHandshakeTimeout(time.Second)},
		}
		var res *gbnrun.Run
		synctest.Test(t, func(t *testing.T) {
			res = gbnrun.Execute(cfg)
		})
		faulty := len(staleC)+len(staleS) > 0 || p != pat{[3]int{1, 1, 1}, [3]int{1, 1, 1}}
		ts.add(fmt.Sprintf("n%d", n), res.Rec.Events(), desc, faulty,
			map[string]any{"hsErr": res.HsErr})
	}
	clean := pat{[3]int{1, 1, 1}, [3]int{1, 1, 1}}
	// fault patterns without stale packets
	for pi, p := range pats {
		if !thorough && pi%9 != int(seed())%9 && p != clean {
			continue
		}
		run(ns[pi%3], p, nil, nil, [2]time.Duration{})
	}
	// stale prefixes (one and two packets) in either direction
	for _, a := range staleNames {
		run(2, clean, []string{a}, nil, [2]time.Duration{})
		run(2, clean, nil, []string{a}, [2]time.Duration{})
		for _, b := range staleNames {
			if thorough || r.Intn(6) == 0 {
				run(20, clean, nil, []string{a, b}, [2]time.Duration{})
				run(20, clean, []string{a, b}, nil, [2]time.Duration{})
			}
			if thorough || r.Intn(10) == 0 {
				run(1, pats[r.Intn(len(pats))], []string{a}, []string{b}, [2]time.Duration{})
			}
		}
	}
	// in every run: a stale SYN carrying the very window the new client
	// proposes lets the packet behind it through to the data phase (a FIN
	// ends the connection visibly; a DATA packet with sequence number 0 is
	// the open finding recorded for C10)
	for _, b := range []string{"fin", "data", "ack", "synack"} {
		run(20, clean, []string{"synN", b}, nil, [2]time.Duration{})
		run(20, clean, nil, []string{"synN", b}, [2]time.Duration{})
	}
	// client windows and start orders
	for _, n := range ns {
		run(n, clean, nil, nil, [2]time.Duration{})
		run(n, clean, nil, nil, [2]time.Duration{0, 2500 * time.Millisecond})
		run(n, clean, nil, nil, [2]time.Duration{1700 * time.Millisecond, 0})
	}
	// slow loss-free links: the round trip exceeds one, two or three of the
	// (boosted) handshake timeouts, so the client sends two, three or four
	// SYNs before the first answer arrives and gets as many answers; delay
	// alone must not cost it the connection
	for _, l := range []time.Duration{600 * time.Millisecond, 1100 * time.Millisecond,
		1400 * time.Millisecond, 2400 * time.Millisecond} {
		lat = l
		run(2, clean, nil, nil, [2]time.Duration{})
		run(20, clean, nil, nil, [2]time.Duration{0, 300 * time.Millisecond})
		static = 0
		run(2, clean, nil, nil, [2]time.Duration{})
		run(20, clean, nil, nil, [2]time.Duration{0, 300 * time.Millisecond})
		static = time.Second
	}
	lat = 20 * time.Millisecond
	// adaptive timeouts: each side waits for the handshake timeout in force,
	// which grows with every SYN the client has to resend
	static = 0
	for pi, p := range pats {
		if !thorough && pi%5 != int(seed())%5 {
			continue
		}
		if p.c[0] == 0 || p.s[0] == 0 {
			run(ns[pi%3], p, nil, nil, [2]time.Duration{})
		}
	}
	static = time.Second
	ts.close(nil)
}
