package drivers

import (
	"fmt"
	"os"
	"testing"
	"testing/synctest"
	"time"

	"github.com/lightninglabs/lightning-node-connect/gbn"

	"verif/harness/trace"
)

type tmCfg struct {
	static     bool
	initial    int // ms
	hs         int
	mult, freq int
	pct        int
}

func (c tmCfg) key() string {
	s := 0
	if c.static {
		s = 1
	}
	return fmt.Sprintf("s%d_i%d_h%d_m%d_f%d_p%d", s, c.initial, c.hs, c.mult, c.freq, c.pct)
}

func (c tmCfg) opts() []gbn.TimeoutOptions {
	o := []gbn.TimeoutOptions{
		gbn.WithHandshakeTimeout(time.Duration(c.hs) * time.Millisecond),
		gbn.WithResendMultiplier(c.mult),
		gbn.WithTimeoutUpdateFrequency(c.freq),
		gbn.WithBoostPercent(float32(c.pct) / 100),
	}
	if c.static {
		o = append(o, gbn.WithStaticResendTimeout(time.Duration(c.initial)*time.Millisecond))
	}
	return o
}

// TestC20Histories drives real TimeoutManagers through random histories of
// sent / resent / received events under virtual time and logs the getters
// after every event.
func TestC20Histories(t *testing.T) {
	dir := outDir(t)
	ts := newTraceSet(dir, "c20")
	thorough := os.Getenv("VERIF_TIER") == "thorough"
	cfgs := []tmCfg{
		{false, 1000, 1000, 5, 100, 50},
		{false, 1000, 2000, 5, 200, 50}, // the mailbox's options
		{false, 1000, 2000, 1, 2, 25},
		{false, 1000, 700, 3, 1, 50},
		{true, 1000, 1000, 5, 100, 50},
		{true, 300, 2000, 5, 2, 50},
		{true, 6000, 2000, 5, 2, 25},
	}
	nh := 12
	if thorough {
		nh = 400
	}
	for ci, c := range cfgs {
		for h := 0; h < nh; h++ {
			c := c
			r := rng(int64(ci*100000 + h))
			var evs []trace.Event
			synctest.Test(t, func(t *testing.T) {
				tm := gbn.NewTimeOutManager(nil, c.opts()...)
				evs = append(evs, trace.Event{"op": "new"})
				get := func(e trace.Event) trace.Event {
					rc, hc, orig := tm.VerifBoosterState()
					e["rt"] = int(tm.GetResendTimeout() / time.Millisecond)
					e["ht"] = int(tm.GetHandshakeTimeout() / time.Millisecond)
					e["cnt"] = rc
					e["hcnt"] = hc
					e["orig"] = int(orig / time.Millisecond)
					return e
				}
				seqSpace := []int{0, 1, 2, 3, 200, 255}
				n := 20 + r.Intn(60)
				for i := 0; i < n; i++ {
					switch x := r.Intn(100); {
					case x < 30:
						base := int(tm.GetResendTimeout() / time.Millisecond)
						ds := []int{1, 7, 150, 480, base - 1, base, base + 1, 2*base + 3, 999, 1000, 1001, 5000}
						d := ds[r.Intn(len(ds))]
						if d <= 0 {
							d = 1
						}
						time.Sleep(time.Duration(d) * time.Millisecond)
						evs = append(evs, trace.Event{"op": "adv", "d": d})
					case x < 40:
						resent := r.Intn(2)
						tm.Sent(&gbn.PacketSYN{N: 20}, resent == 1)
						evs = append(evs, get(trace.Event{"op": "sent", "k": "SYN", "seq": 0, "resent": resent}))
					case x < 65:
						seq := seqSpace[r.Intn(len(seqSpace))]
						resent := 0
						if r.Intn(3) == 0 {
							resent = 1
						}
						tm.Sent(&gbn.PacketData{Seq: uint8(seq)}, resent == 1)
						evs = append(evs, get(trace.Event{"op": "sent", "k": "DATA", "seq": seq, "resent": resent}))
					case x < 70:
						k := []string{"ACK", "NACK", "FIN", "SYNACK"}[r.Intn(4)]
						var m gbn.Message
						switch k {
						case "ACK":
							m = &gbn.PacketACK{Seq: 1}
						case "NACK":
							m = &gbn.PacketNACK{Seq: 1}
						case "FIN":
							m = &gbn.PacketFIN{}
						default:
							m = &gbn.PacketSYNACK{}
						}
						tm.Sent(m, r.Intn(2) == 1)
						evs = append(evs, get(trace.Event{"op": "sent", "k": k, "seq": 0, "resent": 0}))
					case x < 78:
						k := []string{"SYN", "SYNACK"}[r.Intn(2)]
						if k == "SYN" {
							tm.Received(&gbn.PacketSYN{N: 20})
						} else {
							tm.Received(&gbn.PacketSYNACK{})
						}
						evs = append(evs, get(trace.Event{"op": "recv", "k": k, "seq": 0}))
					case x < 95:
						seq := seqSpace[r.Intn(len(seqSpace))]
						tm.Received(&gbn.PacketACK{Seq: uint8(seq)})
						evs = append(evs, get(trace.Event{"op": "recv", "k": "ACK", "seq": seq}))
					default:
						k := []string{"DATA", "NACK", "FIN"}[r.Intn(3)]
						var m gbn.Message
						switch k {
						case "DATA":
							m = &gbn.PacketData{Seq: 1}
						case "NACK":
							m = &gbn.PacketNACK{Seq: 1}
						default:
							m = &gbn.PacketFIN{}
						}
						tm.Received(m)
						evs = append(evs, get(trace.Event{"op": "recv", "k": k, "seq": 1}))
					}
				}
			})
			ts.add(c.key(), evs, map[string]any{"cfg": c.key(), "h": h}, true, nil)
		}
	}
	ts.close(nil)
}
