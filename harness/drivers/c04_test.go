package drivers

import (
	"bytes"
	"encoding/json"
	"os"
	"path/filepath"
	"sync"
	"testing"
	"time"

	"github.com/btcsuite/btcd/btcec/v2"

	"verif/harness/mitm"
)

// noiseCase mirrors the case record of spec/Noise.tla.
type noiseCase struct {
	Pattern      string `json:"pattern"`
	CMin         int    `json:"cMin"`
	CMax         int    `json:"cMax"`
	SMin         int    `json:"sMin"`
	SMax         int    `json:"sMax"`
	PwEq         bool   `json:"pwEq"`
	IExpect      string `json:"iExpect"`
	RExpect      string `json:"rExpect"`
	Payload      string `json:"payloadClass"` // empty | small | big | large
	VerSub       [3]int `json:"verSub"`
	CorruptAct   int    `json:"corruptAct"`
	CorruptField int    `json:"corruptField"`
	Bit          int    `json:"bit"` // bit inside the field (-1: random)
	PwBit        int    `json:"pwBit"`
	// Imp = 1 (KK): the initiator presents the paired client's public key
	// but computes with a different private key
	Imp int `json:"imp"`
	// Forge (XX, pwEq false): an initiator that does not know the passphrase
	// but chooses its ephemeral scalar (EphScalar: e = EphScalar*G) and puts
	// into the masked-key field of act one either that ephemeral unmasked
	// ("unmasked") or bytes that are no point at all ("zero", "prefix5",
	// "offcurve"): if the responder's view of the remote ephemeral ever
	// falls back to something the attacker can compute, the act-one MAC
	// verifies and the responder answers
	// EntLen: length of the passphrase entropy in bytes (0 = the 14 bytes of
	// a pairing phrase; callers may use longer secrets, e.g. 32-byte
	// hashes); -1: the responder's entropy is the initiator's 13 bytes plus
	// one trailing zero byte
	EntLen    int    `json:"entLen,omitempty"`
	Forge     string `json:"forge,omitempty"`
	EphScalar int    `json:"ephScalar,omitempty"`
}

// notOnCurve returns a 33-byte compressed encoding whose x is not on the curve.
func notOnCurve() []byte {
	b := make([]byte, 33)
	b[0] = 2
	for x := 1; x < 255; x++ {
		b[32] = byte(x)
		if _, err := btcec.ParsePubKey(b); err != nil {
			return b
		}
	}
	return b
}

func payloadOf(class string) []byte {
	switch class {
	case "empty":
		return nil
	case "small":
		return streamOf(40)
	case "p498":
		return streamOf(498)
	case "p499":
		return streamOf(499)
	case "p500":
		return streamOf(500)
	case "p501":
		return streamOf(501)
	case "big":
		return streamOf(600)
	default:
		return streamOf(70000)
	}
}

// field byte ranges [from, to) of an act as written on the wire
func actFields(pattern string, act int, wire []byte) [][2]int {
	n := len(wire)
	switch {
	case pattern == "XX" && act == 1:
		return [][2]int{{1, 34}, {34, n}}
	case pattern == "XX" && act == 2:
		if wire[0] == 0 {
			return [][2]int{{1, 34}, {34, 83}, {83, n}}
		}
		return [][2]int{{1, 34}, {34, 83}, {83, 103}, {103, n}}
	case pattern == "XX" && act == 3:
		return [][2]int{{1, 50}, {50, n}}
	case pattern == "KK" && act == 1:
		return [][2]int{{1, 34}, {34, n}}
	default: // KK act 2
		return [][2]int{{1, 34}, {34, 54}, {54, n}}
	}
}

func runNoiseCase(c noiseCase, salt int64) map[string]any {
	r := rng(salt)
	p := defaultHs()
	p.cMin, p.cMax, p.sMin, p.sMax = byte(c.CMin), byte(c.CMax), byte(c.SMin), byte(c.SMax)
	// the responder's auth data lives in a slice with spare capacity (as one
	// built by append or read from a buffer has); authCopy is what it holds
	// before the handshake
	authCopy := payloadOf(c.Payload)
	p.auth = append(make([]byte, 0, len(authCopy)+64), authCopy...)
	p.cliStale = []byte("auth data of an earlier connection of this session")
	other := newPriv()
	if c.EntLen > 14 {
		ext := make([]byte, c.EntLen)
		copy(ext, p.cliEnt)
		for i := 14; i < c.EntLen; i++ {
			ext[i] = byte(37*i + 11)
		}
		p.cliEnt, p.srvEnt = ext, append([]byte(nil), ext...)
	}
	if c.EntLen == -1 {
		p.cliEnt = append([]byte(nil), p.cliEnt[:13]...)
		p.srvEnt = append(append([]byte(nil), p.cliEnt...), 0)
	} else if !c.PwEq {
		p.srvEnt = append([]byte(nil), p.cliEnt...)
		bit := c.PwBit
		if bit < 0 {
			bit = r.Intn(110)
		}
		if c.EntLen > 14 && c.PwBit < 0 {
			bit = 112 + r.Intn(8*(c.EntLen-14))
		}
		p.srvEnt[bit/8] ^= 1 << uint(7-bit%8)
	}
	if c.Pattern == "KK" {
		pick := func(name string) *btcec.PublicKey {
			switch name {
			case "sR":
				return p.srvKey.PubKey()
			case "sI":
				return p.cliKey.PubKey()
			default:
				return other.PubKey()
			}
		}
		p.cliRemote = pick(c.IExpect)
		p.srvRemote = pick(c.RExpect)
		if c.Imp == 1 {
			p.cliECDH = &impostorKey{pub: p.cliKey.PubKey(), priv: other}
		}
	}
	var forged []byte
	if c.Forge != "" {
		sc := make([]byte, 32)
		sc[31] = byte(c.EphScalar)
		ek, epub := btcec.PrivKeyFromBytes(sc)
		p.cliEphGen = func() (*btcec.PrivateKey, error) { return ek, nil }
		switch c.Forge {
		case "unmasked":
			forged = epub.SerializeCompressed()
		case "zero":
			forged = make([]byte, 33)
		case "prefix5":
			forged = append([]byte{5}, epub.SerializeCompressed()[1:]...)
		default:
			forged = notOnCurve()
		}
	}
	a, b := mitm.NewPair()
	a.ReadTimeout, b.ReadTimeout = 400*time.Millisecond, 400*time.Millisecond
	tamper := func(acts []int) func([]byte) []byte {
		k := 0
		return func(chunk []byte) []byte {
			if k >= len(acts) || len(chunk) == 0 {
				k++
				return chunk
			}
			act := acts[k]
			k++
			out := append([]byte(nil), chunk...)
			if v := c.VerSub[act-1]; v >= 0 {
				out[0] = byte(v)
			}
			if act == 1 && forged != nil && len(out) >= 34 {
				copy(out[1:34], forged)
			}
			if c.CorruptAct == act {
				fs := actFields(c.Pattern, act, chunk)
				if c.CorruptField >= 1 && c.CorruptField <= len(fs) {
					f := fs[c.CorruptField-1]
					nbits := 8 * (f[1] - f[0])
					if nbits > 0 {
						bit := c.Bit
						if bit < 0 || bit >= nbits {
							bit = r.Intn(nbits)
						}
						out[f[0]+bit/8] ^= 1 << uint(bit%8)
					}
				}
			}
			return out
		}
	}
	a.Out.Edit = tamper([]int{1, 3})
	b.Out.Edit = tamper([]int{2})
	res := runMachines(p, a, b)
	o := map[string]any{"op": "case", "case": c}
	if res.newErr != nil {
		o["newErr"] = 1
		return o
	}
	o["newErr"] = 0
	iDone, rDone := res.cErr == nil, res.sErr == nil
	o["iDone"], o["rDone"] = b2i(iDone), b2i(rDone)
	es := func(e error) string {
		if e == nil {
			return ""
		}
		return e.Error()
	}
	o["cErr"], o["sErr"] = es(res.cErr), es(res.sErr)
	o["wrote2"] = b2i(len(b.Out.Wire) > 0)
	o["wrote3"] = b2i(len(a.Out.Wire) > 0 && len(a.Accepted()) >= 2)
	o["respBytes"] = len(b.Out.Wire)
	cs, ss := res.cm.VerifState(), res.sm.VerifState()
	o["iVer"], o["rVer"] = -1, -1
	if iDone {
		o["iVer"] = int(cs.Version)
	}
	if rDone {
		o["rVer"] = int(ss.Version)
	}
	o["keysAgree"] = b2i(iDone && rDone && cs.SendKey == ss.RecvKey && cs.RecvKey == ss.SendKey &&
		cs.SendKey != [32]byte{})
	o["iRsOK"] = b2i(iDone && cs.RemoteStatic != nil && cs.RemoteStatic.IsEqual(p.srvKey.PubKey()))
	o["rRsOK"] = b2i(rDone && ss.RemoteStatic != nil && ss.RemoteStatic.IsEqual(p.cliKey.PubKey()))
	got := res.cd.AuthData()
	// the initiator holds exactly what the responder was configured with,
	// and the responder still holds it too
	o["payloadOK"] = b2i(iDone && bytes.Equal(got, authCopy) &&
		(!rDone || bytes.Equal(res.sd.AuthData(), authCopy)))
	// what was published to the connection data (it held the auth data of
	// an earlier connection before)
	o["iAuthLen"] = len(got)
	if bytes.Equal(got, p.cliStale) {
		o["iAuthLen"] = 0
	}
	name := func(k *btcec.PublicKey) string {
		switch {
		case k == nil:
			return "none"
		case k.IsEqual(p.srvKey.PubKey()):
			return "sR"
		case k.IsEqual(p.cliKey.PubKey()):
			return "sI"
		default:
			return "other"
		}
	}
	o["iRemote"] = name(res.cd.RemoteKey())
	o["rRemote"] = name(res.sd.RemoteKey())
	return o
}

// TestNoiseCases executes handshake cases (the case space of spec/Noise.tla)
// on the real Machines with a man in the middle and logs the observable
// outcome of each.
func TestNoiseCases(t *testing.T) {
	dir := outDir(t)
	thorough := os.Getenv("VERIF_TIER") == "thorough"
	r := rng(404)
	var cases []noiseCase
	ranges := [][2]int{{0, 0}, {0, 1}, {0, 2}, {1, 1}, {1, 2}, {2, 2}}
	payloads := []string{"empty", "small", "big"}
	add := func(c noiseCase) { cases = append(cases, c) }
	keep := func(p float64) bool { return thorough || r.Float64() < p }
	for _, cr := range ranges {
		for _, sr := range ranges {
			for _, pl := range payloads {
				base := noiseCase{Pattern: "XX", CMin: cr[0], CMax: cr[1], SMin: sr[0], SMax: sr[1],
					PwEq: true, IExpect: "none", RExpect: "none", Payload: pl,
					VerSub: [3]int{-1, -1, -1}, CorruptField: 1, Bit: -1, PwBit: -1}
				if keep(0.5) {
					add(base)
				}
				if keep(0.2) {
					c := base
					c.PwEq = false
					add(c)
				}
				// every combination of version-byte substitutions
				for v1 := -1; v1 <= 3; v1++ {
					for v2 := -1; v2 <= 3; v2++ {
						for v3 := -1; v3 <= 3; v3++ {
							if v1 == -1 && v2 == -1 && v3 == -1 {
								continue
							}
							if !keep(0.012) && !(v2 >= 1 && v2 <= 2 && v3 >= 1 && v3 <= 2 && keep(0.12)) {
								continue
							}
							c := base
							c.VerSub = [3]int{v1, v2, v3}
							add(c)
						}
					}
				}
				// one corrupted field
				for ca := 1; ca <= 3; ca++ {
					for cf := 1; cf <= 4; cf++ {
						if !keep(0.06) {
							continue
						}
						c := base
						c.CorruptAct, c.CorruptField = ca, cf
						add(c)
					}
				}
				// KK
				for _, ie := range []string{"sR", "sX"} {
					for _, re := range []string{"sI", "sX"} {
						kb := base
						kb.Pattern, kb.IExpect, kb.RExpect = "KK", ie, re
						if keep(0.15) {
							add(kb)
						}
						for v1 := -1; v1 <= 3; v1++ {
							for v2 := -1; v2 <= 3; v2++ {
								if (v1 == -1 && v2 == -1) || !keep(0.01) {
									continue
								}
								c := kb
								c.VerSub = [3]int{v1, v2, -1}
								add(c)
							}
						}
						for ca := 1; ca <= 2; ca++ {
							for cf := 1; cf <= 3; cf++ {
								if keep(0.03) {
									c := kb
									c.CorruptAct, c.CorruptField = ca, cf
									add(c)
								}
							}
						}
					}
				}
			}
		}
	}
	// secrets longer than a pairing phrase's 14 bytes that differ only beyond
	// them, or only by a trailing zero byte (every tier, in full)
	for _, el := range []int{15, 16, 32} {
		for _, bit := range []int{112, 119, 8*el - 1, -1} {
			if bit >= 8*el {
				continue
			}
			add(noiseCase{Pattern: "XX", CMin: 0, CMax: 2, SMin: 0, SMax: 2, PwEq: false,
				IExpect: "none", RExpect: "none", Payload: "small",
				VerSub: [3]int{-1, -1, -1}, CorruptField: 1, Bit: -1, PwBit: bit, EntLen: el})
		}
		add(noiseCase{Pattern: "XX", CMin: 0, CMax: 2, SMin: 0, SMax: 2, PwEq: true,
			IExpect: "none", RExpect: "none", Payload: "small",
			VerSub: [3]int{-1, -1, -1}, CorruptField: 1, Bit: -1, PwBit: -1, EntLen: el})
	}
	add(noiseCase{Pattern: "XX", CMin: 0, CMax: 2, SMin: 0, SMax: 2, PwEq: false,
		IExpect: "none", RExpect: "none", Payload: "small",
		VerSub: [3]int{-1, -1, -1}, CorruptField: 1, Bit: -1, PwBit: -1, EntLen: -1})
	// an initiator without the passphrase that forges act one around an
	// ephemeral of its own choosing (every tier, in full)
	for _, fg := range []string{"unmasked", "zero", "prefix5", "offcurve"} {
		for _, sc := range []int{1, 2, 3} {
			for _, vr := range [][2]int{{0, 2}, {0, 0}, {2, 2}} {
				add(noiseCase{Pattern: "XX", CMin: vr[0], CMax: vr[1], SMin: 0, SMax: 2, PwEq: false,
					IExpect: "none", RExpect: "none", Payload: "small",
					VerSub: [3]int{-1, -1, -1}, CorruptField: 1, Bit: -1, PwBit: -1,
					Forge: fg, EphScalar: sc})
			}
		}
	}
	// the core every tier runs in full: the default version ranges and the
	// expected peers, with every combination of version-byte rewrites on the
	// acts of the pattern (XX three acts, KK two)
	for _, pl := range []string{"small"} {
		for v1 := -1; v1 <= 3; v1++ {
			for v2 := -1; v2 <= 3; v2++ {
				for v3 := -1; v3 <= 3; v3++ {
					add(noiseCase{Pattern: "XX", CMin: 0, CMax: 2, SMin: 0, SMax: 2, PwEq: true,
						IExpect: "none", RExpect: "none", Payload: pl,
						VerSub: [3]int{v1, v2, v3}, CorruptField: 1, Bit: -1, PwBit: -1})
				}
				add(noiseCase{Pattern: "KK", CMin: 0, CMax: 2, SMin: 0, SMax: 2, PwEq: true,
					IExpect: "sR", RExpect: "sI", Payload: pl,
					VerSub: [3]int{v1, v2, -1}, CorruptField: 1, Bit: -1, PwBit: -1})
			}
		}
	}
	// KK with an impostor: every key expectation is right, the initiator just
	// does not hold the private key of the public key it presents
	for _, vs := range [][3]int{{-1, -1, -1}, {2, 2, -1}, {-1, 1, -1}} {
		for _, pl := range payloads {
			add(noiseCase{Pattern: "KK", CMin: 0, CMax: 2, SMin: 0, SMax: 2, PwEq: true,
				IExpect: "sR", RExpect: "sI", Payload: pl, VerSub: vs, CorruptField: 1,
				Bit: -1, PwBit: -1, Imp: 1})
		}
	}
	// passphrases differing in every single bit of the 110 significant bits
	for bit := 0; bit < 110; bit++ {
		if thorough || bit%6 == int(seed())%6 {
			add(noiseCase{Pattern: "XX", CMin: 0, CMax: 2, SMin: 0, SMax: 2, PwEq: false,
				IExpect: "none", RExpect: "none", Payload: "small", VerSub: [3]int{-1, -1, -1},
				CorruptField: 1, Bit: -1, PwBit: bit})
		}
	}
	// payload sizes at the v0 boundary and beyond
	for _, pl := range []string{"p498", "p499", "p500", "p501", "large"} {
		for _, v := range [][2]int{{0, 0}, {1, 1}, {0, 2}} {
			if pl == "large" && v[1] == 0 {
				continue
			}
			add(noiseCase{Pattern: "XX", CMin: v[0], CMax: v[1], SMin: v[0], SMax: v[1], PwEq: true,
				IExpect: "none", RExpect: "none", Payload: pl, VerSub: [3]int{-1, -1, -1},
				CorruptField: 1, Bit: -1, PwBit: -1})
		}
	}
	// every single-bit flip of every handshake byte (thorough), a stride in
	// the quick tier, for one configuration per pattern
	for _, pat := range []string{"XX", "KK"} {
		acts := 3
		if pat == "KK" {
			acts = 2
		}
		for act := 1; act <= acts; act++ {
			for cf := 1; cf <= 4; cf++ {
				for bit := 0; bit < 8*120; bit++ {
					if !thorough && bit%97 != int(seed())%97 {
						continue
					}
					c := noiseCase{Pattern: pat, CMin: 0, CMax: 2, SMin: 0, SMax: 2, PwEq: true,
						IExpect: "sR", RExpect: "sI", Payload: "small", VerSub: [3]int{-1, -1, -1},
						CorruptAct: act, CorruptField: cf, Bit: bit, PwBit: -1}
					if pat == "XX" {
						c.IExpect, c.RExpect = "none", "none"
					}
					add(c)
				}
			}
		}
	}
	results := make([]map[string]any, len(cases))
	var wg sync.WaitGroup
	sem := make(chan struct{}, 16)
	for i := range cases {
		wg.Add(1)
		sem <- struct{}{}
		go func(i int) {
			defer wg.Done()
			defer func() { <-sem }()
			results[i] = runNoiseCase(cases[i], int64(i))
		}(i)
	}
	wg.Wait()
	f, err := os.Create(filepath.Join(dir, "noise.ndjson"))
	if err != nil {
		t.Fatal(err)
	}
	defer f.Close()
	enc := json.NewEncoder(f)
	for _, o := range results {
		enc.Encode(o)
	}
}
