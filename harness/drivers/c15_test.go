package drivers

import (
	"bytes"
	"time"
	"context"
	"encoding/json"
	"errors"
	"io"
	"os"
	"path/filepath"
	"testing"

	"github.com/lightninglabs/lightning-node-connect/mailbox"

	"verif/harness/mitm"
)

// streamOf returns the deterministic application byte stream of length n.
func streamOf(n int) []byte {
	b := make([]byte, n)
	x := uint32(2463534242)
	for i := range b {
		x ^= x << 13
		x ^= x >> 17
		x ^= x << 5
		b[i] = byte(x >> 8)
	}
	return b
}

type rw interface {
	io.Reader
	io.Writer
}

// securedPair returns a connected (writer side, reader side) pair of secured
// connections of the given kind: "grpc" (NoiseGrpcConn over a real connKit),
// "tcp" (NoiseConn over a byte pipe), "kit" (plain connKit).
func securedPair(t *testing.T, kind string) (rw, rw) {
	switch kind {
	case "kit":
		a, b := newKitPair()
		return a, b
	case "grpc":
		a, b := newKitPair()
		p := defaultHs()
		cd := mailbox.NewConnData(ecdhKey(p.cliKey), nil, p.cliEnt, nil, nil, nil)
		sd := mailbox.NewConnData(ecdhKey(p.srvKey), nil, p.srvEnt, p.auth, nil, nil)
		cn, sn := mailbox.NewNoiseGrpcConn(cd), mailbox.NewNoiseGrpcConn(sd)
		done := make(chan error, 1)
		go func() {
			_, _, err := sn.ServerHandshake(b)
			done <- err
		}()
		if _, _, err := cn.ClientHandshake(context.Background(), "", a); err != nil {
			t.Fatalf("client handshake: %v", err)
		}
		if err := <-done; err != nil {
			t.Fatalf("server handshake: %v", err)
		}
		return cn, sn
	default: // tcp
		a, b := mitm.NewPair()
		res := runMachines(defaultHs(), a, b)
		if res.newErr != nil || res.cErr != nil || res.sErr != nil {
			t.Fatalf("handshake: %v %v %v", res.newErr, res.cErr, res.sErr)
		}
		return mailbox.NewVerifNoiseConn(a, res.cm), mailbox.NewVerifNoiseConn(b, res.sm)
	}
}

// TestC15Stream: sequences of writes and of read-buffer sizes through the
// three secured connection types; every Read and Write is logged.
func TestC15Stream(t *testing.T) {
	dir := outDir(t)
	f, err := os.Create(filepath.Join(dir, "c15.ndjson"))
	if err != nil {
		t.Fatal(err)
	}
	defer f.Close()
	enc := json.NewEncoder(f)
	thorough := os.Getenv("VERIF_TIER") == "thorough"
	r := rng(1515)
	const G, M = 32768, 65535
	wsizes := []int{1, 2, 17, 1000, G - 1, G, G + 1, 40000, M - 1, M}
	bsizes := []int{1, 2, 3, 16, 17, 100, 4096, G - 1, G, G + 1, M, M + 10, 100000}
	nscen := 24
	if thorough {
		nscen = 400
	}
	scen := 0
	for _, kind := range []string{"grpc", "tcp", "kit"} {
		for s := 0; s < nscen; s++ {
			scen++
			nw := 1 + r.Intn(4)
			var ws []int
			for i := 0; i < nw; i++ {
				switch r.Intn(4) {
				case 0:
					ws = append(ws, 1+r.Intn(300))
				default:
					ws = append(ws, wsizes[r.Intn(len(wsizes))])
				}
			}
			if kind == "grpc" && s%6 == 0 {
				ws = append(ws, 0) // zero-length write (gRPC variant's range)
				ws = append(ws, 5)
			}
			if kind == "tcp" && s%5 == 0 {
				ws = append(ws, M+1+r.Intn(70000)) // chunked transparently
			}
			if kind == "grpc" && s%7 == 0 {
				ws = append(ws, M+1) // must be rejected, not truncated
				ws = append(ws, 9)
			}
			var bs []int
			nb := 1 + r.Intn(4)
			for i := 0; i < nb; i++ {
				if r.Intn(3) == 0 {
					bs = append(bs, 1+r.Intn(50))
				} else {
					bs = append(bs, bsizes[r.Intn(len(bsizes))])
				}
			}
			// keep the number of Read calls bounded: tiny buffers only
			// alternate with a larger one
			big := false
			for _, b := range bs {
				big = big || b >= 100
			}
			if !big {
				bs = append(bs, 4096)
			}
			w, rd := securedPair(t, kind)
			enc.Encode(map[string]any{"op": "new", "conn": kind, "scen": scen, "ws": ws, "bs": bs})
			// writes (sequentially, the pipes are unbounded)
			total := 0
			for _, sz := range ws {
				total += sz
			}
			stream := streamOf(total)
			wrPos := 0
			for _, sz := range ws {
				n, err := w.Write(stream[wrPos : wrPos+sz])
				es := ""
				if err != nil {
					es = "err"
					if errors.Is(err, mailbox.ErrMaxMessageLengthExceeded) {
						es = "toolong"
					}
				}
				enc.Encode(map[string]any{"op": "write", "conn": kind, "len": sz, "n": n, "err": es})
				if err == nil {
					wrPos += sz
				} else {
					// the rejected bytes are not part of the stream
					stream = append(stream[:wrPos], stream[wrPos+sz:]...)
				}
			}
			// reads until everything written has been claimed
			rdPos, i := 0, 0
			for rdPos < wrPos && i < 1000000 {
				bl := bs[i%len(bs)]
				i++
				buf := make([]byte, bl)
				// a Read that blocks although unread bytes were written
				// means bytes were lost inside the connection
				type rres struct {
					n   int
					err error
				}
				rc := make(chan rres, 1)
				go func() {
					n, err := rd.Read(buf)
					rc <- rres{n, err}
				}()
				var n int
				var err error
				select {
				case x := <-rc:
					n, err = x.n, x.err
				case <-time.After(4 * time.Second):
					n, err = 0, errors.New("blocked: Read does not return although written bytes are unread")
					if c, ok := rd.(io.Closer); ok {
						c.Close()
					}
				}
				match := 1
				k := n
				if k > bl {
					k = bl
				}
				if rdPos+n > wrPos || n < 0 || !bytes.Equal(buf[:k], stream[rdPos:rdPos+k]) {
					match = 0
				}
				es := ""
				if err != nil {
					es = err.Error()
				}
				enc.Encode(map[string]any{"op": "read", "conn": kind, "buf": bl, "n": n,
					"err": es, "match": match, "avail": wrPos - rdPos})
				if err != nil {
					break
				}
				rdPos += n
			}
			enc.Encode(map[string]any{"op": "end", "conn": kind, "written": wrPos, "read": rdPos})
		}
	}
}
