package drivers

import (
	"bytes"
	"context"
	"encoding/json"
	"errors"
	"io"
	"os"
	"path/filepath"
	"testing"
	"time"

	"github.com/lightninglabs/lightning-node-connect/mailbox"

	"verif/harness/mitm"
)

// streamOf returns the deterministic application byte stream of length n.
func streamOf(n int) []byte {
	b := make([]byte, n)
	x := uint32(2463534242)
	for i := range b {
		x ^= x << 13
		x ^= x >> 17
		x ^= x << 5
		b[i] = byte(x >> 8)
	}
	return b
}

type rw interface {
	io.Reader
	io.Writer
}

// securedPair returns a connected (writer side, reader side) pair of secured
// connections of the given kind: "grpc" (NoiseGrpcConn over a real connKit),
// "tcp" (NoiseConn over a byte pipe), "kit" (plain connKit).
func securedPair(t *testing.T, kind string) (rw, rw) {
	switch kind {
	case "kit":
		a, b := newKitPair()
		return a, b
	case "grpc":
		a, b := newKitPair()
		p := defaultHs()
		cd := mailbox.NewConnData(ecdhKey(p.cliKey), nil, p.cliEnt, nil, nil, nil)
		sd := mailbox.NewConnData(ecdhKey(p.srvKey), nil, p.srvEnt, p.auth, nil, nil)
		cn, sn := mailbox.NewNoiseGrpcConn(cd), mailbox.NewNoiseGrpcConn(sd)
		done := make(chan error, 1)
		go func() {
			_, _, err := sn.ServerHandshake(b)
			done <- err
		}()
		if _, _, err := cn.ClientHandshake(context.Background(), "", a); err != nil {
			t.Fatalf("client handshake: %v", err)
		}
		if err := <-done; err != nil {
			t.Fatalf("server handshake: %v", err)
		}
		return cn, sn
	default: // tcp
		a, b := mitm.NewPair()
		res := runMachines(defaultHs(), a, b)
		if res.newErr != nil || res.cErr != nil || res.sErr != nil {
			t.Fatalf("handshake: %v %v %v", res.newErr, res.cErr, res.sErr)
		}
		return mailbox.NewVerifNoiseConn(a, res.cm), mailbox.NewVerifNoiseConn(b, res.sm)
	}
}

// TestC15Stream: sequences of writes and of read-buffer sizes through the
// three secured connection types; every Read and Write is logged.
func TestC15Stream(t *testing.T) {
	dir := outDir(t)
	f, err := os.Create(filepath.Join(dir, "c15.ndjson"))
	if err != nil {
		t.Fatal(err)
	}
	defer f.Close()
	enc := json.NewEncoder(f)
	thorough := os.Getenv("VERIF_TIER") == "thorough"
	r := rng(1515)
	const G, M = 32768, 65535
	wsizes := []int{1, 2, 17, 1000, G - 1, G, G + 1, 40000, M - 1, M}
	bsizes := []int{1, 2, 3, 16, 17, 100, 4096, G - 1, G, G + 1, M, M + 10, 100000}
	nscen := 24
	if thorough {
		nscen = 400
	}
	scen := 0
	for _, kind := range []string{"grpc", "tcp", "kit"} {
		for s := 0; s < nscen; s++ {
			scen++
			nw := 1 + r.Intn(4)
			var ws []int
			for i := 0; i < nw; i++ {
				switch r.Intn(4) {
				case 0:
					ws = append(ws, 1+r.Intn(300))
				default:
					ws = append(ws, wsizes[r.Intn(len(wsizes))])
				}
			}
			if kind == "grpc" && s%6 == 0 {
				ws = append(ws, 0) // zero-length write (gRPC variant's range)
				ws = append(ws, 5)
			}
			if kind != "grpc" && s%4 == 1 {
				// zero-length writes: "any sequence of writes"; the
				// bytes that follow must still arrive, once
				ws = append(ws, 0)
				ws = append(ws, 5)
				if s%8 == 1 {
					ws = append(ws, 0, 0, 7)
				}
			}
			if kind == "tcp" && s%5 == 0 {
				ws = append(ws, M+1+r.Intn(70000)) // chunked transparently
			}
			if kind == "grpc" && s%7 == 0 {
				ws = append(ws, M+1) // must be rejected, not truncated
				ws = append(ws, 9)
			}
			var bs []int
			nb := 1 + r.Intn(4)
			for i := 0; i < nb; i++ {
				if r.Intn(3) == 0 {
					bs = append(bs, 1+r.Intn(50))
				} else {
					bs = append(bs, bsizes[r.Intn(len(bsizes))])
				}
			}
			// keep the number of Read calls bounded: tiny buffers only
			// alternate with a larger one
			big := false
			for _, b := range bs {
				big = big || b >= 100
			}
			if !big {
				bs = append(bs, 4096)
			}
			w, rd := securedPair(t, kind)
			enc.Encode(map[string]any{"op": "new", "conn": kind, "scen": scen, "ws": ws, "bs": bs})
			// writes (sequentially, the pipes are unbounded)
			total := 0
			for _, sz := range ws {
				total += sz
			}
			stream := streamOf(total)
			wrPos := 0
			for _, sz := range ws {
				n, err := w.Write(stream[wrPos : wrPos+sz])
				es := ""
				if err != nil {
					es = "err"
					if errors.Is(err, mailbox.ErrMaxMessageLengthExceeded) {
						es = "toolong"
					}
				}
				enc.Encode(map[string]any{"op": "write", "conn": kind, "len": sz, "n": n, "err": es})
				if err == nil {
					wrPos += sz
				} else {
					// the rejected bytes are not part of the stream
					stream = append(stream[:wrPos], stream[wrPos+sz:]...)
				}
			}
			// reads until everything written has been claimed
			rdPos, i := 0, 0
			for rdPos < wrPos && i < 1000000 {
				bl := bs[i%len(bs)]
				i++
				buf := make([]byte, bl)
				// a Read that blocks although unread bytes were written
				// means bytes were lost inside the connection
				type rres struct {
					n   int
					err error
				}
				rc := make(chan rres, 1)
				go func() {
					n, err := rd.Read(buf)
					rc <- rres{n, err}
				}()
				var n int
				var err error
				select {
				case x := <-rc:
					n, err = x.n, x.err
				case <-time.After(4 * time.Second):
					n, err = 0, errors.New("blocked: Read does not return although written bytes are unread")
					if c, ok := rd.(io.Closer); ok {
						c.Close()
					}
				}
				match := 1
				k := n
				if k > bl {
					k = bl
				}
				if rdPos+n > wrPos || n < 0 || !bytes.Equal(buf[:k], stream[rdPos:rdPos+k]) {
					match = 0
				}
				es := ""
				if err != nil {
					es = err.Error()
				}
				enc.Encode(map[string]any{"op": "read", "conn": kind, "buf": bl, "n": n,
					"err": es, "match": match, "avail": wrPos - rdPos})
				if err != nil {
					break
				}
				rdPos += n
			}
			enc.Encode(map[string]any{"op": "end", "conn": kind, "written": wrPos, "read": rdPos})
		}
	}
}

// TestC15WriteTimeout: a write deadline expires part-way through a record of
// the TCP variant (NoiseConn).  The caller then does what a net.Conn caller
// does - it writes the part that was not reported as written - and, if that
// is refused because the record is still pending, resumes with Flush.  The
// reader must see every byte exactly once.
func TestC15WriteTimeout(t *testing.T) {
	dir := outDir(t)
	f, err := os.Create(filepath.Join(dir, "c15wt.ndjson"))
	if err != nil {
		t.Fatal(err)
	}
	defer f.Close()
	enc := json.NewEncoder(f)
	const M = 65535
	type wt struct{ size, cut int }
	var cases []wt
	for _, sz := range []int{1, 300, 5000, M, M + 1, 70000, 2*M + 10} {
		for _, cut := range []int{0, 1, 17, 18, 19, 18 + sz/2, 18 + sz + 15, M + 34 + 5, M + 34 + 18 + 700} {
			if cut < sz+34+((sz-1)/M)*34 {
				cases = append(cases, wt{sz, cut})
			}
		}
	}
	for ci, c := range cases {
		a, b := mitm.NewPair()
		res := runMachines(defaultHs(), a, b)
		if res.newErr != nil || res.cErr != nil || res.sErr != nil {
			t.Fatalf("handshake: %v %v %v", res.newErr, res.cErr, res.sErr)
		}
		w, rd := mailbox.NewVerifNoiseConn(a, res.cm), mailbox.NewVerifNoiseConn(b, res.sm)
		stream := streamOf(c.size + 100)
		enc.Encode(map[string]any{"op": "new", "conn": "tcp", "scen": ci, "ws": []int{c.size, 100}, "bs": []int{70000}})
		// the wire accepts `cut` bytes in total, then reports a timeout once
		var plan []int
		left := c.cut
		for _, part := range []int{18, M + 16, 18, M + 16, 18, M + 16} {
			if left >= part {
				plan = append(plan, part)
				left -= part
			} else {
				plan = append(plan, left)
				break
			}
		}
		a.SetPlan(plan)
		n, err := w.Write(stream[:c.size])
		es := ""
		if err != nil {
			es = "err"
			var te mitm.TimeoutErr
			if errors.As(err, &te) {
				es = "timeout"
			}
		}
		enc.Encode(map[string]any{"op": "write", "conn": "tcp", "len": c.size, "n": n, "err": es})
		sent := n
		if es == "timeout" {
			// retry with what was not reported as written
			n2, err2 := w.Write(stream[sent:c.size])
			es2 := ""
			if err2 != nil {
				es2 = "err"
				if errors.Is(err2, mailbox.ErrMessageNotFlushed) {
					es2 = "notflushed"
				}
			}
			enc.Encode(map[string]any{"op": "rewrite", "conn": "tcp", "len": c.size - sent, "n": n2, "err": es2})
			sent += n2
			if es2 == "notflushed" {
				for k := 0; k < 4; k++ {
					n3, err3 := w.Flush()
					es3 := ""
					if err3 != nil {
						es3 = "err"
					}
					enc.Encode(map[string]any{"op": "flush", "conn": "tcp", "n": n3, "err": es3})
					sent += n3
					if err3 == nil {
						break
					}
				}
				if sent < c.size {
					n4, err4 := w.Write(stream[sent:c.size])
					es4 := ""
					if err4 != nil {
						es4 = "err"
					}
					enc.Encode(map[string]any{"op": "write", "conn": "tcp", "len": c.size - sent, "n": n4, "err": es4})
					sent += n4
				}
			}
		}
		// a further, ordinary write
		n5, err5 := w.Write(stream[c.size : c.size+100])
		es5 := ""
		if err5 != nil {
			es5 = "err"
		}
		enc.Encode(map[string]any{"op": "write", "conn": "tcp", "len": 100, "n": n5, "err": es5})
		total := sent + n5
		// the reader: everything, exactly once
		rdPos := 0
		for rdPos < total {
			buf := make([]byte, 70000)
			type rres struct {
				n   int
				err error
			}
			rc := make(chan rres, 1)
			go func() { n, err := rd.Read(buf); rc <- rres{n, err} }()
			var rn int
			var rerr error
			select {
			case x := <-rc:
				rn, rerr = x.n, x.err
			case <-time.After(3 * time.Second):
				rerr = errors.New("blocked: Read does not return although written bytes are unread")
				b.Close()
			}
			match := b2i(rerr == nil && rdPos+rn <= len(stream) && bytes.Equal(buf[:rn], stream[rdPos:rdPos+rn]))
			es := ""
			if rerr != nil {
				es = rerr.Error()
			}
			enc.Encode(map[string]any{"op": "read", "conn": "tcp", "buf": len(buf), "n": rn, "err": es,
				"match": match, "avail": total - rdPos})
			if rerr != nil {
				break
			}
			rdPos += rn
		}
		enc.Encode(map[string]any{"op": "end", "conn": "tcp", "written": total, "read": rdPos})
	}
}
