package drivers

import (
	"encoding/json"
	"fmt"
	"math/rand"
	"os"
	"path/filepath"
	"runtime"
	"strconv"
	"sync"
	"sync/atomic"
	"testing"
	"time"

	"verif/harness/trace"
)

func envInt(name string, def int) int {
	if v := os.Getenv(name); v != "" {
		if n, err := strconv.Atoi(v); err == nil {
			return n
		}
	}
	return def
}

func outDir(t *testing.T) string {
	d := os.Getenv("VERIF_OUT")
	if d == "" {
		d = t.TempDir()
	}
	if err := os.MkdirAll(d, 0o755); err != nil {
		t.Fatal(err)
	}
	return d
}

func seed() int64 { return int64(envInt("VERIF_SEED", 1)) }

func rng(salt int64) *rand.Rand { return rand.New(rand.NewSource(seed()*1000003 + salt)) }

// traceSet writes traces into one NDJSON file per group (e.g. per window
// size) and remembers which lines belong to which run.
type traceSet struct {
	dir     string
	prefix  string
	writers map[string]*trace.Writer
	Runs    []runInfo
}

type runInfo struct {
	Group  string         `json:"group"`
	First  int            `json:"first"`
	Last   int            `json:"last"`
	Desc   map[string]any `json:"desc"`
	Faulty bool           `json:"faulty"`
	Obs    map[string]any `json:"obs,omitempty"`
}

func newTraceSet(dir, prefix string) *traceSet {
	return &traceSet{dir: dir, prefix: prefix, writers: map[string]*trace.Writer{}}
}

func (ts *traceSet) add(group string, events []trace.Event, desc map[string]any,
	faulty bool, obs map[string]any) {

	w, ok := ts.writers[group]
	if !ok {
		var err error
		w, err = trace.NewWriter(filepath.Join(ts.dir,
			fmt.Sprintf("%s_%s.ndjson", ts.prefix, group)))
		if err != nil {
			panic(err)
		}
		ts.writers[group] = w
	}
	first, err := w.Write(events)
	if err != nil {
		panic(err)
	}
	ts.Runs = append(ts.Runs, runInfo{Group: group, First: first,
		Last: first + len(events) - 1, Desc: desc, Faulty: faulty, Obs: obs})
}

func (ts *traceSet) close(extra map[string]any) {
	for _, w := range ts.writers {
		w.Close()
	}
	sum := map[string]any{"runs": ts.Runs}
	for k, v := range extra {
		sum[k] = v
	}
	b, _ := json.Marshal(sum)
	os.WriteFile(filepath.Join(ts.dir, ts.prefix+"_summary.json"), b, 0o644)
}

func itoa(i int) string { return strconv.Itoa(i) }

var (
	lastBeat  atomic.Int64
	lastScen  atomic.Value
	watchOnce sync.Once
)

// beat records that a new scenario starts; the watchdog measures real time
// from here.
func beat(scenario any) {
	lastBeat.Store(time.Now().UnixNano())
	b, _ := json.Marshal(scenario)
	lastScen.Store(string(b))
	watchOnce.Do(func() {
		limit := time.Duration(envInt("VERIF_HANG_S", 40)) * time.Second
		go func() {
			for {
				time.Sleep(time.Second)
				if time.Since(time.Unix(0, lastBeat.Load())) > limit {
					// A scenario that makes no progress in real time:
					// inside a synctest bubble that is a goroutine
					// waiting on a mutex or other non-durable block
					// that is never released.
					buf := make([]byte, 1<<20)
					n := runtime.Stack(buf, true)
					fmt.Printf("VERIF-HANG scenario=%v\n%s\n", lastScen.Load(), buf[:n])
					os.Exit(3)
				}
			}
		}()
	})
}

// writeStatus writes the status logs of the sessions (lncrun.Session.Stat,
// each preceded by a reset line) to one NDJSON file.
func writeStatus(t *testing.T, path string, each func(emit func(trace.Event))) {
	f, err := os.Create(path)
	if err != nil {
		t.Fatal(err)
	}
	defer f.Close()
	enc := json.NewEncoder(f)
	each(func(e trace.Event) { enc.Encode(e) })
}
