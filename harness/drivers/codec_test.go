package drivers

import (
	"bytes"
	"encoding/binary"
	"encoding/json"
	"os"
	"path/filepath"
	"testing"

	"github.com/lightninglabs/lightning-node-connect/gbn"
	"github.com/lightninglabs/lightning-node-connect/mailbox"
)

func ints(b []byte) []int {
	o := make([]int, len(b))
	for i, x := range b {
		o[i] = int(x)
	}
	return o
}

func b2i(b bool) int {
	if b {
		return 1
	}
	return 0
}

func gbnMsgJSON(m gbn.Message) map[string]any {
	switch p := m.(type) {
	case *gbn.PacketData:
		return map[string]any{"k": "DATA", "seq": int(p.Seq), "fin": b2i(p.FinalChunk),
			"ping": b2i(p.IsPing), "pl": ints(p.Payload)}
	case *gbn.PacketACK:
		return map[string]any{"k": "ACK", "seq": int(p.Seq)}
	case *gbn.PacketNACK:
		return map[string]any{"k": "NACK", "seq": int(p.Seq)}
	case *gbn.PacketSYN:
		return map[string]any{"k": "SYN", "n": int(p.N)}
	case *gbn.PacketFIN:
		return map[string]any{"k": "FIN"}
	case *gbn.PacketSYNACK:
		return map[string]any{"k": "SYNACK"}
	}
	return map[string]any{"k": "?"}
}

// exact returns a copy of b whose capacity equals its length: a decoder that
// slices beyond the length of its input must not be saved by spare capacity
// (what the transport hands over has whatever capacity it happens to have).
func exact(b []byte) []byte {
	c := make([]byte, len(b))
	copy(c, b)
	return c[:len(c):len(c)]
}

func gbnDeserLine(in []byte) map[string]any {
	line := map[string]any{"op": "gbnDeser", "in": ints(in)}
	func() {
		defer func() {
			if e := recover(); e != nil {
				line["st"] = "panic"
			}
		}()
		m, err := gbn.Deserialize(exact(in))
		if err != nil {
			line["st"] = "err"
			return
		}
		line["st"] = "ok"
		line["m"] = gbnMsgJSON(m)
	}()
	return line
}

func msgDeserLine(in []byte) map[string]any {
	line := map[string]any{"op": "msgDeser", "in": ints(in)}
	func() {
		defer func() {
			if e := recover(); e != nil {
				line["st"] = "panic"
			}
		}()
		m := mailbox.NewMsgData(0, nil)
		if err := m.Deserialize(exact(in)); err != nil {
			line["st"] = "err"
			return
		}
		line["st"] = "ok"
		line["m"] = map[string]any{"v": int(m.ProtocolVersion()), "pl": ints(m.Payload)}
	}()
	return line
}

// TestCodecTrace logs inputs and outputs of the real (de)serialisers for TLC
// to compare with Codec.tla.
func TestCodecTrace(t *testing.T) {
	dir := outDir(t)
	f, err := os.Create(filepath.Join(dir, "codec.ndjson"))
	if err != nil {
		t.Fatal(err)
	}
	defer f.Close()
	enc := json.NewEncoder(f)
	n := 0
	emit := func(l map[string]any) { enc.Encode(l); n++ }
	alpha := []byte{0, 1, 2, 3, 4, 5, 6, 7, 255}
	r := rng(4242)

	// --- gbn.Deserialize
	emit(gbnDeserLine(nil))
	for x := 0; x < 256; x++ {
		emit(gbnDeserLine([]byte{byte(x)}))
	}
	for _, a := range alpha {
		for x := 0; x < 256; x++ {
			emit(gbnDeserLine([]byte{a, byte(x)}))
		}
	}
	var rec func(pre []byte, depth int)
	rec = func(pre []byte, depth int) {
		if len(pre) >= 3 {
			emit(gbnDeserLine(pre))
		}
		if depth == 0 {
			return
		}
		for _, a := range alpha {
			rec(append(append([]byte(nil), pre...), a), depth-1)
		}
	}
	rec(nil, 4)
	for i := 0; i < 300; i++ {
		b := make([]byte, 1+r.Intn(40))
		r.Read(b)
		if r.Intn(2) == 0 {
			b[0] = byte(1 + r.Intn(6))
		}
		emit(gbnDeserLine(b))
	}
	// --- gbn Serialize
	payloads := [][]byte{nil, {0}, {1, 2, 3}, {255, 0, 255, 7, 9}}
	for seq := 0; seq < 256; seq++ {
		for _, fin := range []bool{false, true} {
			for _, ping := range []bool{false, true} {
				for _, pl := range payloads {
					m := &gbn.PacketData{Seq: uint8(seq), FinalChunk: fin, IsPing: ping, Payload: pl}
					out, _ := m.Serialize()
					emit(map[string]any{"op": "gbnSer", "m": gbnMsgJSON(m), "out": ints(out)})
				}
			}
		}
		for _, m := range []gbn.Message{&gbn.PacketACK{Seq: uint8(seq)}, &gbn.PacketNACK{Seq: uint8(seq)}, &gbn.PacketSYN{N: uint8(seq)}} {
			out, _ := m.Serialize()
			emit(map[string]any{"op": "gbnSer", "m": gbnMsgJSON(m), "out": ints(out)})
		}
	}
	for _, m := range []gbn.Message{&gbn.PacketFIN{}, &gbn.PacketSYNACK{}} {
		out, _ := m.Serialize()
		emit(map[string]any{"op": "gbnSer", "m": gbnMsgJSON(m), "out": ints(out)})
	}
	// --- MsgData
	for v := 0; v < 256; v++ {
		for _, pl := range [][]byte{nil, {9}, {1, 2, 3}, bytes.Repeat([]byte{0xab}, 300)} {
			m := mailbox.NewMsgData(uint8(v), pl)
			out, _ := m.Serialize()
			emit(map[string]any{"op": "msgSer", "m": map[string]any{"v": v, "pl": ints(pl)}, "out": ints(out)})
			emit(msgDeserLine(out))
		}
	}
	for l := 0; l <= 6; l++ { // short inputs
		for i := 0; i < 30; i++ {
			b := make([]byte, l)
			for j := range b {
				b[j] = alpha[r.Intn(len(alpha))]
			}
			emit(msgDeserLine(b))
		}
	}
	for _, v := range alpha { // declared vs actual length
		for decl := 0; decl <= 4; decl++ {
			for act := 0; act <= 5; act++ {
				b := []byte{v, 0, 0, 0, byte(decl)}
				for j := 0; j < act; j++ {
					b = append(b, byte(j+1))
				}
				emit(msgDeserLine(b))
			}
		}
		for _, hi := range [][]byte{{0, 0, 1, 0}, {0, 1, 0, 0}, {1, 0, 0, 0}, {255, 255, 255, 255}, {128, 0, 0, 0}} {
			emit(msgDeserLine(append([]byte{v}, append(hi, 1, 2, 3)...)))
		}
	}
	b, _ := json.Marshal(map[string]any{"lines": n})
	os.WriteFile(filepath.Join(dir, "codec_summary.json"), b, 0o644)
}

// TestCodecSweep is the raw robustness sweep with the property itself as
// oracle (no model needed to recognise a panic or a failed round trip): every
// byte string up to 3 bytes (4 bytes for DATA/ACK/NACK/SYN type bytes in the
// thorough tier) and random longer ones through both decoders, and large
// payload round trips.
func TestCodecSweep(t *testing.T) {
	dir := outDir(t)
	thorough := os.Getenv("VERIF_TIER") == "thorough"
	var evals, panics, unstable int
	var firstBad []int
	try := func(b []byte) {
		evals++
		b = exact(b)
		func() {
			defer func() {
				if e := recover(); e != nil {
					panics++
					if firstBad == nil {
						firstBad = ints(b)
					}
				}
			}()
			m, err := gbn.Deserialize(b)
			if err == nil {
				out, _ := m.Serialize()
				m2, err2 := gbn.Deserialize(out)
				j1, _ := json.Marshal(gbnMsgJSON(m))
				if err2 != nil {
					unstable++
				} else if j2, _ := json.Marshal(gbnMsgJSON(m2)); !bytes.Equal(j1, j2) {
					unstable++
				}
			}
			md := mailbox.NewMsgData(0, nil)
			if err := md.Deserialize(b); err == nil {
				out, _ := md.Serialize()
				md2 := mailbox.NewMsgData(0, nil)
				if err := md2.Deserialize(out); err != nil ||
					md2.ProtocolVersion() != md.ProtocolVersion() ||
					!bytes.Equal(md2.Payload, md.Payload) {
					unstable++
				}
			}
		}()
	}
	try(nil)
	buf := make([]byte, 4)
	for a := 0; a < 256; a++ {
		buf[0] = byte(a)
		try(buf[:1])
		for b := 0; b < 256; b++ {
			buf[1] = byte(b)
			try(buf[:2])
			for c := 0; c < 256; c++ {
				buf[2] = byte(c)
				try(buf[:3])
				if thorough && a <= 7 {
					for d := 0; d < 256; d++ {
						buf[3] = byte(d)
						try(buf[:4])
					}
				}
			}
		}
	}
	r := rng(5151)
	for i := 0; i < 200000; i++ {
		b := make([]byte, 4+r.Intn(64))
		r.Read(b)
		if r.Intn(2) == 0 {
			b[0] = byte(r.Intn(8))
		}
		try(b)
	}
	// control-message frames whose length field over- or understates the
	// body by a few bytes (a truncated frame, a forged length), and GBN
	// DATA packets cut inside their header
	for pl := 0; pl <= 40; pl++ {
		for delta := -6; delta <= 8; delta++ {
			if pl+delta < 0 {
				continue
			}
			fr := make([]byte, 5+pl)
			r.Read(fr)
			fr[0] = 0
			binary.BigEndian.PutUint32(fr[1:5], uint32(pl+delta))
			try(fr)
		}
	}
	// large payload round trips
	large := 0
	for _, sz := range []int{1000, 65535, 65536, 1 << 20} {
		pl := make([]byte, sz)
		r.Read(pl)
		d := &gbn.PacketData{Seq: 7, FinalChunk: true, Payload: pl}
		out, _ := d.Serialize()
		m, err := gbn.Deserialize(out)
		if err != nil || !bytes.Equal(m.(*gbn.PacketData).Payload, pl) {
			unstable++
		}
		md := mailbox.NewMsgData(3, pl)
		out, _ = md.Serialize()
		md2 := mailbox.NewMsgData(0, nil)
		if err := md2.Deserialize(out); err != nil || !bytes.Equal(md2.Payload, pl) || md2.ProtocolVersion() != 3 {
			unstable++
		}
		large += 2
	}
	b, _ := json.Marshal(map[string]any{"evaluations": evals, "panics": panics,
		"unstable": unstable, "first_bad": firstBad, "large_roundtrips": large})
	os.WriteFile(filepath.Join(dir, "codec_sweep.json"), b, 0o644)
}
