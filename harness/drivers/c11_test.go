package drivers

import (
	"encoding/json"
	"os"
	"path/filepath"
	"sync"
	"testing"
	"time"

	"verif/harness/lncrun"
	"verif/harness/relay"
	"verif/harness/trace"
)

// lncScen is one scripted session against the real mailbox layer.
type lncScen struct {
	name string
	opts lncrun.Options
	run  func(s *lncrun.Session, x *lncExpect)
}

// lncExpect records the liveness expectations of a scenario: the harness
// states what it waited for and whether it came (within its patience).
type lncExpect struct{ s *lncrun.Session }

func (x *lncExpect) check(what string, ok bool) bool {
	// what the two clients' ConnStatus() reports at this point goes to the
	// status log (validated against Status.tla)
	x.s.PollStatus("c")
	x.s.PollStatus("x")
	x.s.Rec.Emit("expect", "what", what, "ok", b2i(ok))
	return ok
}

// connect dials and waits for the listener's connection, both secured.  Like
// gRPC it tries again when a connection dies during its handshake (a repeated
// GBN SYN that reaches an endpoint already in its data phase ends that
// connection: the next attempt succeeds); what is expected is a working
// connection within a few attempts.
func (x *lncExpect) connect(k int) (*lncrun.Conn, *lncrun.Conn) {
	var c *lncrun.Conn
	for attempt := 0; attempt < 4; attempt++ {
		c = x.s.Dial("c", k*10+attempt)
		if c != nil && c.Sec != nil {
			break
		}
		if c == nil {
			break // Dial itself never returned
		}
		c.AwaitDown(10 * time.Second)
	}
	if !x.check("dial returns a working connection", c != nil && c.Sec != nil) {
		return nil, nil
	}
	var sc *lncrun.Conn
	for {
		sc = x.s.Accepted()
		if sc == nil || (sc.Sec != nil && sc.PeerID(20*time.Second) == c.ID) {
			break
		}
	}
	if !x.check("accept returns a working connection", sc != nil) {
		return nil, nil
	}
	return c, sc
}

// exchange writes n bytes in each direction and waits for them.
func (x *lncExpect) exchange(c, sc *lncrun.Conn, sizes ...int) bool {
	for _, n := range sizes {
		if err := c.Write(n); err != nil {
			return x.check("write on an open connection succeeds", false)
		}
		if err := sc.Write(n); err != nil {
			return x.check("write on an open connection succeeds", false)
		}
	}
	ok := sc.AwaitRead(c.Written(), 30*time.Second) && c.AwaitRead(sc.Written(), 30*time.Second)
	return x.check("bytes written arrive", ok)
}

func c11BaseScenarios() []lncScen {
	pairReconnect := func(s *lncrun.Session, x *lncExpect) {
		s.Serve()
		c, sc := x.connect(1)
		if c == nil {
			return
		}
		x.exchange(c, sc, 10, 3000)
		c.Close("script")
		x.check("the peer of a closed connection goes down", sc.AwaitDown(30*time.Second))
		c2, sc2 := x.connect(2)
		if c2 == nil {
			return
		}
		x.exchange(c2, sc2, 500)
		sc2.Close("script")
		x.check("the peer of a closed connection goes down", c2.AwaitDown(30*time.Second))
		c3, sc3 := x.connect(3)
		if c3 == nil {
			return
		}
		x.exchange(c3, sc3, 70, 40000)
	}
	return []lncScen{
		{"pair-reconnect", lncrun.Options{}, pairReconnect},
		{"prepaired-reconnect", lncrun.Options{PrePaired: true}, pairReconnect},
		{"v1-reconnect", lncrun.Options{V1: true}, pairReconnect},
		// an older server (handshake version 1 at most) and a current client:
		// version 1 is negotiated, no keys are kept, every reconnect pairs
		// again at the passphrase rendezvous
		{"older-server-reconnect", lncrun.Options{SrvV1: true}, pairReconnect},
		// the browser / WASM path: the clients use the websocketTransport
		// through the REST/websocket front door of the relay
		{"ws-pair-reconnect", lncrun.Options{Websocket: true}, pairReconnect},
		{"ws-prepaired-reconnect", lncrun.Options{Websocket: true, PrePaired: true}, pairReconnect},
		{"corrupted-handshake-then-retry", lncrun.Options{PrePaired: true}, func(s *lncrun.Session, x *lncExpect) {
			// the relay corrupts the start of act two of the first handshake
			// of a reconnect: the client aborts in the middle of the act
			// (most of it unread) and closes; the next attempt, over an
			// intact relay, must work
			s.Serve()
			c, sc := x.connect(1)
			if c == nil {
				return
			}
			x.exchange(c, sc, 100)
			c.Close("script")
			x.check("the peer of a closed connection goes down", sc.AwaitDown(30*time.Second))
			done := false
			s.Relay.Decide = func(sid string, idx int, msg []byte) (f relay.Fate) {
				if !done && s.SidName(sid) == "K" && len(msg) > 40 && msg[0] == 0x02 && msg[3] == 0 { // first DATA s->c
					done = true
					// the first byte of the act (after the 4-byte GBN and the
					// 5-byte control-message header): the client rejects it
					// at once, with the rest of the act still unread
					f.Replace = append([]byte(nil), msg...)
					f.Replace[9] ^= 0x40
				}
				return
			}
			c2, sc2 := x.connect(2)
			if c2 != nil {
				x.exchange(c2, sc2, 100, 3000)
			}
		}},
		{"pairing-switch-delete-answer-lost", lncrun.Options{}, func(s *lncrun.Session, x *lncExpect) {
			// when the listener leaves the passphrase rendezvous after the
			// pairing, the relay deletes the old mailboxes but its answer to
			// one of the two deletions is lost: the listener must still move
			// to the key-derived rendezvous and meet the client there
			s.Serve()
			c, sc := x.connect(1)
			if c == nil {
				return
			}
			x.exchange(c, sc, 100)
			s.Relay.LoseDelReplies(1)
			c.Close("script")
			x.check("the peer of a closed connection goes down", sc.AwaitDown(30*time.Second))
			c2, sc2 := x.connect(2)
			if c2 != nil {
				x.exchange(c2, sc2, 100, 2000)
			}
		}},
		{"second-client", lncrun.Options{}, func(s *lncrun.Session, x *lncExpect) {
			// after the pairing a second client that knows the passphrase
			// dials: while the first connection is open, and across the
			// server's move to the key-derived rendezvous
			s.Serve()
			c, sc := x.connect(1)
			if c == nil {
				return
			}
			x.exchange(c, sc, 100)
			xdone := make(chan *lncrun.Conn, 1)
			go func() { xdone <- s.DialPatience("x", 1, 25*time.Second) }()
			time.Sleep(3 * time.Second)
			c.Close("script")
			x.check("the peer of a closed connection goes down", sc.AwaitDown(30*time.Second))
			c2, sc2 := x.connect(2)
			if c2 != nil {
				x.exchange(c2, sc2, 100)
			}
			xc := <-xdone
			x.check("the unpaired client is not admitted", xc == nil || xc.Sec == nil)
		}},
		{"second-client-v1", lncrun.Options{V1: true}, func(s *lncrun.Session, x *lncExpect) {
			// without key exchange (handshake version 1) the passphrase
			// rendezvous stays: another client is served once the first left
			s.Serve()
			c, sc := x.connect(1)
			if c == nil {
				return
			}
			x.exchange(c, sc, 100)
			c.Close("script")
			x.check("the peer of a closed connection goes down", sc.AwaitDown(30*time.Second))
			xc := s.DialPatience("x", 1, 40*time.Second)
			x.check("another passphrase holder is served when no keys were kept", xc != nil && xc.Sec != nil)
		}},
		{"dial-while-open", lncrun.Options{}, func(s *lncrun.Session, x *lncExpect) {
			// Dial again while the first connection is open: it may only
			// return after that one was closed
			s.Serve()
			c, sc := x.connect(1)
			if c == nil {
				return
			}
			x.exchange(c, sc, 100)
			second := make(chan *lncrun.Conn, 1)
			go func() { second <- s.Dial("c", 2) }()
			time.Sleep(4 * time.Second)
			select {
			case <-second:
				x.check("dial blocks while the previous connection is open", false)
				return
			default:
			}
			c.Close("script")
			c2 := <-second
			x.check("dial returns a working connection", c2 != nil && c2.Sec != nil)
			var sc2 *lncrun.Conn
			for {
				sc2 = s.Accepted()
				if sc2 == nil || (sc2.Sec != nil && c2 != nil && sc2.PeerID(20*time.Second) == c2.ID) {
					break
				}
			}
			if c2 != nil && c2.Sec != nil && x.check("accept returns a working connection", sc2 != nil) {
				x.exchange(c2, sc2, 100)
			}
		}},
		{"dial-while-open-after-peer-close", lncrun.Options{PrePaired: true}, func(s *lncrun.Session, x *lncExpect) {
			// the server has closed its end (the client's status is no
			// longer "Connected") but the client application has not closed
			// its connection yet: a Dial may still only return after it has
			s.Serve()
			c, sc := x.connect(1)
			if c == nil {
				return
			}
			x.exchange(c, sc, 100)
			c.KeepOpenOnReadError()
			sc.Close("script")
			for i := 0; i < 100 && s.PollStatus("c") == 3; i++ {
				time.Sleep(100 * time.Millisecond)
			}
			second := make(chan *lncrun.Conn, 1)
			go func() { second <- s.Dial("c", 2) }()
			time.Sleep(4 * time.Second)
			select {
			case <-second:
				x.check("dial blocks while the previous connection is open", false)
				return
			default:
			}
			c.Close("script")
			c2 := <-second
			x.check("dial returns a working connection", c2 != nil && c2.Sec != nil)
			var sc2 *lncrun.Conn
			for {
				sc2 = s.Accepted()
				if sc2 == nil || (sc2.Sec != nil && c2 != nil && sc2.PeerID(20*time.Second) == c2.ID) {
					break
				}
			}
			if c2 != nil && c2.Sec != nil && x.check("accept returns a working connection", sc2 != nil) {
				x.exchange(c2, sc2, 100)
			}
		}},
		{"dial-during-slow-close", lncrun.Options{PrePaired: true}, func(s *lncrun.Session, x *lncExpect) {
			// a Dial is already waiting for the previous connection when
			// that one is closed, and the closing of its receive stream
			// takes a while: the waiting Dial may only go ahead when the
			// old connection has let go of the session's streams
			s.Serve()
			c, sc := x.connect(1)
			if c == nil {
				return
			}
			x.exchange(c, sc, 100)
			second := make(chan *lncrun.Conn, 1)
			go func() { second <- s.DialPatience("c", 2, 50*time.Second) }()
			time.Sleep(2 * time.Second)
			s.Relay.SetSlowRecvClose(700 * time.Millisecond)
			s.Relay.SetSlowSendClose(1500 * time.Millisecond)
			c.Close("script")
			s.Relay.SetSlowRecvClose(0)
			s.Relay.SetSlowSendClose(0)
			c2 := <-second
			x.check("dial returns a working connection", c2 != nil && c2.Sec != nil)
			var sc2 *lncrun.Conn
			for c2 != nil && c2.Sec != nil {
				sc2 = s.Accepted()
				if sc2 == nil || (sc2.Sec != nil && sc2.PeerID(20*time.Second) == c2.ID) {
					break
				}
			}
			if c2 != nil && c2.Sec != nil && x.check("accept returns a working connection", sc2 != nil) {
				x.exchange(c2, sc2, 100)
			}
		}},
		{"reader-stops-mid-record", lncrun.Options{PrePaired: true}, func(s *lncrun.Session, x *lncExpect) {
			// the client's reader stops (as after a protocol error) when it
			// has been handed only part of a large record; the connection is
			// closed and a new one made: it must start with the new stream
			s.Serve()
			c, sc := x.connect(1)
			if c == nil {
				return
			}
			c.StopReaderAfter(1)
			if err := sc.Write(65535); err != nil {
				x.check("write on an open connection succeeds", false)
				return
			}
			x.check("bytes written arrive", c.AwaitRead(1, 30*time.Second))
			time.Sleep(500 * time.Millisecond)
			c.Close("script")
			x.check("the peer of a closed connection goes down", sc.AwaitDown(30*time.Second))
			c2, sc2 := x.connect(2)
			if c2 != nil {
				x.exchange(c2, sc2, 100, 40000)
			}
		}},
		{"reconnect-synack-lost", lncrun.Options{PrePaired: true}, func(s *lncrun.Session, x *lncExpect) {
			// on a reconnect (same rendezvous: the refresh path) the relay
			// loses the client's SYNACK; the client's first data packet
			// then makes the server's GBN handshake fail and Accept return
			// a temporary error.  The next attempts must produce a working
			// connection again.
			s.Serve()
			c, sc := x.connect(1)
			if c == nil {
				return
			}
			x.exchange(c, sc, 100)
			c.Close("script")
			x.check("the peer of a closed connection goes down", sc.AwaitDown(30*time.Second))
			dropped := false
			s.Relay.Decide = func(sid string, idx int, msg []byte) (f relay.Fate) {
				if !dropped && s.SidName(sid) == "K.c2s" && len(msg) > 0 && msg[0] == 0x06 { // gbn.SYNACK
					dropped = true
					f.Drop = true
				}
				return
			}
			c2, sc2 := x.connect(2)
			if c2 != nil {
				x.exchange(c2, sc2, 100, 5000)
			}
		}},
		{"relay-failure", lncrun.Options{PrePaired: true}, func(s *lncrun.Session, x *lncExpect) {
			// the relay drops both streams in the middle of a connection:
			// either the connection survives (streams re-created) or both
			// ends go down and a fresh one is handed out
			s.Serve()
			c, sc := x.connect(1)
			if c == nil {
				return
			}
			x.exchange(c, sc, 100)
			s.BreakStreams("K", "both")
			c.Write(2000)
			sc.Write(2000)
			if sc.AwaitRead(c.Written(), 20*time.Second) && c.AwaitRead(sc.Written(), 20*time.Second) {
				x.check("the connection survived the relay failure", true)
				return
			}
			c.Close("script")
			x.check("the peer of a closed connection goes down", sc.AwaitDown(30*time.Second))
			c2, sc2 := x.connect(2)
			if c2 != nil {
				x.exchange(c2, sc2, 100)
			}
		}},
		{"relay-restart", lncrun.Options{PrePaired: true}, func(s *lncrun.Session, x *lncExpect) {
			// between two connections the relay process restarts and loses
			// the session's mailboxes: the parties have to create them
			// again and a fresh working connection is handed out
			s.Serve()
			c, sc := x.connect(1)
			if c == nil {
				return
			}
			x.exchange(c, sc, 100)
			c.Close("script")
			x.check("the peer of a closed connection goes down", sc.AwaitDown(30*time.Second))
			time.Sleep(500 * time.Millisecond)
			s.Rec.Emit("relayFault", "what", "restart")
			s.Relay.Restart()
			c2, sc2 := x.connect(2)
			if c2 != nil {
				x.exchange(c2, sc2, 100)
			}
		}},
		{"server-closes-during-handshake", lncrun.Options{}, func(s *lncrun.Session, x *lncExpect) {
			// act 3 of the pairing handshake never arrives: the client keeps
			// the server's key, the server never learns the client's
			s.Relay.Decide = func(sid string, idx int, msg []byte) (f relay.Fate) {
				if s.SidName(sid) == "P.c2s" && len(msg) >= 70 && len(msg) <= 90 {
					f.Drop = true
				}
				return
			}
			s.Serve()
			c := s.DialPatience("c", 1, 30*time.Second)
			if c != nil {
				c.AwaitDown(30 * time.Second)
			}
			// the half-paired client dials the key rendezvous, the server
			// still listens at the passphrase one: they do not meet
			c2 := s.DialPatience("c", 2, 10*time.Second)
			s.Rec.Emit("note", "what", "half-paired redial", "met", b2i(c2 != nil && c2.Sec != nil))
		}},
		{"pairing-authdata-refused-once", lncrun.Options{AuthRejects: 1}, func(s *lncrun.Session, x *lncExpect) {
			// the pairing handshake runs to its end - both static keys are
			// exchanged, the server has completed - and then the client's
			// auth-data callback refuses the payload once (a storage
			// failure): the client's handshake call fails and the
			// connection is closed, but the keys were exchanged, so both
			// parties are on the key-derived rendezvous from now on and the
			// next attempt meets there with the key-based handshake
			s.Serve()
			c := s.DialPatience("c", 10, 40*time.Second)
			x.check("a handshake whose auth data the client refuses fails on the client",
				c != nil && c.Sec == nil)
			if c == nil || c.Sec != nil {
				return
			}
			sc := s.Accepted()
			c.AwaitDown(10 * time.Second)
			if sc == nil || sc.Sec == nil {
				// the last act did not reach the server in time: half
				// paired, outside the property
				s.Rec.Emit("note", "what", "auth refusal: server did not complete")
				return
			}
			x.check("the peer of a closed connection goes down", sc.AwaitDown(30*time.Second))
			c2, sc2 := x.connect(2)
			if c2 != nil {
				x.exchange(c2, sc2, 100, 3000)
			}
		}},
	}
}

// TestC11Sessions runs the scripted sessions in parallel, in real time.
// c11Scenarios: the base scenarios, and some of them again with the clients on
// the websocket transport.
func c11Scenarios() []lncScen {
	out := c11BaseScenarios()
	for _, sc := range out {
		switch sc.name {
		case "second-client", "dial-while-open-after-peer-close", "relay-restart", "relay-failure":
			o := sc.opts
			o.Websocket = true
			out = append(out, lncScen{"ws-" + sc.name, o, sc.run})
		}
	}
	return out
}

func TestC11Sessions(t *testing.T) {
	dir := outDir(t)
	ts := newTraceSet(dir, "c11")
	scens := c11Scenarios()
	reps := 1
	if envInt("VERIF_THOROUGH", 0) == 1 {
		reps = 3
	}
	type out struct {
		events []trace.Event
		desc   map[string]any
		link   []trace.Event
		stat   []trace.Event
	}
	var mu sync.Mutex
	var outs []out
	var wg sync.WaitGroup
	for rep := 0; rep < reps; rep++ {
		for _, sc := range scens {
			sc, rep := sc, rep
			wg.Add(1)
			go func() {
				defer wg.Done()
				s, err := lncrun.New(sc.opts)
				if err != nil {
					t.Errorf("%s: %v", sc.name, err)
					return
				}
				done := make(chan struct{})
				go func() {
					defer close(done)
					sc.run(s, &lncExpect{s})
					s.Shutdown()
				}()
				select {
				case <-done:
				case <-time.After(6 * time.Minute):
					s.Rec.Emit("harnessNote", "what", "scenario did not finish")
				}
				ev := append([]trace.Event{{"ev": "reset", "scen": sc.name,
					"prepaired": b2i(sc.opts.PrePaired), "v1": b2i(sc.opts.V1 || sc.opts.SrvV1)}}, s.Rec.Events()...)
				link := append([]trace.Event{{"ev": "reset", "op": "reset", "scen": sc.name, "rep": rep}},
					s.LinkEvents()...)
				stat := append([]trace.Event{{"ev": "reset", "scen": sc.name, "rep": rep,
					"ws": b2i(sc.opts.Websocket)}}, s.Stat.Events()...)
				mu.Lock()
				outs = append(outs, out{ev, map[string]any{"scen": sc.name, "rep": rep}, link, stat})
				mu.Unlock()
			}()
		}
	}
	wg.Wait()
	// the packets every handed-out connection's GBN gave to / got from the
	// mailbox transport, by stream (validated against MailboxLink.tla)
	lf, err := os.Create(filepath.Join(dir, "c11link.ndjson"))
	if err != nil {
		t.Fatal(err)
	}
	lenc := json.NewEncoder(lf)
	for _, o := range outs {
		ts.add("all", o.events, o.desc, true, nil)
		for _, e := range o.link {
			if _, ok := e["op"]; !ok {
				e["op"] = e["ev"]
			}
			lenc.Encode(e)
		}
	}
	lf.Close()
	writeStatus(t, filepath.Join(dir, "c11status.ndjson"), func(emit func(trace.Event)) {
		for _, o := range outs {
			for _, e := range o.stat {
				emit(e)
			}
		}
	})
	ts.close(nil)
}
