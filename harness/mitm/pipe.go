// Package mitm provides in-memory byte pipes and message queues that stand in
// for the transport under the Noise layer: fragmenting readers, writers that
// accept only part of the data and then time out, taps that record every byte,
// and editors that rewrite the stream (the man in the middle).
package mitm

import (
	"errors"
	"io"
	"net"
	"sync"
	"time"
)

// TimeoutErr is a net.Error with Timeout() == true.
type TimeoutErr struct{}

func (TimeoutErr) Error() string   { return "mitm: i/o timeout" }
func (TimeoutErr) Timeout() bool   { return true }
func (TimeoutErr) Temporary() bool { return true }

// Stream is a one-directional in-memory byte stream.
type Stream struct {
	mu     sync.Mutex
	cond   *sync.Cond
	buf    []byte
	closed bool
	// All bytes ever written (after editing), for inspection.
	Wire []byte
	// Edit, if set, rewrites each written chunk before it is queued; it may
	// return nil to drop it.  It sees chunks exactly as the writer wrote them.
	Edit func(chunk []byte) []byte
}

// NewStream creates a stream.
func NewStream() *Stream {
	s := &Stream{}
	s.cond = sync.NewCond(&s.mu)
	return s
}

func (s *Stream) write(b []byte) {
	s.mu.Lock()
	cp := append([]byte(nil), b...)
	if s.Edit != nil {
		cp = s.Edit(cp)
	}
	s.buf = append(s.buf, cp...)
	s.Wire = append(s.Wire, cp...)
	s.cond.Broadcast()
	s.mu.Unlock()
}

// Push appends raw bytes to the stream, bypassing Edit.
func (s *Stream) Push(b []byte) {
	s.mu.Lock()
	s.buf = append(s.buf, b...)
	s.Wire = append(s.Wire, b...)
	s.cond.Broadcast()
	s.mu.Unlock()
}

// Close makes pending and future reads return io.EOF once the buffer is empty.
func (s *Stream) Close() {
	s.mu.Lock()
	s.closed = true
	s.cond.Broadcast()
	s.mu.Unlock()
}

func (s *Stream) read(p []byte, max int, timeout time.Duration) (int, error) {
	s.mu.Lock()
	defer s.mu.Unlock()
	var timedOut bool
	if timeout > 0 && len(s.buf) == 0 && !s.closed {
		t := time.AfterFunc(timeout, func() {
			s.mu.Lock()
			timedOut = true
			s.cond.Broadcast()
			s.mu.Unlock()
		})
		defer t.Stop()
	}
	for len(s.buf) == 0 {
		if s.closed {
			return 0, io.EOF
		}
		if timedOut {
			return 0, TimeoutErr{}
		}
		s.cond.Wait()
	}
	n := len(p)
	if max > 0 && n > max {
		n = max
	}
	if n > len(s.buf) {
		n = len(s.buf)
	}
	copy(p, s.buf[:n])
	s.buf = s.buf[n:]
	return n, nil
}

// End is one end of a duplex connection made of two Streams.  It implements
// net.Conn.
type End struct {
	In, Out *Stream
	// Frag, if set, returns the maximum number of bytes the next Read may
	// return (0 = no limit).
	Frag func() int
	// ReadTimeout, if set, makes a Read that gets no data for that long
	// (real time) fail with a timeout error.
	ReadTimeout time.Duration
	// WritePlan: number of bytes accepted by successive Write calls before
	// a timeout error is returned; when exhausted, writes are accepted in
	// full.
	mu        sync.Mutex
	WritePlan []int
	Writes    []int // bytes accepted per Write call
	// HardErr: the partial writes of the plan end with a non-timeout error
	// (a transient transport failure) instead of a timeout.
	HardErr bool
}

// ErrTransient is the non-timeout error of a partial write under HardErr.
var ErrTransient = errors.New("mitm: transient transport failure")

// NewPair creates two connected ends.
func NewPair() (*End, *End) {
	a2b, b2a := NewStream(), NewStream()
	return &End{In: b2a, Out: a2b}, &End{In: a2b, Out: b2a}
}

func (e *End) Read(p []byte) (int, error) {
	max := 0
	if e.Frag != nil {
		max = e.Frag()
	}
	return e.In.read(p, max, e.ReadTimeout)
}

func (e *End) Write(p []byte) (int, error) {
	e.mu.Lock()
	var limit = -1
	if len(e.WritePlan) > 0 {
		limit = e.WritePlan[0]
		e.WritePlan = e.WritePlan[1:]
	}
	e.mu.Unlock()
	if limit >= 0 && limit < len(p) {
		e.Out.write(p[:limit])
		e.mu.Lock()
		e.Writes = append(e.Writes, limit)
		hard := e.HardErr
		e.mu.Unlock()
		if hard {
			return limit, ErrTransient
		}
		return limit, TimeoutErr{}
	}
	e.Out.write(p)
	e.mu.Lock()
	e.Writes = append(e.Writes, len(p))
	e.mu.Unlock()
	return len(p), nil
}

// SetPlan installs a write plan.
func (e *End) SetPlan(plan []int) {
	e.mu.Lock()
	e.WritePlan = append([]int(nil), plan...)
	e.Writes = nil
	e.mu.Unlock()
}

// Accepted returns the bytes accepted by each Write since SetPlan.
func (e *End) Accepted() []int {
	e.mu.Lock()
	defer e.mu.Unlock()
	return append([]int(nil), e.Writes...)
}

func (e *End) Close() error                       { e.Out.Close(); e.In.Close(); return nil }
func (e *End) LocalAddr() net.Addr                { return addr("local") }
func (e *End) RemoteAddr() net.Addr               { return addr("remote") }
func (e *End) SetDeadline(t time.Time) error      { return nil }
func (e *End) SetReadDeadline(t time.Time) error  { return nil }
func (e *End) SetWriteDeadline(t time.Time) error { return nil }

type addr string

func (a addr) Network() string { return "mitm" }
func (a addr) String() string  { return string(a) }

var _ net.Conn = (*End)(nil)

// ErrClosed is returned by message queues that were closed.
var ErrClosed = errors.New("mitm: closed")

// MsgQueue is a one-directional queue of whole messages (what the GBN layer
// provides to the mailbox connKit).
type MsgQueue struct {
	mu     sync.Mutex
	cond   *sync.Cond
	q      [][]byte
	closed bool
	Log    [][]byte
}

// NewMsgQueue creates a message queue.
func NewMsgQueue() *MsgQueue {
	m := &MsgQueue{}
	m.cond = sync.NewCond(&m.mu)
	return m
}

// Put appends a message.
func (m *MsgQueue) Put(b []byte) {
	m.mu.Lock()
	cp := append([]byte(nil), b...)
	m.q = append(m.q, cp)
	m.Log = append(m.Log, cp)
	m.cond.Broadcast()
	m.mu.Unlock()
}

// Get removes the next message, blocking until there is one.
func (m *MsgQueue) Get() ([]byte, error) {
	m.mu.Lock()
	defer m.mu.Unlock()
	for len(m.q) == 0 {
		if m.closed {
			return nil, ErrClosed
		}
		m.cond.Wait()
	}
	b := m.q[0]
	m.q = m.q[1:]
	return b, nil
}

// Close closes the queue.
func (m *MsgQueue) Close() {
	m.mu.Lock()
	m.closed = true
	m.cond.Broadcast()
	m.mu.Unlock()
}
