package gbnrun

import (
	"context"
	"strings"
	"sync"
	"time"

	"github.com/lightninglabs/lightning-node-connect/gbn"

	"verif/harness/vnet"
)

func errStr(err error) string {
	if err == nil {
		return ""
	}
	return err.Error()
}

func (r *Run) execute() *Run {
	cfg := r.Cfg
	strict := 0
	if cfg.Strict {
		strict = 1
	}
	r.Rec.Emit("reset", "n", int(cfg.N), "strict", strict)
	if !cfg.ManualStart && !cfg.Strict {
		r.StartSenders()
	}
	r.Net = vnet.New(r.Rec, cfg.Latency, nil, Describe)

	gbn.SetVerifSink(r.sink)
	defer gbn.SetVerifSink(nil)

	ctx, cancel := context.WithCancel(context.Background())
	defer cancel()

	type res struct {
		c   *gbn.GoBackNConn
		err error
	}
	for _, p := range cfg.StaleC {
		r.Net.Inject("c", p)
	}
	for _, p := range cfg.StaleS {
		r.Net.Inject("s", p)
	}
	r.Net.SetDecider(cfg.HsDecide)
	srvCh := make(chan res, 1)
	cliCh := make(chan res, 1)
	go func() {
		if cfg.StartDelay[1] > 0 {
			time.Sleep(cfg.StartDelay[1])
		}
		s, err := gbn.NewServerConn(
			ctx, r.Net.SendFunc("s"), r.Net.RecvFunc("s"),
			cfg.opts(1)...,
		)
		srvCh <- res{s, err}
	}()
	go func() {
		if cfg.StartDelay[0] > 0 {
			time.Sleep(cfg.StartDelay[0])
		}
		c, err := gbn.NewClientConn(
			ctx, cfg.N, r.Net.SendFunc("c"), r.Net.RecvFunc("c"),
			cfg.opts(0)...,
		)
		cliCh <- res{c, err}
	}()
	patience := cfg.HsPatience
	if patience == 0 {
		patience = 60 * time.Second
	}
	var cr, sr res
	gotC, gotS := false, false
	deadline := time.After(patience)
	// early: result of the client's first Send when it was issued before the
	// server's handshake had finished (an application sends as soon as its
	// own constructor returns; that first DATA packet is what lets a server
	// that restarted its handshake complete)
	var early chan string
	for !(gotC && gotS) {
		select {
		case cr = <-cliCh:
			gotC = true
			if cfg.HsProbe && cr.err == nil && cr.c != nil && !gotS {
				early = make(chan string, 1)
				ec := cr.c
				go func() {
					ec.SetSendTimeout(30 * time.Second)
					early <- errStr(ec.Send(Payload(1, 12)))
				}()
			}
		case sr = <-srvCh:
			gotS = true
		case <-deadline:
			r.Rec.Emit("hsCancel")
			cancel()
			deadline = nil
		}
	}
	c, err := cr.c, cr.err
	r.HsErr = [2]string{errStr(err), errStr(sr.err)}
	cN, sN := -1, -1
	if c != nil && err == nil {
		n, _ := c.VerifN()
		cN = int(n)
	}
	if sr.c != nil && sr.err == nil {
		n, _ := sr.c.VerifN()
		sN = int(n)
	}
	if err != nil || sr.err != nil {
		r.Rec.Emit("hsResult", "cErr", errStr(err), "sErr", errStr(sr.err),
			"cN", cN, "sN", sN, "c2s", 0, "s2c", 0, "c2sGot", 0, "s2cGot", 0)
		r.Rec.Emit("hsFail", "c", errStr(err), "s", errStr(sr.err))
		if c != nil && err == nil {
			c.Close()
		}
		if sr.c != nil && sr.err == nil {
			sr.c.Close()
		}
		cancel()
		r.Quiesce()
		return r
	}
	r.Client, r.Server = c, sr.c
	conns := map[string]*gbn.GoBackNConn{"c": c, "s": sr.c}
	r.conns = conns
	r.Rec.Emit("hsDone")
	r.Net.SetDecider(cfg.Decide)
	if cfg.HsProbe {
		// first data exchange: one message each way
		ok := [2]int{}
		got := [2]int{}
		perr := [2][2]string{}
		var pw sync.WaitGroup
		for i, pair := range [][2]*gbn.GoBackNConn{{c, sr.c}, {sr.c, c}} {
			i, pair := i, pair
			pw.Add(2)
			go func() {
				defer pw.Done()
				if i == 0 && early != nil {
					perr[i][0] = <-early // already sent
					return
				}
				pair[0].SetSendTimeout(30 * time.Second)
				perr[i][0] = errStr(pair[0].Send(Payload(1, 12)))
			}()
			go func() {
				defer pw.Done()
				pair[1].SetRecvTimeout(30 * time.Second)
				b, err := pair[1].Recv()
				perr[i][1] = errStr(err)
				if err == nil && PayloadID(b) == 1 {
					ok[i] = 1
				}
				if err == nil {
					// which message the application was handed (1: the
					// peer's; anything else was not sent on this connection)
					got[i] = PayloadID(b)
				}
			}()
		}
		pw.Wait()
		r.Rec.Emit("hsResult", "cErr", "", "sErr", "", "cN", cN, "sN", sN,
			"c2s", ok[0], "s2c", ok[1], "c2sGot", got[0], "s2cGot", got[1],
			"c2sErr", perr[0][0]+"|"+perr[0][1],
			"s2cErr", perr[1][0]+"|"+perr[1][1])
	}

	var wg sync.WaitGroup
	for _, ep := range []string{"c", "s"} {
		ep := ep
		i := epIdx[ep]
		conn := conns[ep]
		if cfg.Msgs[i] > 0 {
			wg.Add(1)
			go func() {
				defer wg.Done()
				<-r.startCh
				for id := 1; id <= cfg.Msgs[i]; id++ {
					if cfg.Gap != nil {
						if d := cfg.Gap(ep, id); d > 0 {
							time.Sleep(d)
						}
					}
					size := 16
					if cfg.Size != nil {
						size = cfg.Size(ep, id)
					}
					// A fresh buffer per message: the queue
					// keeps the slice for retransmission.
					p := Payload(id, size)
					r.mu.Lock()
					r.calls[i]++
					r.mu.Unlock()
					r.Rec.Emit("sendCall", "ep", ep, "m", id)
					t0 := time.Now()
					err := conn.Send(p)
					r.mu.Lock()
					r.rets[i]++
					r.mu.Unlock()
					r.Rec.Emit("sendRet", "ep", ep, "m", id,
						"err", errStr(err), "w",
						int(time.Since(t0)/time.Millisecond))
					if err != nil {
						r.mu.Lock()
						r.SendErr[i] = errStr(err)
						r.mu.Unlock()
						return
					}
					r.mu.Lock()
					r.Accepted[i]++
					r.mu.Unlock()
				}
			}()
		}
		want := cfg.Msgs[1-i]
		if (want > 0 || cfg.RecvForever) && !cfg.NoRecv[i] {
			wg.Add(1)
			go func() {
				defer wg.Done()
				for k := 1; k <= want || cfg.RecvForever; k++ {
					r.mu.Lock()
					r.rcalls[i]++
					r.mu.Unlock()
					b, err := conn.Recv()
					r.mu.Lock()
					r.rrets[i]++
					r.mu.Unlock()
					m := -1
					if err == nil {
						m = PayloadID(b)
						// the application keeps what Recv returned: it
						// must still read the same at the end of the run
						r.mu.Lock()
						r.kept[i] = append(r.kept[i], b)
						r.keptSum[i] = append(r.keptSum[i], sum32(b))
						r.mu.Unlock()
					}
					r.Rec.Emit("recvRet", "ep", ep, "m", m,
						"err", errStr(err), "len", len(b))
					if err != nil {
						r.mu.Lock()
						r.RecvErr[i] = errStr(err)
						r.mu.Unlock()
						return
					}
					r.mu.Lock()
					r.Delivered[i]++
					r.mu.Unlock()
					if cfg.RecvSlow != nil {
						if d := cfg.RecvSlow(ep, k); d > 0 {
							time.Sleep(d)
						}
					}
				}
			}()
		}
	}
	for i, ep := range []string{"c", "s"} {
		if cfg.SendLag[i] > 0 {
			r.Net.SetSendLag(ep, cfg.SendLag[i])
		}
	}
	if cfg.OnReady != nil {
		wg.Add(1)
		go func() {
			defer wg.Done()
			cfg.OnReady(r)
		}()
	}

	done := make(chan struct{})
	go func() { wg.Wait(); close(done) }()
	horizon := cfg.Horizon
	if horizon == 0 {
		horizon = 10 * time.Minute
	}
	timedOut := false
	select {
	case <-done:
	case <-time.After(horizon):
		timedOut = true
	}
	// Let outstanding acknowledgements settle.
	r.Quiesce()
	r.mu.Lock()
	dl := r.Delivered
	r.mu.Unlock()
	to := 0
	if timedOut {
		to = 1
	}
	for _, ep := range []string{"c", "s"} {
		i := epIdx[ep]
		r.mu.Lock()
		bad := 0
		for k, kb := range r.kept[i] {
			if sum32(kb) != r.keptSum[i][k] {
				bad++
			}
		}
		nk := len(r.kept[i])
		r.mu.Unlock()
		r.Rec.Emit("recvKept", "ep", ep, "n", nk, "bad", bad)
	}
	for _, ep := range []string{"c", "s"} {
		i := epIdx[ep]
		b, t, sz := conns[ep].VerifQueueState()
		r.Rec.Emit("end", "ep", ep, "delivered", dl[i], "want",
			cfg.Msgs[1-i], "timedOut", to, "base", int(b), "top",
			int(t), "size", int(sz), "pend", r.Net.Pending(ep))
	}
	if cfg.CloseScript != nil {
		cfg.CloseScript(r)
	} else if !cfg.NoClose {
		var cw sync.WaitGroup
		for _, ep := range []string{"c", "s"} {
			ep := ep
			cw.Add(1)
			go func() {
				defer cw.Done()
				r.Close(ep, "end")
			}()
		}
		cw.Wait()
	}
	if cfg.CloseScript != nil || !cfg.NoClose {
		stuck := 0
		select {
		case <-done:
		case <-time.After(5 * time.Minute):
			stuck = 1
		}
		cancel()
		r.Quiesce()
		r.Leaked = Goroutines("lightning-node-connect/gbn")
		names := []string{}
		for _, g := range r.Leaked {
			names = append(names, leakName(g))
		}
		sb0, rb0 := r.Blocked("c")
		sb1, rb1 := r.Blocked("s")
		r.Rec.Emit("inventory", "leaked", len(r.Leaked), "names", names,
			"stuck", stuck, "blocked",
			b2i(sb0)+b2i(rb0)+b2i(sb1)+b2i(rb1))
		if len(r.Leaked) > 0 {
			// let a leaked ticker goroutine not keep the bubble alive
			for _, ep := range []string{"c", "s"} {
				conns[ep].VerifStopPongTicker()
			}
		}
	}
	return r
}

// sum32 is a checksum of a delivered message (FNV-1a).
func sum32(b []byte) uint32 {
	h := uint32(2166136261)
	for _, x := range b {
		h = (h ^ uint32(x)) * 16777619
	}
	return h
}

// LeakName extracts the innermost gbn function of a goroutine stack.
func LeakName(stack string) string { return leakName(stack) }

// leakName extracts the innermost gbn function of a goroutine stack.
func leakName(stack string) string {
	for _, ln := range strings.Split(stack, "\n") {
		if i := strings.Index(ln, "lightning-node-connect/gbn."); i >= 0 &&
			!strings.HasPrefix(ln, "\t") {
			f := ln[i+len("lightning-node-connect/gbn."):]
			if j := strings.LastIndex(f, "("); j > 0 {
				f = f[:j]
			}
			return f
		}
	}
	return "?"
}
