// Package gbnrun runs a pair of real GoBackNConn endpoints over a scripted
// vnet inside a testing/synctest bubble and records the trace of everything
// the transport, the application and the verif hooks observed.
package gbnrun

import (
	"encoding/binary"
	"fmt"
	"runtime"
	"strings"
	"sync"
	"testing/synctest"
	"time"

	"github.com/lightninglabs/lightning-node-connect/gbn"

	"verif/harness/trace"
	"verif/harness/vnet"
)

// Payload builds the application payload of message id with the given size
// (at least 4): a 4-byte id followed by a filler derived from the id.
func Payload(id, size int) []byte {
	if size < 4 {
		size = 4
	}
	b := make([]byte, size)
	binary.BigEndian.PutUint32(b, uint32(id))
	x := uint32(id)*2654435761 + 12345
	for i := 4; i < size; i++ {
		x ^= x << 13
		x ^= x >> 17
		x ^= x << 5
		b[i] = byte(x)
	}
	return b
}

// PayloadID returns the message id of an intact payload and -1 otherwise.
func PayloadID(b []byte) int {
	if len(b) < 4 {
		return -1
	}
	id := int(binary.BigEndian.Uint32(b))
	want := Payload(id, len(b))
	for i := range b {
		if b[i] != want[i] {
			return -1
		}
	}
	return id
}

var kindNames = map[byte]string{
	gbn.SYN: "SYN", gbn.DATA: "DATA", gbn.ACK: "ACK", gbn.NACK: "NACK",
	gbn.FIN: "FIN", gbn.SYNACK: "SYNACK",
}

// KindName names a packet type byte.
func KindName(k byte) string {
	if n, ok := kindNames[k]; ok {
		return n
	}
	return fmt.Sprintf("X%d", k)
}

// Describe turns a serialized packet into trace fields.
func Describe(b []byte) []any {
	if len(b) == 0 {
		return []any{"k", "EMPTY"}
	}
	kv := []any{"k", KindName(b[0])}
	switch b[0] {
	case gbn.DATA:
		if len(b) < 4 {
			return append(kv, "seq", -1, "m", -1, "short", len(b))
		}
		m := 0
		if b[3] != gbn.TRUE {
			m = PayloadID(b[4:])
		}
		fin := 0
		if b[2] == gbn.TRUE {
			fin = 1
		}
		return append(kv, "seq", int(b[1]), "m", m, "fin", fin,
			"len", len(b)-4)
	case gbn.ACK, gbn.NACK, gbn.SYN:
		if len(b) < 2 {
			return append(kv, "seq", -1)
		}
		return append(kv, "seq", int(b[1]))
	}
	return kv
}

// Config describes one run.
type Config struct {
	N       uint8
	Static  time.Duration // static resend timeout; 0 = adaptive
	Ping    [2]time.Duration
	Pong    [2]time.Duration
	Msgs    [2]int // messages sent by client, server
	Size    func(ep string, id int) int
	Gap     func(ep string, id int) time.Duration // pause before Send(id)
	Latency time.Duration
	Decide  vnet.Decider
	Horizon time.Duration // virtual time allowed after the handshake
	Extra   []gbn.TimeoutOptions
	Chunk   int
	OnReady func(r *Run) // called (in its own goroutine) after the handshake
	NoClose bool
	// Strict marks a scenario in which the trace specification may assume a
	// silent peer: the first N Sends must return without waiting.
	Strict bool
	// ManualStart: senders wait for Run.StartSenders.
	ManualStart bool
	// HsDecide is the fate decider during the handshake (nil: no faults).
	HsDecide vnet.Decider
	// StaleC / StaleS: raw packets of an "earlier connection" queued towards
	// the client / the server before the handshake starts.
	StaleC, StaleS [][]byte
	// HsPatience: how long the harness waits for both handshakes before it
	// cancels them (default 60 s).
	HsPatience time.Duration
	// StartDelay: how long the client / the server waits before it starts
	// its handshake.
	StartDelay [2]time.Duration
	// HsProbe: after the handshake exchange one message each way and
	// record the results ("hsResult").
	HsProbe bool
	// RealTime: the run is not inside a synctest bubble.
	RealTime bool
	// NoRecv: the application of that endpoint (client, server) never calls
	// Recv.
	NoRecv [2]bool
	// RecvForever: receivers keep calling Recv until it fails.
	RecvForever bool
	// CloseScript, if set, replaces the default closing of both ends.
	CloseScript func(r *Run)
	RecvSlow    func(ep string, id int) time.Duration
	// SendLag: after the handshake the transport's send calls of the client
	// / the server return only this long after the packet went on the link.
	SendLag [2]time.Duration
}

// Run is the state of one execution.
type Run struct {
	// kept: every message Recv returned to the client / server application,
	// with its checksum at that moment
	kept    [2][][]byte
	keptSum [2][]uint32

	Cfg    Config
	Rec    *trace.Recorder
	Net    *vnet.Net
	Client *gbn.GoBackNConn
	Server *gbn.GoBackNConn

	mu        sync.Mutex
	ids       map[any]string
	Delivered [2]int
	Accepted  [2]int
	SendErr   [2]string
	RecvErr   [2]string
	Leaked    []string
	startCh   chan struct{}
	startOnce sync.Once
	calls     [2]int // Send calls started
	rets      [2]int // Send calls returned
	rcalls    [2]int // Recv calls started
	rrets     [2]int // Recv calls returned
	conns     map[string]*gbn.GoBackNConn
	extraSink gbn.VerifSinkFunc
	HsErr     [2]string
}

var epIdx = map[string]int{"c": 0, "s": 1}

func (r *Run) sink(src any, ev string, kv ...int) {
	if r.extraSink != nil {
		r.extraSink(src, ev, kv...)
	}
	if strings.HasPrefix(ev, "new:") {
		ep := "c"
		if ev == "new:server" {
			ep = "s"
		}
		r.mu.Lock()
		r.ids[src] = ep
		r.mu.Unlock()
		r.Rec.Emit("new", "ep", ep, "n", kv[0])
		return
	}
	r.mu.Lock()
	ep, ok := r.ids[src]
	r.mu.Unlock()
	if !ok {
		return
	}
	// the resend timeout in force when the syncer is consulted (the wait
	// after a resend lasts three of them, the goroutine an expected ACK
	// starts one): read from the connection's own TimeoutManager
	rt := func() int {
		if tm, ok := src.(*gbn.TimeoutManager); ok {
			return int(tm.GetResendTimeout() / time.Millisecond)
		}
		return -1
	}
	switch ev {
	case "syncWait":
		r.Rec.Emit(ev, "ep", ep, "rt", rt())
	case "add":
		r.Rec.Emit(ev, "ep", ep, "seq", kv[0], "top", kv[1])
	case "ack":
		r.Rec.Emit(ev, "ep", ep, "seq", kv[0], "valid", kv[1], "base", kv[2], "rt", rt())
	case "ackEmpty":
		r.Rec.Emit(ev, "ep", ep, "seq", kv[0])
	case "nack":
		r.Rec.Emit(ev, "ep", ep, "seq", kv[0], "resend", kv[1],
			"bumped", kv[2], "base", kv[3])
	case "rseq":
		r.Rec.Emit(ev, "ep", ep, "v", kv[0])
	case "nackSupp":
		r.Rec.Emit(ev, "ep", ep, "v", kv[0])
	case "resend":
		r.Rec.Emit(ev, "ep", ep, "base", kv[0], "top", kv[1])
	case "rx":
		r.Rec.Emit(ev, "ep", ep, "k", KindName(byte(kv[0])), "seq", kv[1],
			"len", kv[2])
	case "gtx":
		// the packet as handed to the transport: the harness transport
		// (vnet) records the same thing as "tx"
		return
	case "setN":
		r.Rec.Emit(ev, "ep", ep, "n", kv[0])
	case "pongTimeout":
		r.Rec.Emit(ev, "ep", ep, "inner", kv[0])
	case "hsTimeout":
		// the handshake timeout in force when the wait ends (the loops read
		// it right before they start to wait; nothing changes it meanwhile)
		to := -1
		if tm, ok := src.(*gbn.TimeoutManager); ok {
			to = int(tm.GetHandshakeTimeout() / time.Millisecond)
		}
		r.Rec.Emit(ev, "ep", ep, "to", to)
	default:
		r.Rec.Emit(ev, "ep", ep)
	}
}

func (c *Config) opts(i int) []gbn.Option {
	var to []gbn.TimeoutOptions
	if c.Static > 0 {
		to = append(to, gbn.WithStaticResendTimeout(c.Static))
	}
	if c.Ping[i] > 0 {
		to = append(to, gbn.WithKeepalivePing(c.Ping[i], c.Pong[i]))
	}
	to = append(to, c.Extra...)
	o := []gbn.Option{gbn.WithTimeoutOptions(to...)}
	if c.Chunk > 0 {
		o = append(o, gbn.WithMaxSendSize(c.Chunk))
	}
	return o
}

// Goroutines returns the stacks of live goroutines that have a frame in the
// given package path fragment, excluding the caller.
func Goroutines(fragment string) []string {
	buf := make([]byte, 1<<20)
	for {
		n := runtime.Stack(buf, true)
		if n < len(buf) {
			buf = buf[:n]
			break
		}
		buf = make([]byte, 2*len(buf))
	}
	var out []string
	for i, g := range strings.Split(string(buf), "\n\n") {
		if i == 0 {
			continue // the caller
		}
		if strings.Contains(g, fragment) {
			out = append(out, g)
		}
	}
	return out
}

// StartSenders releases the application senders (ManualStart).
func (r *Run) StartSenders() { r.startOnce.Do(func() { close(r.startCh) }) }

// Probe records, at a quiescent instant, how many Send calls of endpoint ep
// have returned and whether one is still blocked.
func (r *Run) Probe(ep string) {
	i := epIdx[ep]
	r.mu.Lock()
	calls, rets := r.calls[i], r.rets[i]
	r.mu.Unlock()
	blocked := 0
	if calls > rets {
		blocked = 1
	}
	r.Rec.Emit("probe", "ep", ep, "returned", rets, "blocked", blocked)
}

// Quiesce waits until every other goroutine of the bubble is durably blocked
// (or, in real-time runs, for a short while).
func (r *Run) Quiesce() {
	if r.Cfg.RealTime {
		time.Sleep(30 * time.Millisecond)
		return
	}
	synctest.Wait()
}

// Blocked reports whether a Send / a Recv call of endpoint ep is in progress.
func (r *Run) Blocked(ep string) (bool, bool) {
	i := epIdx[ep]
	r.mu.Lock()
	defer r.mu.Unlock()
	return r.calls[i] > r.rets[i], r.rcalls[i] > r.rrets[i]
}

// NoteBlocked records which application calls of ep are in progress; call it
// at a quiescent instant (after synctest.Wait) so that they are blocked ones.
func (r *Run) NoteBlocked(ep string) {
	sb, rb := r.Blocked(ep)
	r.Rec.Emit("blockedAtClose", "ep", ep, "send", b2i(sb), "recv", b2i(rb))
}

func b2i(b bool) int {
	if b {
		return 1
	}
	return 0
}

// Close calls Close on endpoint ep and records call and return.  A Close
// that does not return within the patience is recorded as "closeStuck"; the
// harness then drains the endpoint's Recv so that the run can end.
func (r *Run) Close(ep string, tag string) {
	r.Rec.Emit("closeCall", "ep", ep, "tag", tag)
	t0 := time.Now()
	conn := r.conns[ep]
	done := make(chan error, 1)
	go func() { done <- conn.Close() }()
	patience := 30 * time.Second
	if r.Cfg.RealTime {
		patience = 4 * time.Second
	}
	var err error
	select {
	case err = <-done:
	case <-time.After(patience):
		r.Rec.Emit("closeStuck", "ep", ep, "tag", tag)
		go func() {
			for {
				if _, e := conn.Recv(); e != nil {
					return
				}
			}
		}()
		err = <-done
	}
	r.Rec.Emit("closeRet", "ep", ep, "tag", tag, "err", errStr(err),
		"w", int(time.Since(t0)/time.Millisecond))
}

// PostCalls issues a Send and a Recv on a closed endpoint and records them.
func (r *Run) PostCalls(ep string) {
	t0 := time.Now()
	err := r.conns[ep].Send(Payload(999, 8))
	r.Rec.Emit("postSend", "ep", ep, "err", errStr(err),
		"w", int(time.Since(t0)/time.Millisecond))
	t0 = time.Now()
	_, err = r.conns[ep].Recv()
	r.Rec.Emit("postRecv", "ep", ep, "err", errStr(err),
		"w", int(time.Since(t0)/time.Millisecond))
}

// ExecuteWithSink is Execute with an additional sink that sees every hook
// event first (e.g. the ticker hooks, which belong to no connection).
func ExecuteWithSink(cfg Config, extra gbn.VerifSinkFunc) *Run {
	r := &Run{Cfg: cfg, Rec: trace.New(), ids: map[any]string{},
		startCh: make(chan struct{}), extraSink: extra}
	return r.execute()
}

// Execute runs the configured scenario.  It must be called from inside a
// synctest bubble.  The returned Run holds the recorded trace.
func Execute(cfg Config) *Run {
	r := &Run{Cfg: cfg, Rec: trace.New(), ids: map[any]string{},
		startCh: make(chan struct{})}
	return r.execute()
}
