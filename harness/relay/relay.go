// Package relay is an in-process stand-in for the hashmail relay (aperture's
// hashmail server) behind the hashmailrpc.HashMailClient interface: named
// one-way streams with one reader and one writer each, "stream not found" /
// "read|write stream occupied" / AlreadyExists errors, release of a stream
// end when its client context ends, and scripted faults (per-message drop or
// delay, breaking a stream).  It records every CipherBox it sees.
package relay

import (
	"context"
	"errors"
	"fmt"
	"io"
	"strings"
	"sync"
	"sync/atomic"
	"time"

	"github.com/lightninglabs/lightning-node-connect/hashmailrpc"
	"github.com/lightninglabs/lightning-node-connect/mailbox"
	"google.golang.org/grpc"
	"google.golang.org/grpc/codes"
	"google.golang.org/grpc/metadata"
	"google.golang.org/grpc/status"
)

// Event is something the relay observed.
type Event struct {
	Ev  string // newbox, delbox, openRecv, openSend, msg, drop, deliver, break, closeRecv, closeSend
	SID string
	Len int
	Err string
	T   time.Duration
	// Head holds the first bytes (at most 4) of the message of a msg / drop
	// event, Plain whether the relay's leak detector matched the message.
	Head  []byte
	Plain bool
	// Who names the party whose call produced the event (from the call's
	// context, see WhoOf); set on openRecv / recvErr / sendErr / deliver.
	Who string
}

// Namer is implemented by the value a harness stores in a party's context
// under mailbox.VerifWhoKey{}.
type Namer interface{ WhoName() string }

// WhoOf returns the name of the party that owns ctx ("" if it has none: the
// server's listener context carries no name).
func WhoOf(ctx context.Context) string {
	if ctx == nil {
		return ""
	}
	if n, ok := ctx.Value(mailbox.VerifWhoKey{}).(Namer); ok {
		return n.WhoName()
	}
	return ""
}

// errClass is the class of a stream error as the mailbox client sorts them.
func errClass(err error) string {
	switch {
	case err == nil:
		return ""
	case strings.Contains(err.Error(), "stream not found"):
		return "notfound"
	case strings.Contains(err.Error(), "stream occupied"):
		return "occupied"
	}
	return "other"
}

// emitWho records an event attributed to a party.
func (r *Relay) emitWho(ev, sid, who, err string) {
	e := Event{Ev: ev, SID: sid, Err: err, Who: who, T: time.Since(r.start)}
	r.Events = append(r.Events, e)
	if r.OnEvent != nil {
		r.OnEvent(e)
	}
}

// Fate of a relayed message.
type Fate struct {
	Drop  bool
	Delay time.Duration
	// Replace, if not nil, is delivered instead of the message (a relay that
	// corrupts what it carries).
	Replace []byte
}

type stream struct {
	id     string
	q      [][]byte
	notify chan struct{}
	reader *recvStream
	writer *sendStream
}

// Relay is the fake hashmail server.
type Relay struct {
	mu      sync.Mutex
	streams map[string]*stream
	start   time.Time
	Events  []Event
	// Payloads holds every message payload the relay has seen, in order.
	Payloads [][]byte
	// Decide, if set, gives the fate of the idx-th message written to the
	// stream with the given id.
	Decide func(sid string, idx int, msg []byte) Fate
	count  map[string]int
	// OnEvent, if set, is called (under the relay lock) for every event.
	OnEvent func(Event)
	// Leak, if set, inspects every message the relay sees and reports
	// whether it contains something that should never be visible to it.
	Leak func(msg []byte) bool
	// slowClose: how long CloseSend on a receive stream takes (nanoseconds;
	// a half-close that has to wait for the transport).
	// failNext: how many of the next Send calls on a stream fail with a
	// stream error (each also detaches the writer, as a broken connection to
	// the relay would): several in a row make the sender's retry fail too
	failNext     map[string]int
	slowClose    atomic.Int64
	loseDelReply atomic.Int64
	// nextWho: the party to attribute the next event to (set under mu)
	nextWho       string
	slowSendClose atomic.Int64
}

// SetSlowSendClose makes every later CloseSend of a send stream take d (the
// write end is released first, as when the half-close has to be flushed).
func (r *Relay) SetSlowSendClose(d time.Duration) { r.slowSendClose.Store(int64(d)) }

// SetSlowRecvClose makes every later CloseSend of a receive stream take d.
func (r *Relay) SetSlowRecvClose(d time.Duration) { r.slowClose.Store(int64(d)) }

// New creates a relay.
func New() *Relay {
	return &Relay{streams: map[string]*stream{}, start: time.Now(), count: map[string]int{}}
}

func (r *Relay) emit(ev, sid string, n int, err string) { r.emitMsg(ev, sid, n, err, nil) }

func (r *Relay) emitMsg(ev, sid string, n int, err string, msg []byte) {
	e := Event{Ev: ev, SID: sid, Len: n, Err: err, T: time.Since(r.start), Who: r.nextWho}
	r.nextWho = ""
	if msg != nil {
		h := len(msg)
		if h > 4 {
			h = 4
		}
		e.Head = append([]byte(nil), msg[:h]...)
		if r.Leak != nil {
			e.Plain = r.Leak(msg)
		}
	}
	r.Events = append(r.Events, e)
	if r.OnEvent != nil {
		r.OnEvent(e)
	}
}

func sidOf(b []byte) string { return fmt.Sprintf("%x", b) }

// Exists reports whether the cipher box exists.
func (r *Relay) Exists(sid []byte) bool {
	r.mu.Lock()
	defer r.mu.Unlock()
	_, ok := r.streams[sidOf(sid)]
	return ok
}

// FailSends makes the next k Send calls on the stream fail.
func (r *Relay) FailSends(sid []byte, k int) {
	r.mu.Lock()
	if r.failNext == nil {
		r.failNext = map[string]int{}
	}
	r.failNext[sidOf(sid)] = k
	r.mu.Unlock()
}

// Break ends the current reader and writer attachments of a stream with an
// error, as a network failure between the parties and the relay would.
func (r *Relay) Break(sid []byte, reader, writer bool) {
	r.mu.Lock()
	s := r.streams[sidOf(sid)]
	var rs *recvStream
	var ws *sendStream
	if s != nil {
		if reader && s.reader != nil {
			rs = s.reader
			s.reader = nil
		}
		if writer && s.writer != nil {
			ws = s.writer
			s.writer = nil
		}
		r.emit("break", sidOf(sid), 0, "")
	}
	r.mu.Unlock()
	if rs != nil {
		rs.fail(errors.New("rpc error: code = Unavailable desc = transport is closing"))
	}
	if ws != nil {
		ws.fail()
	}
}

// Restart loses all state, as a restart of the relay process does: every
// attachment ends with an error and every mailbox (with what it held) is gone.
func (r *Relay) Restart() {
	r.mu.Lock()
	var rss []*recvStream
	var wss []*sendStream
	for id, s := range r.streams {
		if s.reader != nil {
			rss = append(rss, s.reader)
			s.reader = nil
		}
		if s.writer != nil {
			wss = append(wss, s.writer)
			s.writer = nil
		}
		delete(r.streams, id)
		r.emit("delbox", id, 0, "restart")
	}
	r.mu.Unlock()
	for _, rs := range rss {
		rs.fail(errors.New("rpc error: code = Unavailable desc = transport is closing"))
	}
	for _, ws := range wss {
		ws.fail()
	}
}

// NewCipherBox implements hashmailrpc.HashMailClient.
func (r *Relay) NewCipherBox(ctx context.Context, in *hashmailrpc.CipherBoxAuth,
	_ ...grpc.CallOption) (*hashmailrpc.CipherInitResp, error) {

	if err := ctx.Err(); err != nil {
		return nil, err
	}
	sid := sidOf(in.Desc.StreamId)
	r.mu.Lock()
	defer r.mu.Unlock()
	if _, ok := r.streams[sid]; ok {
		r.emit("newbox", sid, 0, "exists")
		return nil, status.Error(codes.AlreadyExists, "stream already active")
	}
	r.streams[sid] = &stream{id: sid, notify: make(chan struct{}, 1)}
	r.emit("newbox", sid, 0, "")
	return &hashmailrpc.CipherInitResp{
		Resp: &hashmailrpc.CipherInitResp_Success{Success: &hashmailrpc.CipherSuccess{Desc: in.Desc}},
	}, nil
}

// DelCipherBox implements hashmailrpc.HashMailClient.
func (r *Relay) DelCipherBox(ctx context.Context, in *hashmailrpc.CipherBoxAuth,
	_ ...grpc.CallOption) (*hashmailrpc.DelCipherBoxResp, error) {

	sid := sidOf(in.Desc.StreamId)
	r.mu.Lock()
	s, ok := r.streams[sid]
	if !ok {
		r.emit("delbox", sid, 0, "notfound")
		r.mu.Unlock()
		return nil, errors.New("stream not found")
	}
	delete(r.streams, sid)
	rs, ws := s.reader, s.writer
	r.emit("delbox", sid, 0, "")
	r.mu.Unlock()
	if rs != nil {
		rs.fail(errors.New("stream not found"))
	}
	if ws != nil {
		ws.fail()
	}
	if r.loseDelReply.Add(-1) >= 0 {
		// the box is gone but the answer is lost on the way back
		return nil, status.Error(codes.Unavailable, "transport is closing")
	}
	r.loseDelReply.Store(0)
	return &hashmailrpc.DelCipherBoxResp{}, nil
}

// LoseDelReplies makes the next k DelCipherBox calls that delete a box return
// an error although the box was deleted (the answer is lost).
func (r *Relay) LoseDelReplies(k int) { r.loseDelReply.Store(int64(k)) }

// ---- receive side -------------------------------------------------------

type recvStream struct {
	dummyStream
	r      *Relay
	s      *stream
	ctx    context.Context
	first  error // error to report at the first Recv
	sid    string
	failed chan struct{}
	ferr   error
	once   sync.Once
}

func (rs *recvStream) fail(err error) {
	rs.once.Do(func() { rs.ferr = err; close(rs.failed) })
}

// RecvStream implements hashmailrpc.HashMailClient.
func (r *Relay) RecvStream(ctx context.Context, in *hashmailrpc.CipherBoxDesc,
	_ ...grpc.CallOption) (hashmailrpc.HashMail_RecvStreamClient, error) {

	if err := ctx.Err(); err != nil {
		return nil, err
	}
	sid := sidOf(in.StreamId)
	rs := &recvStream{r: r, ctx: ctx, failed: make(chan struct{}), sid: sid}
	rs.dummyStream.ctx = ctx
	r.mu.Lock()
	s, ok := r.streams[sid]
	switch {
	case !ok:
		rs.first = errors.New("rpc error: code = Unknown desc = stream not found")
		r.emitWho("openRecv", sid, WhoOf(ctx), "notfound")
	case s.reader != nil:
		rs.first = errors.New("rpc error: code = Unknown desc = read stream occupied")
		r.emitWho("openRecv", sid, WhoOf(ctx), "occupied")
	default:
		s.reader = rs
		rs.s = s
		r.emitWho("openRecv", sid, WhoOf(ctx), "")
	}
	r.mu.Unlock()
	if rs.s != nil {
		// release the read end when the client's context ends
		go func() {
			select {
			case <-ctx.Done():
				r.mu.Lock()
				if rs.s.reader == rs {
					rs.s.reader = nil
					r.emit("closeRecv", sid, 0, "ctx")
				}
				r.mu.Unlock()
			case <-rs.failed:
			}
		}()
	}
	return rs, nil
}

// Recv returns the next message of the stream; every error it returns is
// recorded first (recvErr, with the class of the error and the caller).
func (rs *recvStream) Recv() (*hashmailrpc.CipherBox, error) {
	box, err := rs.recv()
	if err != nil {
		sid := rs.sid
		rs.r.mu.Lock()
		rs.r.emitWho("recvErr", sid, WhoOf(rs.ctx), errClass(err))
		rs.r.mu.Unlock()
	}
	return box, err
}

func (rs *recvStream) recv() (*hashmailrpc.CipherBox, error) {
	if rs.first != nil {
		return nil, rs.first
	}
	for {
		rs.r.mu.Lock()
		if rs.s.reader != rs {
			rs.r.mu.Unlock()
			if rs.ferr != nil {
				return nil, rs.ferr
			}
			return nil, io.EOF
		}
		if len(rs.s.q) > 0 {
			m := rs.s.q[0]
			rs.s.q = rs.s.q[1:]
			rs.r.nextWho = WhoOf(rs.ctx)
			rs.r.emitMsg("deliver", rs.s.id, len(m), "", m)
			rs.r.mu.Unlock()
			return &hashmailrpc.CipherBox{
				Desc: &hashmailrpc.CipherBoxDesc{StreamId: nil}, Msg: m}, nil
		}
		rs.r.mu.Unlock()
		select {
		case <-rs.ctx.Done():
			return nil, status.Error(codes.Canceled, rs.ctx.Err().Error())
		case <-rs.failed:
			return nil, rs.ferr
		case <-rs.s.notify:
		}
	}
}

// CloseSend on a receive stream does nothing: RecvStream is a server-streaming
// call whose request side was half-closed when it was opened; the relay
// releases the read end only when the call's context ends (or the stream
// breaks).
func (rs *recvStream) CloseSend() error {
	if d := time.Duration(rs.r.slowClose.Load()); d > 0 {
		time.Sleep(d)
	}
	return nil
}

// ---- send side ------------------------------------------------------------

type sendStream struct {
	dummyStream
	r      *Relay
	ctx    context.Context
	s      *stream
	opened bool
	dead   bool
	mu     sync.Mutex
}

func (ws *sendStream) fail() {
	ws.mu.Lock()
	ws.dead = true
	ws.mu.Unlock()
}

// SendStream implements hashmailrpc.HashMailClient.
func (r *Relay) SendStream(ctx context.Context, _ ...grpc.CallOption) (
	hashmailrpc.HashMail_SendStreamClient, error) {

	if err := ctx.Err(); err != nil {
		return nil, err
	}
	ws := &sendStream{r: r, ctx: ctx}
	ws.dummyStream.ctx = ctx
	return ws, nil
}

// Send hands a message to the relay; every error it returns is recorded first
// (sendErr, with the caller).
func (ws *sendStream) Send(box *hashmailrpc.CipherBox) error {
	err := ws.send(box)
	if err != nil {
		ws.r.mu.Lock()
		ws.r.emitWho("sendErr", sidOf(box.Desc.StreamId), WhoOf(ws.ctx), errClass(err))
		ws.r.mu.Unlock()
	}
	return err
}

func (ws *sendStream) send(box *hashmailrpc.CipherBox) error {
	if err := ws.ctx.Err(); err != nil {
		return status.Error(codes.Canceled, err.Error())
	}
	ws.mu.Lock()
	dead := ws.dead
	ws.mu.Unlock()
	if dead {
		return io.EOF
	}
	sid := sidOf(box.Desc.StreamId)
	r := ws.r
	r.mu.Lock()
	if r.failNext[sid] > 0 {
		r.failNext[sid]--
		if ws.s != nil && ws.s.writer == ws {
			ws.s.writer = nil
		}
		ws.opened = true
		r.emit("sendFail", sid, len(box.Msg), "")
		r.mu.Unlock()
		ws.fail()
		return io.EOF
	}
	if !ws.opened {
		// the server looks the stream up when the first message arrives;
		// if that fails the message is lost and later sends fail
		ws.opened = true
		s, ok := r.streams[sid]
		switch {
		case !ok:
			r.emit("openSend", sid, 0, "notfound")
			ws.dead = true
		case s.writer != nil:
			r.emit("openSend", sid, 0, "occupied")
			ws.dead = true
		default:
			s.writer = ws
			ws.s = s
			r.emit("openSend", sid, 0, "")
			go func() {
				<-ws.ctx.Done()
				r.mu.Lock()
				if s.writer == ws {
					s.writer = nil
					r.emit("closeSend", sid, 0, "ctx")
				}
				r.mu.Unlock()
			}()
		}
		if ws.dead {
			r.Payloads = append(r.Payloads, append([]byte(nil), box.Msg...))
			r.emitMsg("msg", sid, len(box.Msg), "lost-no-stream", box.Msg)
			r.mu.Unlock()
			return nil
		}
	}
	if ws.s == nil || ws.s.writer != ws {
		r.mu.Unlock()
		return io.EOF
	}
	msg := append([]byte(nil), box.Msg...)
	r.Payloads = append(r.Payloads, msg)
	idx := r.count[sid]
	r.count[sid]++
	f := Fate{}
	if r.Decide != nil {
		f = r.Decide(sid, idx, msg)
	}
	if f.Drop {
		r.emitMsg("drop", sid, len(msg), "", msg)
		r.mu.Unlock()
		return nil
	}
	r.emitMsg("msg", sid, len(msg), "", msg)
	if f.Replace != nil {
		msg = append([]byte(nil), f.Replace...)
	}
	s := ws.s
	if f.Delay > 0 {
		r.mu.Unlock()
		// order preserving: the writer is held up
		time.Sleep(f.Delay)
		r.mu.Lock()
	}
	s.q = append(s.q, msg)
	r.emitMsg("enq", sid, len(msg), "", msg)
	r.mu.Unlock()
	select {
	case s.notify <- struct{}{}:
	default:
	}
	return nil
}

func (ws *sendStream) CloseAndRecv() (*hashmailrpc.CipherBoxDesc, error) {
	ws.CloseSend()
	return &hashmailrpc.CipherBoxDesc{}, nil
}

func (ws *sendStream) CloseSend() error {
	ws.r.mu.Lock()
	if ws.s != nil && ws.s.writer == ws {
		ws.s.writer = nil
		ws.r.emit("closeSend", ws.s.id, 0, "")
	}
	ws.r.mu.Unlock()
	ws.fail()
	if d := time.Duration(ws.r.slowSendClose.Load()); d > 0 {
		time.Sleep(d)
	}
	return nil
}

// ---- grpc.ClientStream boilerplate -------------------------------------------

type dummyStream struct{ ctx context.Context }

func (d *dummyStream) Header() (metadata.MD, error) { return nil, nil }
func (d *dummyStream) Trailer() metadata.MD         { return nil }
func (d *dummyStream) CloseSend() error             { return nil }
func (d *dummyStream) Context() context.Context     { return d.ctx }
func (d *dummyStream) SendMsg(m interface{}) error  { return nil }
func (d *dummyStream) RecvMsg(m interface{}) error  { return nil }

var _ hashmailrpc.HashMailClient = (*Relay)(nil)
