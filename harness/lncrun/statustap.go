package lncrun

import (
	"sync"
	"time"

	"github.com/lightninglabs/lightning-node-connect/mailbox"
)

// The status tap routes the hooks of the client connections' status registers
// (mailbox.vtraceClient: status / statusKept written under the register's
// mutex, and what asked for it - recvOk, recvFail, sendFail, finCb) to the
// session that owns the client: the session stored a whoTag in the Client's
// context and the hook hands it back.

type whoTag struct {
	s    *Session
	name string
}

// WhoName implements relay.Namer.
func (w *whoTag) WhoName() string { return w.name }

func whoOr(w string) string {
	if w == "" {
		return "s"
	}
	return w
}

var statusOnce sync.Once

func installStatusTap() {
	statusOnce.Do(func() {
		mailbox.SetVerifSink(func(src any, ev string, kv ...int) {
			cs, ok := src.(mailbox.VerifClientSrc)
			if !ok || len(kv) < 1 {
				return
			}
			w, ok := cs.Who.(*whoTag)
			if !ok {
				return
			}
			s := w.s
			// the connection's number and the line are issued under one
			// lock: lines of one register appear in the order of its mutex
			s.statMu.Lock()
			id, seen := s.statIDs[cs.Conn]
			if !seen {
				id = len(s.statIDs) + 1
				s.statIDs[cs.Conn] = id
			}
			s.statCount++
			s.Stat.Emit("cstat", "who", w.name, "conn", id, "op", ev, "st", kv[0])
			s.statMu.Unlock()
		})
	})
}

var statusCode = map[mailbox.ClientStatus]int{
	mailbox.ClientStatusNotConnected:    0,
	mailbox.ClientStatusSessionNotFound: 1,
	mailbox.ClientStatusSessionInUse:    2,
	mailbox.ClientStatusConnected:       3,
}

// PollStatus records what Client.ConnStatus reports for the pairing client
// ("c") or the second client ("x").  The register hook fires inside
// setStatus just before the callback that writes Client.status, so the value
// is only recorded when it was the same 15 ms apart with no register line of
// the session written in between (otherwise the poll is repeated, then given up).
func (s *Session) PollStatus(who string) int {
	cli := s.Cli
	if who == "x" {
		cli = s.XCli
	}
	for try := 0; try < 40; try++ {
		s.statMu.Lock()
		n1 := s.statCount
		s.statMu.Unlock()
		v1 := cli.ConnStatus()
		time.Sleep(15 * time.Millisecond)
		s.statMu.Lock()
		if s.statCount == n1 && cli.ConnStatus() == v1 {
			s.Stat.Emit("pub", "who", who, "st", statusCode[v1])
			s.statMu.Unlock()
			return statusCode[v1]
		}
		s.statMu.Unlock()
	}
	return -1
}
