// Package lncrun drives the real mailbox layer of lightning-node-connect -
// mailbox.Server (listener), mailbox.Client (dialer), ServerConn/ClientConn
// with their real Go-Back-N connections, and NoiseGrpcConn on top - against
// the in-process relay of package relay, the way gRPC drives them: the
// listener's Accept is called in a loop, every accepted connection gets a
// server handshake by the one NoiseGrpcConn credentials object of the party,
// a connection whose Read fails is closed by its owner.
//
// Everything runs in real time (the mailbox layer's retry loops wait on
// mutexes, which a synctest bubble cannot treat as idle); verdicts never
// depend on exact timing, only on generous patience bounds.
//
// Every observation goes to one trace.Recorder per session.
package lncrun

import (
	"bytes"
	"context"
	"crypto/sha256"
	"encoding/binary"
	"encoding/hex"
	"errors"
	"fmt"
	"net"
	"sync"
	"sync/atomic"
	"time"

	"github.com/btcsuite/btcd/btcec/v2"
	"github.com/lightninglabs/lightning-node-connect/mailbox"
	"github.com/lightningnetwork/lnd/keychain"

	"verif/harness/relay"
	"verif/harness/trace"
	"verif/harness/wsrelay"
)

// Magic starts every 32-byte block of application plaintext and the auth
// data, so that plaintext is recognisable in anything the relay sees.
var Magic = []byte("LNCPLAIN")

// Block returns the i-th 32-byte plaintext block of the stream with the given
// tag and direction ('c' = written by the client, 's' = by the server).
func Block(tag uint64, dir byte, i uint64) []byte {
	b := make([]byte, 32)
	copy(b, Magic)
	binary.BigEndian.PutUint64(b[8:], tag)
	binary.BigEndian.PutUint64(b[16:], i)
	b[16] = dir
	h := sha256.Sum256(b[:24])
	copy(b[24:], h[:8])
	return b
}

// Fill writes the plaintext of stream (tag, dir) at offsets [off, off+len(p)).
func Fill(p []byte, tag uint64, dir byte, off uint64) {
	for n := 0; n < len(p); {
		blk := Block(tag, dir, (off+uint64(n))/32)
		n += copy(p[n:], blk[(off+uint64(n))%32:])
	}
}

// Party is one side's long-lived state: its connection data and the one
// NoiseGrpcConn it uses as transport credentials for every connection.
type Party struct {
	Name  string // "s", "c" or "x" (a second, unpaired client)
	Key   *btcec.PrivateKey
	Data  *mailbox.ConnData
	Noise *mailbox.NoiseGrpcConn
}

// Conn is one secured connection as handed to the application.
type Conn struct {
	S       *Session
	Side    string
	ID      int      // per session, in the order the transport conns were handed out
	Raw     net.Conn // what Accept / Dial returned
	Sec     net.Conn // what the Noise handshake returned (nil if it failed)
	HsErr   error
	Pattern string
	Version int
	Tag     uint64 // stream tag (chosen by the client, learnt by the server)

	mu       sync.Mutex
	wOff     uint64
	rOff     uint64
	readErr  error
	readDone chan struct{}
	tagKnown chan struct{}
	closed   bool
	// closeReturned is set when Close is called on the connection and
	// closed when the transport's Close has returned
	closeReturned chan struct{}
	// stopAfter > 0: the reader stops for good (without draining) once it
	// has read that many bytes, like a reader that hits a protocol error
	stopAfter uint64
	keepOnErr bool
}

// StopReaderAfter makes this side's reader stop reading once it has read n
// bytes of the peer's stream.
func (c *Conn) StopReaderAfter(n uint64) { c.mu.Lock(); c.stopAfter = n; c.mu.Unlock() }

// Session is one relay with one server, one client and optionally a second
// client.
type Session struct {
	Relay *relay.Relay
	Rec   *trace.Recorder
	// Stat records what the status specification (Status.tla) is about: the
	// client connections' status registers (hooks), the relay's answers to
	// the parties' stream calls, the server's status callbacks, and polls of
	// Client.ConnStatus.
	Stat      *trace.Recorder
	statMu    sync.Mutex
	statIDs   map[*mailbox.ClientConn]int
	statCount int
	doors     []*wsrelay.Server
	Host      string

	S, C, X *Party
	Srv     *mailbox.Server
	Cli     *mailbox.Client
	XCli    *mailbox.Client

	Entropy []byte
	sidName map[string]string

	mu      sync.Mutex
	nextID  int
	handed  map[string][]*Conn // per side: every transport conn handed out
	accepts chan *Conn
	ctx     context.Context
	cancel  func()
	wg      sync.WaitGroup

	// Patience bounds the time the harness waits for anything.
	Patience time.Duration
	readBuf  [2]int
}

type doner interface{ Done() <-chan struct{} }

func ecdh(k *btcec.PrivateKey) keychain.SingleKeyECDH { return &keychain.PrivKeyECDH{PrivKey: k} }

func newKey() *btcec.PrivateKey {
	k, err := btcec.NewPrivateKey()
	if err != nil {
		panic(err)
	}
	return k
}

// Options of a session.
type Options struct {
	// V1: both parties offer handshake versions up to 1 only (no static keys
	// are kept); default is up to 2.
	V1 bool
	// SrvV1: only the server is limited to version 1 (an older server); the
	// client offers up to 2 and negotiates down.
	SrvV1 bool
	// PrePaired: both parties already know each other's static key.
	PrePaired bool
	// Websocket: the clients reach the relay through the REST/websocket
	// front door (package wsrelay) with the real websocketTransport instead
	// of the gRPC transport; the server always uses gRPC.
	Websocket bool
	Patience  time.Duration
	// AuthRejects: the pairing client's auth-data callback (the hook with
	// which an application stores the macaroon) takes a while and then
	// refuses the payload that many times before it accepts one, as a
	// storage failure would: Noise.DoHandshake fails on the client although
	// the handshake itself ran to its end.
	AuthRejects int
	// ReadBuf is the size of the buffer the client's / the server's reader
	// passes to Read (default 40000).
	ReadBuf [2]int
}

// New creates the relay, the parties, the listener and the dialer.
func New(o Options) (*Session, error) {
	installLinkTap()
	installStatusTap()
	s := &Session{Relay: relay.New(), Rec: trace.New(), Stat: trace.New(),
		statIDs: map[*mailbox.ClientConn]int{}, Host: "relay.test:443",
		handed: map[string][]*Conn{}, accepts: make(chan *Conn, 64),
		sidName: map[string]string{}, Patience: o.Patience}
	if s.Patience == 0 {
		s.Patience = 60 * time.Second
	}
	s.readBuf = o.ReadBuf
	for i := range s.readBuf {
		if s.readBuf[i] <= 0 {
			s.readBuf[i] = 40000
		}
	}
	s.ctx, s.cancel = context.WithCancel(context.Background())
	s.Entropy = []byte{11, 22, 33, 44, 55, 66, 77, 88, 99, 110, 121, 132, 143, 0}
	auth := append([]byte("macaroon: "), Magic...)
	auth = append(auth, []byte("0201036c6e6402f801")...)
	mk := func(name string, auth []byte, max byte) *Party {
		p := &Party{Name: name, Key: newKey()}
		p.Data = mailbox.NewConnData(ecdh(p.Key), nil, s.Entropy, auth, nil, nil)
		p.Noise = mailbox.NewNoiseGrpcConn(p.Data, mailbox.WithMaxHandshakeVersion(max))
		return p
	}
	max := byte(2)
	if o.V1 {
		max = 1
	}
	smax := max
	if o.SrvV1 {
		smax = 1
	}
	s.S = mk("s", auth, smax)
	s.C = mk("c", nil, max)
	s.X = mk("x", nil, max)
	if o.AuthRejects > 0 {
		left := int32(o.AuthRejects)
		s.C.Data = mailbox.NewConnData(ecdh(s.C.Key), nil, s.Entropy, nil, nil,
			func(data []byte) error {
				if atomic.AddInt32(&left, -1) >= 0 {
					// long enough for the last handshake act, already
					// handed to the transport, to reach the server
					time.Sleep(1500 * time.Millisecond)
					return errors.New("verif: auth data could not be stored")
				}
				return nil
			})
		s.C.Noise = mailbox.NewNoiseGrpcConn(s.C.Data, mailbox.WithMaxHandshakeVersion(max))
	}
	if o.PrePaired {
		s.S.Data = mailbox.NewConnData(ecdh(s.S.Key), s.C.Key.PubKey(), s.Entropy, auth, nil, nil)
		s.S.Noise = mailbox.NewNoiseGrpcConn(s.S.Data)
		s.C.Data = mailbox.NewConnData(ecdh(s.C.Key), s.S.Key.PubKey(), s.Entropy, nil, nil, nil)
		s.C.Noise = mailbox.NewNoiseGrpcConn(s.C.Data)
	}
	// names of the four stream ids
	pd := mailbox.NewConnData(ecdh(s.S.Key), nil, s.Entropy, nil, nil, nil)
	kd := mailbox.NewConnData(ecdh(s.S.Key), s.C.Key.PubKey(), s.Entropy, nil, nil, nil)
	xd := mailbox.NewConnData(ecdh(s.S.Key), s.X.Key.PubKey(), s.Entropy, nil, nil, nil)
	for name, d := range map[string]*mailbox.ConnData{"P": pd, "K": kd, "KX": xd} {
		sid, err := d.SID()
		if err != nil {
			return nil, err
		}
		s2c, c2s := mailbox.GetSID(sid, true), mailbox.GetSID(sid, false)
		s.sidName[fmt.Sprintf("%x", s2c[:])] = name + ".s2c"
		s.sidName[fmt.Sprintf("%x", c2s[:])] = name + ".c2s"
		s.sidName[fmt.Sprintf("%x", sid[:])] = name
	}
	secrets := [][]byte{Magic, s.Entropy, s.S.Key.PubKey().SerializeCompressed(),
		s.C.Key.PubKey().SerializeCompressed(), s.S.Key.PubKey().SerializeCompressed()[1:],
		s.C.Key.PubKey().SerializeCompressed()[1:], s.S.Key.Serialize(), s.C.Key.Serialize()}
	s.Relay.Leak = func(msg []byte) bool {
		for _, x := range secrets {
			if bytes.Contains(msg, x) {
				return true
			}
		}
		return false
	}
	s.Relay.OnEvent = func(e relay.Event) {
		switch e.Ev {
		case "recvErr", "sendErr":
			// new with the status specification; the other trace
			// specifications do not know them
			s.Stat.Emit("relay", "op", e.Ev, "sid", s.SidName(e.SID), "who", whoOr(e.Who), "cls", e.Err)
			return
		case "openRecv", "deliver", "newbox", "delbox":
			s.Stat.Emit("relay", "op", e.Ev, "sid", s.SidName(e.SID), "who", whoOr(e.Who), "cls", e.Err)
		}
		if e.Head == nil {
			s.Rec.Emit("relay", "op", e.Ev, "sid", s.SidName(e.SID), "len", e.Len, "err", e.Err)
			return
		}
		// what the relay sees of a message: the GBN packet type, for DATA
		// the final-chunk and ping flags, and whether the leak detector
		// matched (application plaintext, auth data, the passphrase
		// entropy, a static public or private key)
		kind, fin, ping, seq := -1, 0, 0, -1
		if len(e.Head) > 0 {
			kind = int(e.Head[0])
		}
		if len(e.Head) > 1 {
			seq = int(e.Head[1])
		}
		if kind == 2 && len(e.Head) >= 4 { // gbn.DATA
			fin, ping = int(e.Head[2]), int(e.Head[3])
		}
		s.Rec.Emit("relay", "op", e.Ev, "sid", s.SidName(e.SID), "len", e.Len, "err", e.Err,
			"kind", kind, "seq", seq, "fin", fin, "ping", ping, "plain", b2i(e.Plain))
	}
	var err error
	s.Srv, err = mailbox.NewVerifServer(s.Host, s.S.Data, s.Relay, func(st mailbox.ServerStatus) {
		s.Rec.Emit("srvStatus", "status", int(st))
		s.Stat.Emit("srvStatus", "st", int(st))
	})
	if err != nil {
		return nil, err
	}
	copts := []mailbox.ClientOption{mailbox.WithVerifHashMailClient(s.Relay)}
	xopts := copts
	chost, xhost := s.Host, s.Host
	if o.Websocket {
		for _, w := range []string{"c", "x"} {
			fd, err := wsrelay.Serve(s.Relay, w)
			if err != nil {
				return nil, err
			}
			s.doors = append(s.doors, fd)
		}
		copts, xopts = nil, nil
		chost, xhost = s.doors[0].Host, s.doors[1].Host
	}
	s.Cli, err = mailbox.NewClient(context.WithValue(s.ctx, mailbox.VerifWhoKey{}, &whoTag{s, "c"}),
		chost, s.C.Data, copts...)
	if err != nil {
		return nil, err
	}
	s.XCli, err = mailbox.NewClient(context.WithValue(s.ctx, mailbox.VerifWhoKey{}, &whoTag{s, "x"}),
		xhost, s.X.Data, xopts...)
	if err != nil {
		return nil, err
	}
	return s, nil
}

// SidName names a stream id: P / K (passphrase- / key-derived rendezvous),
// .s2c / .c2s, or "?" followed by a prefix for anything else.
func (s *Session) SidName(hex string) string {
	if n, ok := s.sidName[hex]; ok {
		return n
	}
	if len(hex) > 8 {
		hex = hex[:8]
	}
	return "?" + hex
}

func sidOfAddr(a net.Addr) string {
	if m, ok := a.(*mailbox.Addr); ok {
		return fmt.Sprintf("%x", m.SID[:])
	}
	return ""
}

func errStr(err error) string {
	if err == nil {
		return ""
	}
	return err.Error()
}

// register records a transport connection just handed out to side and emits
// its acceptRet / dialRet line.  prevOpen counts the connections handed out to
// that side earlier that are not done: a connection that is open now was open
// when this one was handed out.  Ids and lines are issued under one lock so
// that their orders agree.
func (s *Session) register(side string, raw net.Conn, ev string, k int) *Conn {
	// A connection whose Close is still running is not closed yet, whatever
	// its Done channel says: give a Close call that is about to return
	// (Done is signalled at its very end) a moment to do so, and count the
	// connection as open if it has not.
	s.mu.Lock()
	earlier := append([]*Conn(nil), s.handed[side]...)
	s.mu.Unlock()
	stillClosing := map[*Conn]bool{}
	grace := time.After(400 * time.Millisecond)
	for _, p := range earlier {
		p.mu.Lock()
		ch := p.closeReturned
		p.mu.Unlock()
		if ch == nil {
			continue
		}
		select {
		case <-ch:
		case <-grace:
			stillClosing[p] = true
			grace = time.After(0)
		}
	}
	s.mu.Lock()
	defer s.mu.Unlock()
	open := 0
	for _, p := range s.handed[side] {
		select {
		case <-p.Raw.(doner).Done():
			if stillClosing[p] {
				open++
			}
		default:
			open++
		}
	}
	s.nextID++
	c := &Conn{S: s, Side: side, ID: s.nextID, Raw: raw, readDone: make(chan struct{}),
		tagKnown: make(chan struct{})}
	s.handed[side] = append(s.handed[side], c)
	s.Rec.Emit(ev, "who", side, "k", k, "err", "", "conn", c.ID, "sid", s.rawSid(raw), "prevOpen", open)
	return c
}

// rawSid names the rendezvous a transport connection uses, from the stream
// ids it presents to the relay.
func (s *Session) rawSid(raw net.Conn) string {
	switch c := raw.(type) {
	case *mailbox.ServerConn:
		r, w := c.VerifSIDs()
		return s.SidName(fmt.Sprintf("%x", r[:])) + "/" + s.SidName(fmt.Sprintf("%x", w[:]))
	case *mailbox.ClientConn:
		r, w := c.VerifSIDs()
		return s.SidName(fmt.Sprintf("%x", r[:])) + "/" + s.SidName(fmt.Sprintf("%x", w[:]))
	}
	return "?"
}

// Serve runs the listener the way grpc.Server.Serve does: Accept in a loop
// (re-entered at once after every return, with a short pause after a
// temporary error), a server handshake per accepted connection, a reader that
// closes the connection when its Read fails.
func (s *Session) Serve() {
	s.wg.Add(1)
	go func() {
		defer s.wg.Done()
		for k := 1; ; k++ {
			s.Rec.Emit("acceptCall", "who", "s", "k", k)
			raw, err := s.Srv.Accept()
			if err != nil {
				s.Rec.Emit("acceptRet", "who", "s", "k", k, "err", errStr(err), "conn", 0, "sid", "", "prevOpen", 0)
				var te interface{ Temporary() bool }
				if errors.As(err, &te) && te.Temporary() {
					select {
					case <-s.ctx.Done():
						return
					case <-time.After(50 * time.Millisecond):
					}
					continue
				}
				return
			}
			c := s.register("s", raw, "acceptRet", k)
			s.wg.Add(1)
			go func() {
				defer s.wg.Done()
				s.handshake(c, s.S)
				select {
				case s.accepts <- c:
				default:
				}
			}()
			if k >= 400 {
				// a listener that keeps handing out connections that die
				// at once: enough has been recorded
				s.Rec.Emit("note", "what", "accept loop stopped after 400 connections")
				return
			}
		}
	}()
}

// loggedConn is the transport connection as the Noise layer sees it, with
// every Write (one control message = one GBN message each) logged before it
// is passed on.
type loggedConn struct {
	mailbox.ProxyConn
	c *Conn
}

func (l *loggedConn) Write(b []byte) (int, error) {
	l.c.S.Rec.Emit("kitWrite", "side", l.c.Side, "conn", l.c.ID, "len", len(b))
	return l.ProxyConn.Write(b)
}

func (s *Session) handshake(c *Conn, p *Party) {
	pat := p.Data.HandshakePattern().Name
	var sec net.Conn
	var err error
	lc := &loggedConn{ProxyConn: c.Raw.(mailbox.ProxyConn), c: c}
	if c.Side == "s" {
		sec, _, err = p.Noise.ServerHandshake(lc)
	} else {
		sec, _, err = p.Noise.ClientHandshake(s.ctx, "", lc)
	}
	c.Pattern = string(pat)
	c.HsErr = err
	ver := -1
	if err == nil {
		c.Sec = sec
		ver = int(p.Noise.VerifMachine().VerifState().Version)
		c.Version = ver
	}
	s.Rec.Emit("hsRet", "side", p.Name, "conn", c.ID, "err", errStr(err), "pattern", c.Pattern,
		"version", ver, "paired", b2i(p.Data.RemoteKey() != nil))
	if err != nil {
		// grpc closes a connection whose handshake failed
		c.Close("hsfail")
		close(c.readDone)
		return
	}
	go c.readLoop()
}

func b2i(b bool) int {
	if b {
		return 1
	}
	return 0
}

// Dial dials as the client party who ("c" or "x") and performs the client
// handshake; it gives up (cancelling nothing: Dial has no cancellation) after
// the session's patience and then returns nil.
func (s *Session) Dial(who string, k int) *Conn { return s.DialPatience(who, k, s.Patience) }

// DialPatience is Dial with its own patience.
func (s *Session) DialPatience(who string, k int, patience time.Duration) *Conn {
	p, cl := s.C, s.Cli
	if who == "x" {
		p, cl = s.X, s.XCli
	}
	type res struct {
		raw net.Conn
		err error
	}
	ch := make(chan res, 1)
	s.Rec.Emit("dialCall", "who", who, "k", k)
	go func() {
		raw, err := cl.Dial(s.ctx, s.Host)
		ch <- res{raw, err}
	}()
	var r res
	select {
	case r = <-ch:
	case <-time.After(patience):
		s.Rec.Emit("dialRet", "who", who, "k", k, "err", "harness: patience exceeded", "conn", 0,
			"sid", "", "prevOpen", 0)
		return nil
	}
	if r.err != nil {
		s.Rec.Emit("dialRet", "who", who, "k", k, "err", errStr(r.err), "conn", 0, "sid", "", "prevOpen", 0)
		return nil
	}
	c := s.register(who, r.raw, "dialRet", k)
	c.Tag = uint64(time.Now().UnixNano())<<8 | uint64(c.ID)
	close(c.tagKnown)
	s.handshake(c, p)
	if c.Sec != nil {
		// the client opens every connection with its stream tag: stream
		// positions [0, 8) of its direction
		var hdr [8]byte
		binary.BigEndian.PutUint64(hdr[:], c.Tag)
		s.Rec.Emit("writeCall", "side", who, "conn", c.ID, "pos", 0, "len", 8)
		m, err := c.Sec.Write(hdr[:])
		s.Rec.Emit("writeRet", "side", who, "conn", c.ID, "pos", 0, "len", 8, "n", m, "err", errStr(err))
	}
	return c
}

// KillFrontDoors makes the websocket front doors die the hard way (sessions
// with Options.Websocket): listeners gone, sockets dropped without a closing
// handshake.
func (s *Session) KillFrontDoors() {
	for _, d := range s.doors {
		d.Kill()
	}
}

// BreakStreams breaks the relay's current attachments of the rendezvous named
// P or K: which selects "c2s", "s2c" or "both".
func (s *Session) BreakStreams(rdv, which string) {
	for hexid, name := range s.sidName {
		if len(hexid) != 128 {
			continue
		}
		if (name == rdv && which != "c2s") || (name == rdv+".c2s" && which != "s2c") {
			b, _ := hex.DecodeString(hexid)
			s.Rec.Emit("relayFault", "what", "break", "sid", name)
			s.Relay.Break(b, true, true)
		}
	}
}

// FailSends makes the next k sends on the streams of the rendezvous fail in a
// row (the send that is retried on the re-created stream fails as well).
func (s *Session) FailSends(rdv, which string, k int) {
	for hexid, name := range s.sidName {
		if len(hexid) != 128 {
			continue
		}
		if (name == rdv && which != "c2s") || (name == rdv+".c2s" && which != "s2c") {
			b, _ := hex.DecodeString(hexid)
			s.Rec.Emit("relayFault", "what", "failSends", "sid", name, "k", k)
			s.Relay.FailSends(b, k)
		}
	}
}

// Accepted waits for the next connection the listener handed out (after its
// server handshake finished one way or the other).
func (s *Session) Accepted() *Conn {
	select {
	case c := <-s.accepts:
		return c
	case <-time.After(s.Patience):
		return nil
	}
}

// tagLen is the length of the tag at the start of the stream this side reads,
// myTagLen of the stream it writes (only the client's stream has one).
func (c *Conn) tagLen() int {
	if c.Side == "s" {
		return 8
	}
	return 0
}

func (c *Conn) myTagLen() int {
	if c.Side == "s" {
		return 0
	}
	return 8
}

func (c *Conn) peerDir() byte {
	if c.Side == "s" {
		return 'c'
	}
	return 's'
}

func (c *Conn) myDir() byte {
	if c.Side == "s" {
		return 's'
	}
	return 'c'
}

// readLoop reads everything the peer sends, compares it with the expected
// plaintext and closes the connection when Read fails, as grpc would.
func (c *Conn) readLoop() {
	defer close(c.readDone)
	bl := c.S.readBuf[0]
	if c.Side == "s" {
		bl = c.S.readBuf[1]
	}
	buf := make([]byte, bl)
	if c.Side == "s" {
		var hdr [8]byte
		got := 0
		for got < 8 {
			n, err := c.Sec.Read(hdr[got:])
			if n > 0 {
				c.S.Rec.Emit("read", "side", c.Side, "conn", c.ID, "pos", got, "len", n, "buf", 8-got, "ok", 1)
			}
			got += n
			if err != nil {
				c.fail(err)
				return
			}
		}
		c.Tag = binary.BigEndian.Uint64(hdr[:])
		close(c.tagKnown)
		c.S.Rec.Emit("tag", "side", c.Side, "conn", c.ID, "peer", int(c.Tag&0xff))
	}
	want := make([]byte, len(buf))
	for {
		c.mu.Lock()
		stop := c.stopAfter > 0 && c.rOff >= c.stopAfter
		c.mu.Unlock()
		if stop {
			c.S.Rec.Emit("note", "what", "reader stopped", "side", c.Side, "conn", c.ID)
			return
		}
		n, err := c.Sec.Read(buf)
		if n > 0 {
			c.mu.Lock()
			off := c.rOff
			c.rOff += uint64(n)
			c.mu.Unlock()
			Fill(want[:n], c.Tag, c.peerDir(), off)
			c.S.Rec.Emit("read", "side", c.Side, "conn", c.ID, "pos", int(off)+c.tagLen(), "len", n,
				"buf", len(buf), "ok", b2i(bytes.Equal(buf[:n], want[:n])))
		}
		if err != nil {
			c.fail(err)
			return
		}
	}
}

func (c *Conn) fail(err error) {
	c.mu.Lock()
	c.readErr = err
	c.mu.Unlock()
	c.S.Rec.Emit("readErr", "side", c.Side, "conn", c.ID, "err", errStr(err))
	c.mu.Lock()
	keep := c.keepOnErr
	c.mu.Unlock()
	if keep {
		// an application that notices the error later: the connection
		// stays open (not closed) until the script closes it
		return
	}
	c.Close("readfail")
}

// KeepOpenOnReadError makes this side's reader leave the connection open when
// Read fails (until the script closes it).
func (c *Conn) KeepOpenOnReadError() { c.mu.Lock(); c.keepOnErr = true; c.mu.Unlock() }

// Write writes the next n bytes of this side's plaintext in one Write call.
func (c *Conn) Write(n int) error {
	select {
	case <-c.tagKnown:
	case <-time.After(c.S.Patience):
		return errors.New("harness: stream tag not learnt")
	}
	p := make([]byte, n)
	c.mu.Lock()
	off := c.wOff
	c.mu.Unlock()
	Fill(p, c.Tag, c.myDir(), off)
	c.S.Rec.Emit("writeCall", "side", c.Side, "conn", c.ID, "pos", int(off)+c.myTagLen(), "len", n)
	m, err := c.Sec.Write(p)
	c.mu.Lock()
	if err == nil {
		c.wOff += uint64(n)
	}
	c.mu.Unlock()
	c.S.Rec.Emit("writeRet", "side", c.Side, "conn", c.ID, "pos", int(off)+c.myTagLen(), "len", n, "n", m,
		"err", errStr(err))
	return err
}

// Written and ReadSoFar return the stream offsets reached.
func (c *Conn) Written() uint64 { c.mu.Lock(); defer c.mu.Unlock(); return c.wOff }
func (c *Conn) ReadSoFar() uint64 {
	c.mu.Lock()
	defer c.mu.Unlock()
	return c.rOff
}

// AwaitRead waits until this side has read n bytes of the peer's stream, its
// reader has failed, or patience runs out; it reports whether n was reached.
func (c *Conn) AwaitRead(n uint64, patience time.Duration) bool {
	dead := time.Now().Add(patience)
	for time.Now().Before(dead) {
		if c.ReadSoFar() >= n {
			return true
		}
		select {
		case <-c.readDone:
			return c.ReadSoFar() >= n
		case <-time.After(20 * time.Millisecond):
		}
	}
	return false
}

// AwaitDown waits until this side's reader has failed and the connection was
// closed.
func (c *Conn) AwaitDown(patience time.Duration) bool {
	select {
	case <-c.readDone:
		return true
	case <-time.After(patience):
		return false
	}
}

// Close closes the connection (the secured one if there is one).
func (c *Conn) Close(why string) {
	c.mu.Lock()
	if c.closed {
		c.mu.Unlock()
		return
	}
	c.closed = true
	ret := make(chan struct{})
	c.closeReturned = ret
	c.mu.Unlock()
	c.S.Rec.Emit("closeCall", "side", c.Side, "conn", c.ID, "why", why)
	done := make(chan error, 1)
	go func() { err := c.Raw.Close(); close(ret); done <- err }()
	select {
	case err := <-done:
		c.S.Rec.Emit("closeRet", "side", c.Side, "conn", c.ID, "err", errStr(err))
	case <-time.After(c.S.Patience):
		c.S.Rec.Emit("closeRet", "side", c.Side, "conn", c.ID, "err", "harness: Close did not return")
	}
}

// PeerID waits for the stream tag and returns the id of the client connection
// at the other end (0 if the tag did not arrive).
func (c *Conn) PeerID(patience time.Duration) int {
	select {
	case <-c.tagKnown:
		return int(c.Tag & 0xff)
	case <-c.readDone:
	case <-time.After(patience):
	}
	select {
	case <-c.tagKnown:
		return int(c.Tag & 0xff)
	default:
		return 0
	}
}

// IsDone reports whether the transport connection's Done channel is closed.
func (c *Conn) IsDone() bool {
	select {
	case <-c.Raw.(doner).Done():
		return true
	default:
		return false
	}
}

// Shutdown closes the listener and everything still open.
func (s *Session) Shutdown() {
	s.Rec.Emit("shutdown")
	s.mu.Lock()
	var all []*Conn
	for _, l := range s.handed {
		all = append(all, l...)
	}
	s.mu.Unlock()
	for _, c := range all {
		c.Close("shutdown")
	}
	done := make(chan struct{})
	go func() { s.Srv.Close(); close(done) }()
	select {
	case <-done:
	case <-time.After(10 * time.Second):
		s.Rec.Emit("harnessNote", "what", "Server.Close did not return")
	}
	s.cancel()
	for _, d := range s.doors {
		d.Close()
	}
}
