package lncrun

import (
	"sort"
	"strings"
	"sync"
	"sync/atomic"

	"github.com/lightninglabs/lightning-node-connect/gbn"

	"verif/harness/trace"
)

// The link tap records, for every Go-Back-N connection in the process, the
// data-phase packets it hands to the mailbox layer's send function ("gtx",
// hook in GoBackNConn.sendPacket) and the packets the mailbox layer's receive
// function hands to it ("rx", hook in the receive loop), with one global
// order.  A session later picks the records of its own connections
// (Conn.GbnID) and has them validated against MailboxLink.tla: what one end
// receives is what the other end sent, in order, with losses and in-place
// repetitions only - the channel GBN.tla assumes.

type linkRec struct {
	ord  int64
	ev   string
	kind int
	seq  int
	ln   int
	crc  int
}

var (
	linkOnce sync.Once
	linkOrd  atomic.Int64
	linkMu   sync.Mutex
	linkBy   = map[any][]linkRec{}
)

func installLinkTap() {
	linkOnce.Do(func() {
		gbn.SetVerifSink(func(src any, ev string, kv ...int) {
			if (ev != "gtx" && ev != "rx") || len(kv) < 4 {
				return
			}
			// the order is taken inside the lock: a packet is sent (gtx
			// precedes the transport call) before it can be received
			linkMu.Lock()
			linkBy[src] = append(linkBy[src], linkRec{linkOrd.Add(1), ev, kv[0], kv[1], kv[2], kv[3]})
			linkMu.Unlock()
		})
	})
}

// GbnID returns the identity of the connection's Go-Back-N connection in the
// link tap (nil if the transport connection does not expose one).
func (c *Conn) GbnID() any {
	if x, ok := c.Raw.(interface{ VerifGbnID() any }); ok {
		return x.VerifGbnID()
	}
	return nil
}

// LinkEvents returns the link-tap records of every transport connection this
// session handed out (client side "c", server side "s"), merged in their
// global order, as trace events:
// {"ev": "gtx"|"grx", "side": "c"|"s", "st": stream name, "k": kind, "seq",
// "len", "crc"}: st is the stream the connection sends to (gtx) or receives
// from (grx), by the stream ids the connection itself reports.
func (s *Session) LinkEvents() []trace.Event {
	type tagged struct {
		linkRec
		side string
		st   string
	}
	var all []tagged
	s.mu.Lock()
	conns := map[string][]*Conn{}
	for side, cs := range s.handed {
		conns[side] = append([]*Conn(nil), cs...)
	}
	s.mu.Unlock()
	linkMu.Lock()
	seen := map[any]bool{}
	for side, cs := range conns {
		tag := "c"
		if side == "s" {
			tag = "s"
		}
		for _, c := range cs {
			id := c.GbnID()
			if id == nil || seen[id] {
				continue
			}
			seen[id] = true
			// the streams this connection receives from / sends to
			rs, ws := "?", "?"
			if parts := strings.SplitN(s.rawSid(c.Raw), "/", 2); len(parts) == 2 {
				rs, ws = parts[0], parts[1]
			}
			for _, r := range linkBy[id] {
				st := ws
				if r.ev == "rx" {
					st = rs
				}
				all = append(all, tagged{r, tag, st})
			}
		}
	}
	linkMu.Unlock()
	sort.Slice(all, func(i, j int) bool { return all[i].ord < all[j].ord })
	out := make([]trace.Event, 0, len(all))
	for _, r := range all {
		ev := "gtx"
		if r.ev == "rx" {
			ev = "grx"
		}
		out = append(out, trace.Event{"ev": ev, "side": r.side, "st": r.st, "k": r.kind,
			"seq": r.seq, "len": r.ln, "crc": r.crc})
	}
	return out
}
