// Package wsrelay puts the REST/websocket face of the hashmail proxy in front
// of the in-process relay (package relay), so that the real websocket
// transport of the mailbox client (mailbox/client_transport.go,
// websocketTransport: the path a browser / WASM client takes) can be driven:
//
//	wss://host/v1/lightning-node-connect/hashmail/receive?method=POST
//	    first text message: CipherBoxDesc (JSON); then one text message
//	    {"result": CipherBox} per relayed message, or {"error": {...}} and
//	    the socket is closed
//	wss://host/v1/lightning-node-connect/hashmail/send?method=POST
//	    one text message per CipherBox (JSON); an error of the relay closes
//	    the socket with the error text as reason
//
// as grpc-gateway's websocket proxy presents the two streaming calls.  The
// server listens on the loopback interface with a certificate made up on the
// spot; Trust makes the process's default HTTP transport (which
// websocket.Dial uses) accept it.
package wsrelay

import (
	"context"
	"crypto/ecdsa"
	"crypto/elliptic"
	"crypto/rand"
	"crypto/tls"
	"crypto/x509"
	"crypto/x509/pkix"
	"encoding/json"
	"math/big"
	"net"
	"net/http"
	"sync"
	"time"

	"github.com/coder/websocket"
	"github.com/grpc-ecosystem/grpc-gateway/v2/runtime"
	"github.com/lightninglabs/lightning-node-connect/hashmailrpc"
	"github.com/lightninglabs/lightning-node-connect/mailbox"
	"google.golang.org/protobuf/encoding/protojson"

	"verif/harness/relay"
)

var marshaler = &runtime.JSONPb{
	MarshalOptions: protojson.MarshalOptions{UseProtoNames: true, EmitUnpopulated: true},
}

var (
	certOnce sync.Once
	cert     tls.Certificate
	pool     = x509.NewCertPool()
)

func makeCert() {
	key, err := ecdsa.GenerateKey(elliptic.P256(), rand.Reader)
	if err != nil {
		panic(err)
	}
	tmpl := &x509.Certificate{
		SerialNumber: big.NewInt(1), Subject: pkix.Name{CommonName: "wsrelay"},
		NotBefore: time.Now().Add(-time.Hour), NotAfter: time.Now().Add(24 * time.Hour),
		KeyUsage:    x509.KeyUsageDigitalSignature | x509.KeyUsageCertSign,
		ExtKeyUsage: []x509.ExtKeyUsage{x509.ExtKeyUsageServerAuth},
		IsCA:        true, BasicConstraintsValid: true,
		IPAddresses: []net.IP{net.ParseIP("127.0.0.1")},
	}
	der, err := x509.CreateCertificate(rand.Reader, tmpl, tmpl, &key.PublicKey, key)
	if err != nil {
		panic(err)
	}
	c, _ := x509.ParseCertificate(der)
	pool.AddCert(c)
	cert = tls.Certificate{Certificate: [][]byte{der}, PrivateKey: key}
	// websocket.Dial(ctx, url, nil) uses http.DefaultClient
	if t, ok := http.DefaultTransport.(*http.Transport); ok {
		t.TLSClientConfig = &tls.Config{RootCAs: pool}
	}
}

// Server is one websocket front door; every call that comes through it is
// made in the name of one party (who).
type Server struct {
	Host string
	srv  *http.Server
	ln   net.Listener

	mu    sync.Mutex
	socks map[*websocket.Conn]struct{}
	dead  bool
}

func (s *Server) track(c *websocket.Conn) bool {
	s.mu.Lock()
	defer s.mu.Unlock()
	if s.dead {
		return false
	}
	s.socks[c] = struct{}{}
	return true
}

func (s *Server) untrack(c *websocket.Conn) {
	s.mu.Lock()
	delete(s.socks, c)
	s.mu.Unlock()
}

// Kill makes the front door die the hard way: the listener goes away and every
// open socket is dropped without a closing handshake, as when the proxy
// process is killed.
func (s *Server) Kill() {
	s.mu.Lock()
	s.dead = true
	var all []*websocket.Conn
	for c := range s.socks {
		all = append(all, c)
	}
	s.mu.Unlock()
	s.srv.Close()
	for _, c := range all {
		c.CloseNow()
	}
}

type namer string

func (n namer) WhoName() string { return string(n) }

// Serve starts a front door for the party who.
func Serve(r *relay.Relay, who string) (*Server, error) {
	certOnce.Do(makeCert)
	ln, err := tls.Listen("tcp", "127.0.0.1:0", &tls.Config{Certificates: []tls.Certificate{cert}})
	if err != nil {
		return nil, err
	}
	tag := func(ctx context.Context) context.Context {
		return context.WithValue(ctx, mailbox.VerifWhoKey{}, namer(who))
	}
	s := &Server{Host: ln.Addr().String(), ln: ln, socks: map[*websocket.Conn]struct{}{}}
	mux := http.NewServeMux()
	mux.HandleFunc("/v1/lightning-node-connect/hashmail/receive", func(w http.ResponseWriter, q *http.Request) {
		c, err := websocket.Accept(w, q, nil)
		if err != nil {
			return
		}
		if !s.track(c) {
			c.CloseNow()
			return
		}
		defer s.untrack(c)
		c.SetReadLimit(1 << 20)
		ctx, cancel := context.WithCancel(tag(q.Context()))
		defer cancel()
		_, first, err := c.Read(ctx)
		if err != nil {
			c.Close(websocket.StatusProtocolError, "no init")
			return
		}
		desc := &hashmailrpc.CipherBoxDesc{}
		if err := marshaler.Unmarshal(first, desc); err != nil {
			c.Close(websocket.StatusProtocolError, "bad init")
			return
		}
		// the client going away ends the relay call
		go func() {
			for {
				if _, _, err := c.Read(ctx); err != nil {
					cancel()
					return
				}
			}
		}()
		rs, err := r.RecvStream(ctx, desc)
		if err != nil {
			writeErr(ctx, c, err)
			return
		}
		for {
			box, err := rs.Recv()
			if err != nil {
				writeErr(ctx, c, err)
				return
			}
			b, err := marshaler.Marshal(box)
			if err != nil {
				writeErr(ctx, c, err)
				return
			}
			msg := append(append([]byte(`{"result":`), b...), '}')
			if err := c.Write(ctx, websocket.MessageText, msg); err != nil {
				return
			}
		}
	})
	mux.HandleFunc("/v1/lightning-node-connect/hashmail/send", func(w http.ResponseWriter, q *http.Request) {
		c, err := websocket.Accept(w, q, nil)
		if err != nil {
			return
		}
		if !s.track(c) {
			c.CloseNow()
			return
		}
		defer s.untrack(c)
		c.SetReadLimit(1 << 20)
		ctx, cancel := context.WithCancel(tag(q.Context()))
		defer cancel()
		ws, err := r.SendStream(ctx)
		if err != nil {
			c.Close(websocket.StatusInternalError, reason(err))
			return
		}
		defer ws.CloseSend()
		for {
			_, b, err := c.Read(ctx)
			if err != nil {
				return
			}
			box := &hashmailrpc.CipherBox{}
			if err := marshaler.Unmarshal(b, box); err != nil {
				c.Close(websocket.StatusProtocolError, "bad message")
				return
			}
			if err := ws.Send(box); err != nil {
				c.Close(websocket.StatusInternalError, reason(err))
				return
			}
		}
	})
	s.srv = &http.Server{Handler: mux}
	go s.srv.Serve(ln)
	return s, nil
}

func reason(err error) string {
	s := err.Error()
	if len(s) > 100 {
		s = s[:100]
	}
	return s
}

func writeErr(ctx context.Context, c *websocket.Conn, err error) {
	m, _ := json.Marshal(map[string]any{"error": map[string]any{
		"code": 2, "message": err.Error(), "details": []any{}}})
	wctx, cancel := context.WithTimeout(context.WithoutCancel(ctx), time.Second)
	c.Write(wctx, websocket.MessageText, m)
	cancel()
	c.Close(websocket.StatusInternalError, reason(err))
}

// Close stops the front door.
func (s *Server) Close() { s.srv.Close() }
