import json, sys, glob, os

def sweep_of(m):
    """check id -> rc: the sweep record if there is one, else what bin/seedtest
    recorded (check_results "C01:rc=1 C09:rc=0")."""
    sw = m.get("sweep") or {}
    out = {c: r.get("rc") for c, r in sw.items() if isinstance(r, dict)}
    if not out:
        import re as _re
        for c, rc in _re.findall(r"(C\d\d):rc=(\d)", m.get("check_results", "")):
            out[c] = int(rc)
    return out

sys.path.insert(0, '/verif/lib')
import meta
props = {}
for l in open('/verif/properties.jsonl'):
    p = json.loads(l); props[p['id']] = p
kf = json.load(open('/verif/known_findings.json'))['findings']
seeds = {}      # check id -> [(seed name, aimed-at property)] it reports (rc = 1 in the sweep)
for d in sorted(glob.glob('/verif/seeded/*/meta.json')):
    m = json.load(open(d))
    name = os.path.basename(os.path.dirname(d))
    for chk_id, rc in sweep_of(m).items():
        if rc == 1:
            seeds.setdefault(chk_id, []).append((name, m.get('property')))
man = json.load(open('/verif/MANIFEST.json'))
chk = {c['property_id']: c for c in man['checks']}
out = ["## 6. Per-property: what decides it, what it covers, what it assumes\n",
       "Generated from `lib/meta.py` (the same text MANIFEST.json carries), `known_findings.json` and",
       "`seeded/*/meta.json`; the bounds actually explored by a run are in `evidence/<id>.json`.\n"]
for pid in sorted(props):
    p = props[pid]; m = meta.CHECKS.get(pid, {})
    c = chk.get(pid, {})
    out.append("### %s — %s\n" % (pid, p['title']))
    out.append("*Technique:* %s." % (m.get('technique') or c.get('technique') or 'TLA+ model checking (TLC) + trace validation'))
    out.append("*Check:* `bin/check %s --tier quick|thorough`; sources `checks/%s.py`.\n" % (pid, pid.lower()))
    out.append(m.get('text', '') + "\n")
    if m.get('note'):
        out.append("*Assumptions / bounds:* " + m['note'] + ".\n")
    fs = [f for f in kf if f['property'] == pid]
    if fs:
        out.append("*Findings:*")
        for f in fs:
            out.append("- %s%s — %s" % (f['status'], (" in " + f['commit']) if f.get('commit') else "", f['what']))
        out.append("")
    ss = seeds.get(pid, [])
    if ss:
        out.append("*Seeded changes and fix reverts this check reports (quick tier):* " + ", ".join(
            "`%s`%s" % (n, "" if a == pid else " (aimed at %s)" % a) for n, a in ss) + ".\n")
open('/verif/doc/design/sec6.md', 'w').write("\n".join(out) + "\n")
