"""The TCP listener of the Noise layer (mailbox/tcp_noise_listner.go):
Listener.tla model-checked, the real mailbox.Listener / mailbox.Dial driven on
the loopback interface and the trace validated by Trace_Listener.tla."""
import json
import os

import linetrace
from vlib import Infra, run_driver, tlc

MC = """CONSTANTS
  Peers <- %s
  Good <- G2
  Callers <- %s
  H = %d
  MaxCalls = %d
SPECIFICATION %s
%s
CHECK_DEADLOCK FALSE
"""
INV = ("INVARIANTS TypeOK SemaConserved OnlyHandshaken AtMostOnce ErrsOfPeers "
       "ClosedOnlyAfterClose")
TR = """CONSTANTS
  TraceFile = "%s"
  Peers <- AllPeers
  Good <- GoodPeers
  Callers <- AllCallers
  H = 1000
  MaxCalls = 1000000
SPECIFICATION TSpec
INVARIANTS SemaConserved OnlyHandshaken AtMostOnce ErrsOfPeers ClosedOnlyAfterClose
CONSTRAINT HW
POSTCONDITION TraceAccepted
CHECK_DEADLOCK FALSE
"""


def model_check(ctx):
    quick = ctx.tier == "quick"
    states = trans = 0
    for peers, callers, h, calls in ((("P3", "C2", 2, 5),) if quick else
                                     (("P3", "C2", 2, 6), ("P4", "C2", 2, 5), ("P4", "C1", 3, 5))):
        r = tlc(ctx, "MC_Listener", MC % (peers, callers, h, calls, "Spec", INV),
                "mc_lst_%s_%s_%d" % (peers, callers, h), workers=8, timeout=1500)
        if not r["ok"]:
            raise Infra("Listener.tla violates %s:\n%s" % (r["violated"], r["out"][-1200:]))
        states += r["distinct"]
        trans += r["generated"]
    r = tlc(ctx, "MC_Listener", MC % ("P3", "C2", 2, 3, "LiveSpec",
                                      "PROPERTIES NoLingering AcceptWakes"),
            "mc_lst_live", workers=4, timeout=1500)
    if not r["ok"]:
        raise Infra("Listener.tla: something lingers after Close (%s)" % r["violated"])
    states += r["distinct"]
    trans += r["generated"]
    return states, trans


def validate(ctx, binary, keyprefix):
    out = ctx.sub("listener")
    rc, o = run_driver(ctx, binary, "TestListener", out, timeout=600)
    if rc != 0:
        raise Infra("listener driver failed:\n" + o[-2000:])
    path = os.path.join(out, "listener.ndjson")

    def keyfn(ln, cur, idx):
        j = idx
        while j > 0 and cur[j].get("op") != "reset":
            j -= 1
        k = "%s:listener:%s:%s" % (keyprefix, cur[j].get("scen", "?"), ln.get("op"))
        if ln.get("op") == "acceptRet":
            k += ":%s:%s" % (ln.get("kind"), str(ln.get("p"))[:1])
        elif ln.get("op") == "end" and ln.get("lingering"):
            k += ":goroutines-linger"
        return k
    n, rej, st = linetrace.validate(ctx, "MC_Trace_Listener", TR, path, "tr_listener", keyfn,
                                    what="listener trace", segment_op="reset")
    lines = [json.loads(x) for x in open(path)]
    return {"listener_trace_lines": n, "listener_scenarios_rejected": rej,
            "listener_scenarios": sum(1 for x in lines if x.get("op") == "reset"),
            "listener_connections_accepted": sum(1 for x in lines if x.get("op") == "acceptRet"
                                                 and x.get("kind") == "conn"),
            "listener_handshake_errors_reported": sum(1 for x in lines if x.get("op") == "acceptRet"
                                                      and x.get("kind") == "err")}
