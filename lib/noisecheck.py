"""Shared by C03 and C04: model checking of Noise.tla and validation of the
handshake cases executed on the real Machines."""
import json
import os
import re

from vlib import Infra, read_ndjson, run_driver, tlc

MC = """CONSTANTS
  V0Truncates = FALSE
  Full = %s
INIT Init
NEXT Next
INVARIANTS %s
CHECK_DEADLOCK FALSE
"""
TR = """CONSTANTS
  V0Truncates = FALSE
  TraceFile = "%s"
INIT Init
NEXT Next
INVARIANT AllOK
CHECK_DEADLOCK FALSE
"""

C03_FIELDS = {"wrote2", "authDataOnAbort", "iDone", "rDone", "iRemote",
              "rRemote", "newErr"}


def model(ctx, invs):
    r = tlc(ctx, "MC_Noise", MC % ("FALSE" if ctx.tier == "quick" else "TRUE", invs),
            "mc_noise", timeout=3000)
    if not r["ok"]:
        raise Infra("Noise.tla violates %s:\n%s" % (r["violated"], r["out"][-1500:]))
    return r


def cases(ctx, binary, out):
    rc, o = run_driver(ctx, binary, "TestNoiseCases", out, timeout=1800)
    if rc != 0:
        raise Infra("noise driver failed:\n" + o[-2000:])
    path = os.path.join(out, "noise.ndjson")
    lines = read_ndjson(path)
    r = tlc(ctx, "Trace_Noise", TR % path, "tr_noise", workers=1, timeout=1800)
    if not r["ok"]:
        raise Infra("Trace_Noise failed:\n" + r["out"][-2000:])
    if r["distinct"] != len(lines) + 1:
        raise Infra("Trace_Noise did not evaluate every line")
    flagged = []
    from vlib import printed_tuples
    for t in printed_tuples(r["out"], "NOISE_LINE"):
        # [line, "DIFF", d, "C03", b, "C04", b, "CONFUSION", b]
        flagged.append({"line": t[0], "diff": t[2], "c03": t[4], "c04": t[6],
                        "confusion": t[8], "rec": lines[t[0] - 1]})
    return lines, flagged, r


def describe(rec):
    c = rec["case"]
    t = []
    if c["verSub"] != [-1, -1, -1]:
        t.append("verSub=%s" % c["verSub"])
    if c["corruptAct"]:
        t.append("corrupt=act%d.field%d" % (c["corruptAct"], c["corruptField"]))
    return "%s c[%d,%d] s[%d,%d] pwEq=%s payload=%s %s" % (
        c["pattern"], c["cMin"], c["cMax"], c["sMin"], c["sMax"], c["pwEq"],
        c["payloadClass"], " ".join(t))
