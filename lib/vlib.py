"""Shared machinery of the /verif checks: building and running the Go harness
against /repo's current working tree, running TLC (model checking and trace
validation), the verdict protocol and the evidence files."""
import json
import os
import re
import shutil
import subprocess
import sys
import tempfile
import time

VERIF = os.path.dirname(os.path.dirname(os.path.abspath(__file__)))
REPO = os.environ.get("VERIF_REPO", "/repo")
SPEC = os.path.join(VERIF, "spec")
HARNESS = os.path.join(VERIF, "harness")
# seeded-change runs (bin/reseed, bin/seedtest) redirect their evidence so that
# the committed files always describe a run on the unchanged tree
EVID = os.environ.get("VERIF_EVID_DIR") or os.path.join(VERIF, "evidence")
REPLAYS = os.path.join(EVID, "replays")
NCPU = os.cpu_count() or 4


class Infra(Exception):
    """Infrastructure failure: exit 2, never a verdict."""


def log(*a):
    print(*a, file=sys.stderr, flush=True)


def go_env():
    e = dict(os.environ)
    e.update({
        "GOFLAGS": "-mod=mod",
        "GOPROXY": "off",
        "GOSUMDB": "off",
        "GOTOOLCHAIN": "local",
        "GOWORK": "off",
    })
    e.pop("GOROOT", None)
    return e


class Ctx:
    """One check invocation."""

    def __init__(self, pid, tier, seed):
        self.pid = pid
        self.tier = tier
        self.seed = seed
        self.t0 = time.time()
        self.tmp = tempfile.mkdtemp(prefix="verif-%s-" % pid)
        self.violations = []   # (message, replay path)
        self.known_hits = []   # known-finding keys hit
        self.infra = []
        self.cov = {}
        self.action_cov = {}   # {"trace"|"mc": {"Module!Action": times taken}}
        self.assumptions = []
        self.kf = load_known_findings()

    def cleanup(self):
        shutil.rmtree(self.tmp, ignore_errors=True)

    def sub(self, name):
        d = os.path.join(self.tmp, name)
        os.makedirs(d, exist_ok=True)
        return d

    # -- verdicts ---------------------------------------------------------
    def report(self, key, what, replay_obj):
        """Report a violation of this check's property observed on the real
        code.  key is the narrow signature matched against known_findings."""
        for f in self.kf:
            if f.get("property") == self.pid and f.get("status") == "open" \
                    and kf_match(f, key):
                if f["key"] not in self.known_hits:
                    self.known_hits.append(f["key"])
                    print("KNOWN-FINDING: property=%s %s" % (self.pid, f["what"]),
                          flush=True)
                return
        os.makedirs(REPLAYS, exist_ok=True)
        path = os.path.join(REPLAYS, "%s-%s-%d.json" % (
            self.pid, re.sub(r"[^A-Za-z0-9_.-]+", "_", key)[:80], self.seed))
        with open(path, "w") as fh:
            json.dump({"property": self.pid, "key": key, "what": what,
                       "seed": self.seed, "tier": self.tier,
                       "replay": replay_obj}, fh, indent=1, default=str)
        if not any(v[2] == key for v in self.violations):
            self.violations.append((what, path, key))
            print("VIOLATION property=%s replay=%s" % (self.pid, path), flush=True)
            log("  key=%s: %s" % (key, what))


def kf_match(f, key):
    sig = f.get("signature", f.get("key"))
    if isinstance(sig, list):
        return any(_one(s, key) for s in sig)
    return _one(sig, key)


def _one(sig, key):
    if sig.startswith("re:"):
        return re.fullmatch(sig[3:], key) is not None
    return sig == key


def load_known_findings():
    p = os.path.join(VERIF, "known_findings.json")
    if not os.path.exists(p):
        return []
    with open(p) as fh:
        return json.load(fh).get("findings", [])


# -- Go harness -------------------------------------------------------------
def harness_dir(ctx):
    """The harness module.  Its go.mod replaces the repository's modules by
    /repo/...; when VERIF_REPO names another tree (a scratch worktree used to
    try a seeded change, a snapshot for a background run) a private copy of
    the harness with rewritten replace directives is used."""
    if os.path.realpath(REPO) == "/repo":
        return HARNESS
    d = os.path.join(ctx.tmp, "harness")
    if not os.path.isdir(d):
        shutil.copytree(HARNESS, d)
        gm = os.path.join(d, "go.mod")
        with open(gm) as fh:
            t = fh.read()
        with open(gm, "w") as fh:
            fh.write(t.replace("=> /repo/", "=> %s/" % os.path.realpath(REPO)))
    return d


def build_drivers(ctx, pkg="./drivers", race=False, tags="verif,rpctest",
                  name=None):
    out = os.path.join(ctx.tmp, (name or pkg.strip("./").replace("/", "_"))
                       + (".race" if race else "") + ".test")
    cmd = ["go1.26", "test", "-c", "-tags", tags, "-o", out]
    if race:
        cmd.append("-race")
    if os.environ.get("VERIF_COVER"):
        # statement coverage of the code under test by the drivers (used by
        # bin/covergaps to list code the traces never observe; not a verdict)
        cmd += ["-cover", "-coverpkg",
                "github.com/lightninglabs/lightning-node-connect/gbn,"
                "github.com/lightninglabs/lightning-node-connect/mailbox"]
    cmd.append(pkg)
    t = time.time()
    p = subprocess.run(cmd, cwd=harness_dir(ctx), env=go_env(),
                       capture_output=True, text=True)
    if p.returncode != 0:
        raise Infra("harness build failed (is /repo compiling with -tags verif?)"
                    ":\n" + p.stdout + p.stderr)
    log("built %s in %.1fs" % (os.path.basename(out), time.time() - t))
    return out


def run_driver(ctx, binary, test, out_dir, env=None, timeout=1800, args=None):
    e = go_env()
    e["VERIF_OUT"] = out_dir
    e["VERIF_SEED"] = str(ctx.seed)
    e["VERIF_TIER"] = ctx.tier
    if env:
        e.update({k: str(v) for k, v in env.items()})
    cmd = [binary, "-test.run", "^%s$" % test, "-test.count=1",
           "-test.timeout", "%ds" % timeout] + (args or [])
    if os.environ.get("VERIF_COVER"):
        os.makedirs(os.environ["VERIF_COVER"], exist_ok=True)
        cmd.append("-test.coverprofile=%s/%s-%s-%d.out" % (
            os.environ["VERIF_COVER"], ctx.pid, test, int(time.time() * 1000)))
    t = time.time()
    try:
        p = subprocess.run(cmd, cwd=out_dir, env=e, capture_output=True,
                           text=True, timeout=timeout + 60)
    except subprocess.TimeoutExpired:
        raise Infra("driver %s timed out" % test)
    log("driver %s rc=%d in %.1fs" % (test, p.returncode, time.time() - t))
    return p.returncode, p.stdout + p.stderr


# -- TLC ----------------------------------------------------------------------
_TLC_JAR = "/opt/veriftools/tla/tla2tools.jar"


def _spec_copy(ctx):
    d = os.path.join(ctx.tmp, "spec")
    if not os.path.isdir(d):
        shutil.copytree(SPEC, d)
    return d


_COV_RE = re.compile(
    r"^<(\w+) line \d+, col \d+ to line \d+, col \d+ of module (\w+)>: "
    r"(\d+):(\d+)", re.M)


_COV_SUB_RE = re.compile(
    r"^<(\w+) line \d+, col \d+ to line \d+, col \d+ of module (\w+) "
    r"\((\d+) (\d+) (\d+) (\d+)\)>: (\d+):(\d+)", re.M)


# Specifications whose work is done by one action over an enumerated set or a
# line counter (operator lemmas, function traces): per-action counts say
# nothing there, and TLC's cost accounting of the huge Init sets is very slow.
_NO_COV = {"MC_Noise", "Trace_Noise", "MC_Codec", "Trace_Codec", "MC_Pairing",
           "Trace_Pairing", "MC_Window", "Trace_Window", "Trace_Stages",
           "Trace_SynSweep", "Trace_Edit"}


def _want_cov(ctx, module, cov):
    """Per-action coverage (-coverage 1) is collected for every trace
    validation (cheap: the search is linear) and for the model-checking
    configurations of the quick tier (small); VERIF_MC_COVERAGE=1 forces it
    for the large thorough configurations too."""
    if cov is not None:
        return cov
    if module in _NO_COV:
        return False
    if "Trace" in module:
        return True
    return ctx.tier == "quick" or os.environ.get("VERIF_MC_COVERAGE") == "1"


def tlc(ctx, module, cfg_text, name, workers=None, timeout=900, extra=None,
        heap=None, cov=None):
    """Run TLC on spec/<module>.tla with the given cfg text.  Returns a dict:
    ok, generated, distinct, depth, violated (invariant/property name or None),
    rejected_at (trace validation), out."""
    d = _spec_copy(ctx)
    cfg = os.path.join(d, name + ".cfg")
    with open(cfg, "w") as fh:
        fh.write(cfg_text)
    meta = os.path.join(ctx.tmp, "meta-" + name)
    cov = _want_cov(ctx, module, cov)
    cmd = ["timeout", str(timeout), "tlc", "-workers", str(workers or NCPU),
           "-metadir", meta, "-config", cfg] + (extra or []) + \
        (["-coverage", "1"] if cov else []) + [module + ".tla"]
    env = dict(os.environ)
    if heap:
        env["JAVA_TOOL_OPTIONS"] = (env.get("JAVA_TOOL_OPTIONS", "") +
                                    " -Xmx%s" % heap).strip()
    t = time.time()
    p = subprocess.run(cmd, cwd=d, env=env, capture_output=True, text=True)
    out = p.stdout + p.stderr
    res = {"out": out, "rc": p.returncode, "wall": time.time() - t,
           "ok": False, "violated": None, "rejected_at": None,
           "generated": 0, "distinct": 0, "depth": 0}
    m = re.search(r"(\d[\d,]*) states generated, (\d[\d,]*) distinct states found",
                  out)
    if m:
        res["generated"] = int(m.group(1).replace(",", ""))
        res["distinct"] = int(m.group(2).replace(",", ""))
    m = re.search(r"depth of the complete state graph search is (\d+)", out)
    if m:
        res["depth"] = int(m.group(1))
    m = re.search(r"Invariant (\S+) is violated", out)
    if m:
        res["violated"] = m.group(1)
    m = re.search(r"Temporal properties were violated", out)
    if m:
        res["violated"] = "temporal"
    m = re.search(r"Action property (\S+) is violated", out)
    if m:
        res["violated"] = m.group(1)
        if m.group(1) == "line":     # an unnamed [][A]_v inside a refinement
            res["violated"] = "action-property"
    m = re.search(r'"TRACE_REJECTED_AT_LINE"\s*,\s*(\d+)\s*,\s*"OF"\s*,\s*(\d+)', out)
    if m:
        res["rejected_at"] = int(m.group(1))
    if cov:
        kind = "trace" if "Trace" in module else "mc"
        last = {}
        for m in _COV_RE.finditer(out):     # the last report is the total
            last[(m.group(2), m.group(1))] = int(m.group(4))
        for m in _COV_SUB_RE.finditer(out):
            # an unnamed disjunct of Next ("guard /\\ Action(e)"): name it by
            # the last operator applied in its source text
            mod = m.group(2)
            l1, c1, l2, c2 = (int(x) for x in m.group(3, 4, 5, 6))
            try:
                src = open(os.path.join(d, mod + ".tla")).read().split("\n")
                txt = " ".join(src[l1 - 1:l2])[c1 - 1:] if l1 == l2 else \
                    src[l1 - 1][c1 - 1:] + " " + " ".join(src[l1:l2])
                ops = re.findall(r"\b([A-Z]\w*)\(", txt)
                ops = [o for o in ops if o not in ("CanFault", "Room", "Peer",
                                                   "Len", "Ack", "Nack")]
                nm = ops[-1] if ops else "%s@%d" % (m.group(1), l1)
            except OSError:
                nm = "%s@%d" % (m.group(1), l1)
            last[(mod, nm)] = last.get((mod, nm), 0) + int(m.group(8))
        acc = ctx.action_cov.setdefault(kind, {})
        for (mod, act), cnt in last.items():
            k = "%s!%s" % (mod, act)
            acc[k] = acc.get(k, 0) + cnt
    if p.returncode == 124:
        raise Infra("TLC timed out on %s (%s)" % (module, name))
    if "Model checking completed. No error has been found." in out \
            and res["violated"] is None and res["rejected_at"] is None:
        res["ok"] = True
    elif res["violated"] is None and res["rejected_at"] is None:
        if re.search(r"Assumption .* is false|evaluating assumption", out,
                     re.I):
            res["violated"] = "ASSUME"
        else:
            raise Infra("TLC failed on %s (%s):\n%s" % (module, name, out[-3000:]))
    shutil.rmtree(meta, ignore_errors=True)
    return res


def tlc_simulate(ctx, module, cfg_text, name, num, depth=150, workers=None,
                 timeout=1800):
    """Random exploration (tlc -simulate) of a configuration too large for
    exhaustive search: num behaviours per worker.  Invariants (and action properties)
    are evaluated along every generated behaviour.  Returns dict: ok, traces,
    states, violated, out."""
    d = _spec_copy(ctx)
    cfg = os.path.join(d, name + ".cfg")
    with open(cfg, "w") as fh:
        fh.write(cfg_text)
    meta = os.path.join(ctx.tmp, "meta-" + name)
    cmd = ["timeout", str(timeout), "tlc", "-workers",
           str(workers or NCPU), "-simulate", "num=%d" % num, "-depth",
           str(depth), "-seed", str(ctx.seed), "-metadir", meta, "-config",
           cfg, module + ".tla"]
    t = time.time()
    p = subprocess.run(cmd, cwd=d, capture_output=True, text=True)
    out = p.stdout + p.stderr
    shutil.rmtree(meta, ignore_errors=True)
    if p.returncode == 124:
        raise Infra("TLC simulation timed out (%s)" % name)
    res = {"out": out, "wall": time.time() - t, "ok": False, "violated": None,
           "traces": 0, "states": 0}
    m = re.findall(r"Progress: (\d+) states checked, (\d+) traces generated", out)
    if m:
        res["states"], res["traces"] = int(m[-1][0]), int(m[-1][1])
    m = re.search(r"Invariant (\S+) is violated|Action property (\S+) is violated"
                  r"|Temporal properties were violated", out)
    if m:
        res["violated"] = m.group(1) or m.group(2) or "temporal"
        return res
    if re.search(r"Error:|Exception", out) and "is violated" not in out:
        raise Infra("TLC simulation failed on %s (%s):\n%s" % (module, name, out[-2500:]))
    if res["traces"] == 0:
        raise Infra("TLC simulation produced no behaviours (%s):\n%s" % (name, out[-1500:]))
    res["ok"] = True
    return res


def apalache(ctx, module, inv, name, timeout=600, init="Init", length=0,
             cinit=None):
    """Run apalache-mc check on spec/<module>.tla with the (state or action)
    invariant inv from the states of init for length steps; returns "ok",
    "violated", or raises Infra."""
    d = _spec_copy(ctx)
    outdir = os.path.join(ctx.tmp, "apalache-" + name)
    cmd = ["timeout", str(timeout), "apalache-mc", "check", "--init=" + init,
           "--next=Next", "--inv=" + inv, "--length=%d" % length,
           "--out-dir=" + outdir]
    if cinit:
        cmd.append("--cinit=" + cinit)
    cmd.append(module + ".tla")
    p = subprocess.run(cmd, cwd=d, capture_output=True, text=True)
    out = p.stdout + p.stderr
    shutil.rmtree(outdir, ignore_errors=True)
    if "The outcome is: NoError" in out:
        return "ok"
    if "invariant 0 violated" in out and "The outcome is: Error" in out:
        return "violated"
    raise Infra("apalache failed on %s (%s):\n%s" % (module, inv, out[-2000:]))


def tlc_state(out):
    """Extract the last printed state of a TLC error trace (text)."""
    i = out.rfind("State ")
    return out[i:i + 4000] if i >= 0 else ""


def read_ndjson(path):
    with open(path) as fh:
        return [json.loads(x) for x in fh if x.strip()]


# -- evidence -----------------------------------------------------------------
def write_evidence(ctx, level, coverage, assumptions):
    os.makedirs(EVID, exist_ok=True)
    coverage = dict(coverage)
    coverage.update(ctx.cov)
    for kind, label in (("trace", "impl_traces"), ("mc", "model_checking")):
        acc = ctx.action_cov.get(kind)
        if acc:
            coverage["spec_actions_taken_by_" + label] = {
                k: v for k, v in sorted(acc.items()) if v > 0}
            coverage["spec_actions_never_taken_by_" + label] = sorted(
                k for k, v in acc.items() if v == 0 and not k.endswith("!Init"))
    ev = {
        "property_id": ctx.pid,
        "tier": ctx.tier,
        "seed": ctx.seed,
        "level": level,
        "coverage": coverage,
        "assumptions": assumptions,
        "wall_s": round(time.time() - ctx.t0, 2),
        "violations": len(ctx.violations),
        "known_findings_hit": ctx.known_hits,
        "repo_head": git_head(),
    }
    with open(os.path.join(EVID, ctx.pid + ".json"), "w") as fh:
        json.dump(ev, fh, indent=1, default=str)


def git_head():
    try:
        h = subprocess.run(["git", "-C", REPO, "rev-parse", "--short", "HEAD"],
                           capture_output=True, text=True).stdout.strip()
        d = subprocess.run(["git", "-C", REPO, "status", "--porcelain",
                            "--untracked-files=no"],
                           capture_output=True, text=True).stdout.strip()
        return h + ("+dirty" if d else "")
    except Exception:
        return "?"


def printed_tuples(out, tag):
    """All tuples <<"tag", ...>> TLC printed (Print/PrintT), whatever the line
    breaking; each is returned as a list of Python values (ints, bools, strs)."""
    flat = re.sub(r"\s+", " ", out)
    res = []
    for m in re.finditer(r'<<\s*"%s"\s*,(.*?)>>' % re.escape(tag), flat):
        vals = []
        for tok in m.group(1).split(","):
            tok = tok.strip()
            if tok in ("TRUE", "FALSE"):
                vals.append(tok == "TRUE")
            elif re.fullmatch(r"-?\d+", tok):
                vals.append(int(tok))
            else:
                vals.append(tok.strip('"'))
        res.append(vals)
    if len(res) != flat.count('"%s"' % tag):
        raise Infra("could not parse every %s tuple TLC printed" % tag)
    return res
