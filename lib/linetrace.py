"""Generic helper: validate an NDJSON function/call trace with a TLC trace
spec whose acceptance is TraceAccepted (diameter = lines + 1)."""
import json
import re

from vlib import Infra, read_ndjson, tlc


def validate(ctx, module, cfg_text, path, name, keyfn, what="trace",
             max_rejects=6, segment_op=None, context_lines=12):
    """Runs TLC; on a rejected line reports keyfn(line) and, if segment_op is
    given (an "op" value that starts a new independent segment), removes the
    offending segment and continues so that the rest is still checked.
    Returns (#lines, #rejected, distinct states)."""
    lines = read_ndjson(path)
    cur_path, cur = path, lines
    rejected = 0
    states = 0
    for attempt in range(max_rejects + 1):
        r = tlc(ctx, module, cfg_text % cur_path, "%s_%d" % (name, attempt),
                workers=1, timeout=3000)
        states += r["distinct"]
        if r["ok"]:
            break
        if r["rejected_at"] is None:
            if r["violated"]:
                m = re.findall(r"/\\ l = (\d+)", r["out"])
                at = int(m[-1]) - 1 if m else 1
            else:
                raise Infra("%s failed:\n%s" % (module, r["out"][-2000:]))
        else:
            at = r["rejected_at"]
        at = min(max(at, 1), len(cur))
        ln = cur[at - 1]
        rejected += 1
        try:
            key = keyfn(ln, cur, at - 1)
        except TypeError:
            key = keyfn(ln)
        ctx.report(key, "line %d of the %s is not explained by %s.tla: %s" %
                   (at, what, module, json.dumps(ln)[:500]),
                   {"line": ln, "context": cur[max(0, at - context_lines):at + 2]})
        if segment_op is None or attempt == max_rejects:
            break
        # drop the segment containing the bad line
        s = at - 1
        while s > 0 and cur[s].get("op") != segment_op:
            s -= 1
        e = at
        while e < len(cur) and cur[e].get("op") != segment_op:
            e += 1
        cur = cur[:s] + cur[e:]
        if not cur:
            break
        cur_path = "%s.retry%d" % (path, attempt + 1)
        with open(cur_path, "w") as fh:
            for x in cur:
                fh.write(json.dumps(x) + "\n")
    return len(lines), rejected, states
