"""Validation of recorded traces against spec/Trace_GBNLife.tla (C12)."""
import json
import os

from vlib import Infra, tlc, tlc_state

CFG = """CONSTANTS
  EP = {"c", "s"}
  Net = "ok"
  PongStopped = TRUE
  TraceFile = "%s"
  MaxCloseMs = %d
SPECIFICATION TraceSpec
INVARIANT NoLeak
POSTCONDITION TraceAccepted
CHECK_DEADLOCK FALSE
"""


def validate(ctx, out_dir, prefix, group="all", max_close_ms=1200,
             max_rejects=8):
    summary = json.load(open(os.path.join(out_dir, prefix + "_summary.json")))
    runs = [r for r in summary["runs"] if r["group"] == group]
    path = os.path.join(out_dir, "%s_%s.ndjson" % (prefix, group))
    lines = open(path).read().splitlines()
    todo = list(runs)
    cur = path
    attempt = 0
    rejected = 0
    states = 0
    while todo:
        r = tlc(ctx, "Trace_GBNLife", CFG % (cur, max_close_ms),
                "life_%s_%d" % (prefix, attempt), workers=1, timeout=1500)
        states += r["distinct"]
        if r["ok"]:
            break
        if r["rejected_at"] is None:
            raise Infra("Trace_GBNLife: " + r["out"][-2000:])
        off = 0
        bad = None
        for ru in todo:
            ln = ru["last"] - ru["first"] + 1
            if off < r["rejected_at"] <= off + ln:
                bad, rel = ru, r["rejected_at"] - off
                break
            off += ln
        if bad is None:
            raise Infra("cannot map rejected line")
        evs = [json.loads(x) for x in lines[bad["first"] - 1:bad["last"]]]
        ev = evs[rel - 1]
        rejected += 1
        key = "life:reject:%s" % ev.get("ev")
        if ev.get("ev") == "abortInventory":
            if ev.get("leaked", 0) > 0:
                key = "life:abort-handshake:leak:" + "+".join(sorted(set(ev.get("names", []))))
            else:
                key = "life:abort-handshake:constructor-does-not-return"
        elif ev.get("ev") == "inventory":
            if ev.get("leaked", 0) > 0:
                key = "life:leak:" + "+".join(sorted(set(ev.get("names", []))))
            elif ev.get("blocked", 0) or ev.get("stuck", 0):
                key = "life:blocked-calls-left"
        elif ev.get("ev") == "closeDone" and not any(
                e.get("ev") == "tx" and e.get("k") == "FIN" and
                e.get("ep") == ev.get("ep") for e in evs[:rel]):
            key = "life:closed-without-fin-although-transport-takes-packets"
        elif ev.get("ev") == "selfClosed":
            key = "life:connection-did-not-close-itself"
        elif ev.get("ev") == "closeStuck":
            key = "life:close-never-returns"
        elif ev.get("ev") == "closeRet":
            key = "life:closeRet:w=%s" % ("late" if ev.get("w", 0) > max_close_ms
                                         else "early-or-error")
        life = [e for e in evs[:rel + 1] if e.get("ev") in (
            "closeCall", "closeQuit", "closeDone", "closeRet", "fin", "sExit",
            "rExit", "blockedAtClose", "netAtClose", "postSend", "postRecv",
            "peerCheck", "inventory", "abortInventory", "pongTimeout",
            "selfClosed") or
            (e.get("ev") == "tx" and e.get("k") == "FIN") or
            (e.get("ev") in ("sendRet", "recvRet") and e.get("err"))]
        ctx.report(key, "life-cycle trace of the real connection is not a "
                   "behaviour of GBNLife.tla at line %d: %s (scenario %s)" %
                   (rel, json.dumps(ev), json.dumps(bad["desc"])),
                   {"run": bad["desc"], "line": rel, "event": ev,
                    "lifecycle_events": life[-60:]})
        todo = [x for x in todo if x is not bad]
        attempt += 1
        if attempt >= max_rejects:
            break
        cur = os.path.join(ctx.tmp, "%s_life_retry%d.ndjson" % (prefix, attempt))
        with open(cur, "w") as fh:
            for ru in todo:
                fh.write("\n".join(lines[ru["first"] - 1:ru["last"]]) + "\n")
    return {"traces": len(runs), "rejected": rejected, "states": states,
            "lines": len(lines)}, runs
