"""Status logs of real mailbox sessions (lncrun.Session.Stat) -> one segment
per party, validated by Trace_Status.tla against Status.tla."""
import json
import os

import linetrace
from vlib import Infra, read_ndjson, tlc

MC = """CONSTANTS
  MaxConns = %d
  FinWritesFirstConn = %s
SPECIFICATION Spec
INVARIANTS TypeOK ConnectedMeansReceived
PROPERTIES DetailKept PubFollowsWrites %s
"""


def model_check(ctx):
    """Status.tla for every interleaving of a client's connections: the
    pinned behaviour (the FIN callback writes the first connection's
    register) keeps the invariants; FinReachesCurrent holds only without that
    deviation and TLC must show the counterexample with it."""
    nconn = 3 if ctx.tier == "quick" else 4
    r = tlc(ctx, "MC_Status", MC % (nconn, "TRUE", ""), "mc_status", timeout=1200)
    if not r["ok"]:
        raise Infra("Status.tla violates %s:\n%s" % (r["violated"], r["out"][-1500:]))
    states, trans = r["distinct"], r["generated"]
    r = tlc(ctx, "MC_Status", MC % (nconn, "FALSE", "FinReachesCurrent"), "mc_status_fix",
            timeout=1200)
    if not r["ok"]:
        raise Infra("Status.tla (FIN writes the current connection) violates %s" % r["violated"])
    states += r["distinct"]
    trans += r["generated"]
    m = tlc(ctx, "MC_Status", MC % (nconn, "TRUE", "FinReachesCurrent"), "mc_status_dev",
            timeout=1200)
    if m["violated"] != "FinReachesCurrent":
        raise Infra("the FIN-target deviation is not shown by FinReachesCurrent (got %s)"
                    % m["violated"])
    return states, trans

STATUS_TR = """CONSTANTS
  TraceFile = "%s"
  MaxConns = 100000
  FinWritesFirstConn = TRUE
SPECIFICATION TSpec
INVARIANTS ConnectedMeansReceived
PROPERTIES TDetailKept
POSTCONDITION TraceAccepted
CHECK_DEADLOCK FALSE
"""


def project(raw_lines):
    """Splits every session's log into the segments of its parties.  A
    connection is numbered per client in the order of its first line and gets
    a "new" line there (the hooks report the connection object; when it was
    created is when it first speaks)."""
    sessions, cur = [], None
    for x in raw_lines:
        if x.get("ev") == "reset":
            cur = {"scen": x.get("scen", "?"), "ws": int(x.get("ws", 0)), "lines": []}
            sessions.append(cur)
        elif cur is not None:
            cur["lines"].append(x)
    out = []
    for s in sessions:
        for who in ("c", "x", "s"):
            seg, ids = [], {}
            for x in s["lines"]:
                ev = x.get("ev")
                if ev == "relay" and x.get("who") == who:
                    seg.append({"op": "relay", "rop": x["op"], "cls": x.get("cls", ""),
                                "sid": x.get("sid", "")})
                elif ev == "cstat" and x.get("who") == who:
                    k = ids.get(x["conn"])
                    if k is None:
                        k = ids[x["conn"]] = len(ids) + 1
                        seg.append({"op": "new", "conn": k})
                    seg.append({"op": x["op"], "conn": k, "st": x["st"]})
                elif ev == "pub" and x.get("who") == who:
                    seg.append({"op": "pub", "st": x["st"]})
                elif ev == "srvStatus" and who == "s":
                    seg.append({"op": "srvStatus", "st": x["st"]})
            if any(y["op"] != "relay" for y in seg):
                out.append({"op": "reset", "who": who, "scen": s["scen"], "ws": s["ws"]})
                out.extend(seg)
    return out


def validate(ctx, raw_path, name, keyprefix):
    """Returns a dict of counts for the evidence."""
    if not os.path.exists(raw_path) or os.path.getsize(raw_path) == 0:
        return {"status_lines_validated": 0}
    lines = project(read_ndjson(raw_path))
    path = raw_path + ".proj"
    with open(path, "w") as fh:
        for x in lines:
            fh.write(json.dumps(x) + "\n")

    def keyfn(ln, cur, idx):
        j = idx
        while j > 0 and cur[j].get("op") != "reset":
            j -= 1
        return "%s:status:%s:%s:%s" % (keyprefix, cur[j].get("who"), ln.get("op"),
                                       cur[j].get("scen", "?"))
    n, rej, states = linetrace.validate(
        ctx, "Trace_Status", STATUS_TR, path, name, keyfn,
        what="status log", segment_op="reset")
    ops = {}
    for x in lines:
        ops[x["op"]] = ops.get(x["op"], 0) + 1
    applied = [x["st"] for x in lines if x["op"] == "status"]
    return {"status_lines_validated": n, "status_segments_rejected": rej,
            "status_segments": ops.get("reset", 0),
            "status_register_writes": len(applied),
            "status_register_writes_by_value": {str(v): applied.count(v) for v in sorted(set(applied))},
            "status_kept_against_not_connected": ops.get("statusKept", 0),
            "status_polls_of_ConnStatus": ops.get("pub", 0),
            "status_server_callbacks": ops.get("srvStatus", 0)}
