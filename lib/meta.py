"""Per-check metadata from which bin/mkmanifest writes MANIFEST.json."""
NOTES = ("Every check builds the Go harness against /repo's current working "
         "tree (-tags verif,rpctest), runs TLC on the specification, runs the "
         "real code under virtual time and validates what it did against the "
         "specification. Genuine defects found and repaired are listed in "
         "known_findings.json.")
NOT_APPLICABLE = {}
CHECKS = {
 "C01": {
  "text": "TLC checks PrefixDelivery and the window invariants on spec/GBN.tla for every interleaving of small bounded configurations; traces of the real GoBackNConn pair recorded under virtual time with random faults are validated line by line against the same specification with the property evaluated in every reconstructed state.",
  "note": "exhaustive only for the small constants listed in the evidence; larger windows by validated implementation traces; transport assumed order preserving per direction; TLC and the Go runtime's synctest are trusted",
 },
 "C07": {
  "text": "TLC checks NoPanic on the transcribed decoders for every byte string over a reduced alphabet, the window lemmas for every wire value, and WindowBound on GBN.tla with a relay forging ACK/NACKs; the real decoders are compared with the operators (function trace), every SYN window value and a forged packet of every class in every small window state are fed to live endpoints whose traces are validated; any panic of the code under test is a violation. A raw no-panic sweep over 17 M byte strings is reported separately (exploration).",
  "note": "GBN layer and codecs; Noise-level malformed input is covered by C02/C04/C16 checks; a crash is attributed to the scenario recorded just before it",
 },
 "C09": {
  "text": "TLC proves the window-arithmetic lemmas for every (s, base, top, wire value) tuple of the listed sequence spaces and WindowBound/Outstanding/AddOnlyWithRoom on GBN.tla; the real queue's results for all 256 ACK/NACK values in every window state are compared by TLC with the specification's operators; blocking scenarios and random-fault runs of real connections are trace-validated with the window invariants evaluated in every state.",
  "note": "arithmetic exhaustive for the listed sequence-space sizes and sampled for s = 255; blocking observed at synctest quiescent instants",
  "technique": "TLA+ model checking (TLC) + function-trace and connection-trace validation against the spec",
 },
 "C19": {
  "text": "Codec.tla transcribes the (de)serialisers; TLC checks RoundTrip and Stable for every message and byte string over a reduced alphabet and compares the logged inputs/outputs of the real functions (all 256 values of every one-byte field, flags, malformed and length-mismatched inputs) with the operators.",
  "note": "encode/decode fidelity is addressed as transcribe-enumerate-compare; large payloads (to 1 MiB) are round-tripped on the Go side only",
  "technique": "TLA+ operators checked by TLC + function-trace validation",
 },
 "C12": {
  "text": "TLC checks the life-cycle specification GBNLife.tla (five-step Close body under a once guard, loop exits, FIN, blocked callers) for all interleavings and three transport conditions (NoLeak, CloseCompletes, BlockedCallersWake, PeerLearns, Idempotent); real connections are closed at many instants of five scenarios by single/both/repeated/concurrent callers under four transport conditions and the recorded life-cycle events, call durations and the final goroutine inventory are validated against the specification.",
  "note": "close instants sampled on a time grid; FIN-send-blocks scenarios run in real time (sync.Once waits are not durable in a synctest bubble); transport honours ctx; GBN level only",
 },
}
