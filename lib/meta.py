"""Per-check metadata from which bin/mkmanifest writes MANIFEST.json."""
NOTES = ("Every check builds the Go harness against /repo's current working "
         "tree (-tags verif,rpctest), runs TLC on the specification, runs the "
         "real code under virtual time and validates what it did against the "
         "specification. Genuine defects found and repaired are listed in "
         "known_findings.json.")
NOT_APPLICABLE = {}
CHECKS = {
 "C01": {
  "text": "TLC checks PrefixDelivery and the window invariants on spec/GBN.tla for every interleaving of small bounded configurations; traces of the real GoBackNConn pair recorded under virtual time with random faults are validated line by line against the same specification with the property evaluated in every reconstructed state.",
  "note": "exhaustive only for the small constants listed in the evidence; larger windows by validated implementation traces; transport assumed order preserving per direction; TLC and the Go runtime's synctest are trusted",
 },
 "C07": {
  "text": "TLC checks NoPanic on the transcribed decoders for every byte string over a reduced alphabet, the window lemmas for every wire value, and WindowBound on GBN.tla with a relay forging ACK/NACKs; the real decoders are compared with the operators (function trace), every SYN window value and a forged packet of every class in every small window state are fed to live endpoints whose traces are validated; above GBN, every act of the Noise handshake (XX and KK, either reader) is truncated at every length, bit-flipped at every byte, replaced by random and by every short string, encrypted records are corrupted / truncated / replayed / replaced, and the websocket JSON envelope handling is fed valid, error-wrapped, malformed, short, random and mutated messages, each outcome compared with Trace_Stages.tla; any panic of the code under test is a violation. A raw no-panic sweep over 17 M byte strings is reported separately (exploration).",
  "note": "a crash is attributed to the scenario recorded just before it; at the handshake and record stages the transport ends 40 ms after the mutated bytes (standing in for the read timeout)",
 },
 "C09": {
  "text": "TLC proves the window-arithmetic lemmas for every (s, base, top, wire value) tuple of the listed sequence spaces, Apalache discharges them for every sequence space 2..256 at once (and refutes the pinned unguarded arithmetic), and WindowBound/Outstanding/AddOnlyWithRoom on GBN.tla; the real queue's results for all 256 ACK/NACK values in every window state are compared by TLC with the specification's operators; blocking scenarios and random-fault runs of real connections are trace-validated with the window invariants evaluated in every state.",
  "note": "arithmetic exhaustive for the listed sequence-space sizes and sampled for s = 255; blocking observed at synctest quiescent instants",
  "technique": "TLA+ model checking (TLC) + function-trace and connection-trace validation against the spec",
 },
 "C19": {
  "text": "Codec.tla transcribes the (de)serialisers; TLC checks RoundTrip and Stable for every message and byte string over a reduced alphabet and compares the logged inputs/outputs of the real functions (all 256 values of every one-byte field, flags, malformed and length-mismatched inputs) with the operators.",
  "note": "encode/decode fidelity is addressed as transcribe-enumerate-compare; large payloads (to 1 MiB) are round-tripped on the Go side only",
  "technique": "TLA+ operators checked by TLC + function-trace validation",
 },
 "C12": {
  "text": "TLC checks the life-cycle specification GBNLife.tla (five-step Close body under a once guard, loop exits, FIN, blocked callers) for all interleavings and three transport conditions (NoLeak, CloseCompletes, BlockedCallersWake, PeerLearns, Idempotent); real connections are closed at many instants of five scenarios by single/both/repeated/concurrent callers under four transport conditions and the recorded life-cycle events, call durations and the final goroutine inventory are validated against the specification.",
  "note": "close instants sampled on a time grid; FIN-send-blocks scenarios run in real time (sync.Once waits are not durable in a synctest bubble); transport honours ctx; GBN level only",
 },
 "C17": {
  "text": "Pairing.tla specifies the mnemonic bit-stream codec generically and the per-direction stream-id relations; TLC checks the inverse laws exhaustively for small (bits/word, words, bytes) parameters and evaluates the same operators with the real parameters (11, 10, 14) on logged inputs/outputs of the real functions (every single-bit entropy, tail-bit patterns, random entropies and phrases, NewPassphraseEntropy, ConnData.SID for both roles before/after pairing, GetSID per direction).",
  "note": "hashes/ECDH abstract (interned ids); distinct-secret inequality checked on sampled pairs only",
  "technique": "TLA+ operators checked by TLC + function-trace validation",
 },
 "C15": {
  "text": "RecordIO.tla models the three reader automata (NoiseGrpcConn.Read with its 32 KiB split, NoiseConn.Read, connKit.Read) and the write chunking over abstract byte positions; TLC checks the stream contract for every sequence of small write and buffer sizes; the real connections (NoiseGrpcConn over a real connKit, NoiseConn, plain connKit) are driven with boundary and random write / read-buffer sizes and every logged Read/Write is validated by TLC against the same contract with the real constants.",
  "note": "model with small symbolic constants (GRPCBUF=4, MAXREC=6), trace validation with the real ones; zero-length writes on the gRPC variant only",
  "technique": "TLA+ model checking (TLC) + call-trace validation of the real connections",
 },
 "C16": {
  "text": "RecordIO!FlushStep transcribes Machine.Flush's resumable partial-write arithmetic; TLC checks EmitOnce/CountExact/NoNewRecordWhilePending for every way a writer can accept a small record in pieces; the real Machine is flushed through a writer accepting every 2-way and sampled/all 3-way split of the wire bytes for 7 payload sizes (plus random partitions of 64 KiB records), every Flush call compared with FlushStep; handshakes of both patterns and all versions and record exchanges are run over readers returning 1..k bytes per Read.",
  "note": "writer returns a net.Error timeout after a prefix; read granularities 1, 2, 7, 33, random",
  "technique": "TLA+ model checking (TLC) + function-trace validation",
 },
 "C20": {
  "text": "TimeoutMgr.tla models TimeoutManager/TimeoutBooster in integer milliseconds; TLC checks FloorOK, StaticOK, SampleClean, BoostRate, FreshSampleResets for every history up to 6-7 events over boundary inter-event times, then replays recorded random histories of the real TimeoutManager (virtual clock, 7 configurations incl. the mailbox's) through the specification's actions comparing all getters after each event.",
  "note": "float32 boost arithmetic compared with 1 ms tolerance; bounded history length in the model",
 },
 "C02": {
  "text": "CipherStream.tla models both directions' cipher states and a relay with drop/duplicate/swap/replay/reflect/corrupt/inject/truncate actions over symbolic AEAD chunks; TLC checks ReadPrefix for every interleaving; the same operators predict how many messages the reader returns before its first error for each edit script, and every script (all single edits, random multi-edit scripts, single-bit flips of every chunk) is executed on the ciphertext of real XX and KK sessions in both directions, TLC comparing outcome and prefix property.",
  "note": "symbolic AEAD (a chunk opens iff direction, key generation and nonce match); only reads up to the first error are judged",
  "technique": "TLA+ model checking (TLC) + model-predicted outcomes compared with the real code (function-trace validation)",
 },
 "C03": {
  "text": "Noise.tla is a symbolic (Dolev-Yao) model of XXeke+SPAKE2 and KK; TLC evaluates CompleteOnlyIfAuthorised and NoResponseOnMismatch on every case (passphrases equal/different, expected static keys right/wrong on either side, all version ranges, payload classes, with tampering); the cases are executed on the real Machines (passphrases differing in single bits, wrong expected keys), counting every byte the responder writes and what is published to ConnData, and TLC compares each outcome with the prediction.",
  "note": "computational hardness is the symbolic model's assumption; scrypt cost lowered by the upstream rpctest tag",
  "technique": "TLA+ model checking (TLC) + model-predicted outcomes compared with the real code",
 },
 "C04": {
  "text": "Noise.tla treats the version byte as the code does (cleartext, range-checked, adopted in act 2, compared in act 3, selects payload framing, not in the transcript); TLC evaluates Agreement on all version ranges x patterns x payload classes x every combination of version-byte substitutions x one corrupted field; a large sample (all of them in the thorough tier, plus single-bit flips of every handshake byte) is executed on real Machines behind a man in the middle and TLC compares the observed outcome with the prediction and evaluates Agreement on it. The version-1/2 confusion it finds is an open known finding.",
  "note": "symbolic cryptography; quick tier samples the substitution combinations (the model covers all); payloads to 70000 bytes",
  "technique": "TLA+ model checking (TLC) + model-predicted outcomes compared with the real code",
 },
 "C08": {
  "text": "CipherStream.tla: nonce++ after every Encrypt/Decrypt, ratchet at ROT; TLC checks FreshPair, LockStep, NonceBound with a small ROT; real XX and KK sessions exchange thousands of records with the two directions interleaved across several rotations (real ROT = 1000), hooks in cipherState.Encrypt/Decrypt/rotateKey report every (key fingerprint, nonce) and TLC validates the log; the wire is scanned for plaintext, the auth payload and repeated ciphertext blocks.",
  "note": "keys as 32-bit fingerprints; ChaCha20-Poly1305/HKDF trusted",
 },
 "C14": {
  "text": "GBNChunk.tla models Send's splitting and Recv's reassembly over the reliable packet FIFO established by C01, with deadlines able to fire between any two packets; TLC checks OneSendOneRecv/AllDelivered for all payload lengths 0..5, chunk sizes off/1/2/3 and sequences; real connections are driven with every length 0..3M+1 for every small chunk size, boundary and large payloads, mixed sequences under drop/duplicate/delay, and send/receive deadlines expiring at every packet boundary (call retried); TLC validates the Send/Recv call log (length + content hash). The send-deadline case is an open known finding.",
  "note": "packet channel below assumed exactly-once/ordered (C01); content compared by length and a 31-bit SHA-256 prefix",
 },
 "C10": {
  "text": "GBNHandshake.tla models clientHandshake/serverHandshake (timeouts, resent flag, restart on SYN, completion on SYNACK or DATA after a restart, failure on unexpected packets, rejection of window 255) over lossy/duplicating FIFO channels that may start with stale packets; TLC checks AgreeN, SrvNProposed, termination for all interleavings of small fault budgets and nine stale prefixes, and convergence under fairness; real handshakes run under virtual time for every pattern of up to three drops/duplicates over the first packets of each direction, stale packets of every type in either direction, several windows and start orders, followed by a message each way, and the traces (wire events, hooks at every examined packet and timeout, results, adopted windows) are validated against the specification.",
  "note": "stale packets are a prefix of the channels; a left-over handshake packet reaching an endpoint already in the data phase ends that connection visibly, so data flow is required only when none is left; a side still in its handshake when the harness gives up (40 virtual s) is not judged",
 },
 "C13": {
  "text": "KeepAlive.tla is a discrete-time model of the send loop's locations (outer select, full-window select, resend/sync wait), the ping/pong/resend count-downs, the receive loop's timer resets and a peer that may die at any instant; TLC checks DetectDead (bound ping + pong + two resend/sync waits) for every death instant, amount of queued data and loop location, and NoFalseClose for a responsive peer; real keepalive connections are silenced at many instants with 0..n+2 queued messages under three ping/pong settings (incl. the mailbox's 5/7/3 s), static and adaptive resend timeouts, healthy links are left idle for thousands of virtual seconds with latencies just below the pong timeout, and a timed observer specification validates every trace.",
  "note": "trace bound: ping + pong + 6 x resend timeout at the end of the run + 2.5 s; the model's time unit is abstract",
  "technique": "TLA+ timed model checking (TLC) + trace validation by a timed observer specification",
 },
 "C06": {
  "text": "Liveness is model-checked on GBN.tla (LiveSpec: weak/strong fairness of loops, application and resend timer, finitely many faults): every message is eventually delivered for good and the windows drain; the timed model KeepAlive.tla checks NoSilentStall for resend timeouts below and above the peer's keepalive cadence; real connections run through seeded random fault prefixes followed by a reliable link, and through tail-loss scenarios with the peer's keepalive running (static timeouts 1-8 s, adaptive timeouts over 20-800 ms links); a timed observer specification checks bounded delivery, no unprovoked closure (none at all with keepalive off) and quiescence on every trace.",
  "note": "trace bounds scale with the resend timeout in force at the end of the fault period (measured, since the adaptive timeout stays boosted): delivery bound 25 x base + 15 s, quiet window 12 x base; liveness model-checked for small windows/message counts and unidirectional traffic (bounded channels make the bidirectional model deadlock artificially; bidirectional progress is covered by the validated traces); with keepalive on a closure during the fault prefix counts as visible failure",
  "technique": "TLA+ liveness and timed model checking (TLC) + trace validation by a timed observer specification",
 },
 "C05": {
  "text": "LNC.tla composes the stack of one secured connection (Write -> Noise record header+body -> one GBN message each -> DATA packets through the relay's one-way stream with drops, breaks, re-attachment, a relay that may die -> in-order exactly-once delivery or connection down -> ReadMessage -> Read of at most 32 KiB); TLC checks StreamIntegrity (byte conservation through every stage, read is a prefix of written), InOrderOnce, CiphertextOnly (two leaky mutants must be caught) for every interleaving of small configurations and CompletesOrFails under fairness; real connections (mailbox Server/Client, real GBN, real Noise XX/KK, NoiseGrpcConn) are driven in real time through an in-process relay with every write-size class up to 65535 both ways, concurrent random mixes under relay drops/delays/stream breaks for a finite period, and a relay that stops for good; each session trace (application writes, every write of the Noise layer to the connection below, every message the relay receives/queues/drops/delivers with GBN type, sequence number, length and leak-detector verdict, every Read with position, length and content check, failures, completion verdict) is validated against LNC.tla.",
  "note": "relay = harness stand-in, not aperture; ciphertext-only decided by a leak detector (application plaintext blocks, auth data, passphrase entropy, static keys) plus the framing-length relation, not cryptanalysis; real-time patience 90 s",
  "technique": "TLA+ model checking (TLC, safety + liveness) + trace validation of real end-to-end sessions against the specification",
 },
 "C11": {
  "text": "Session.tla models Server.Accept and Client.Dial step by step (enter, wait for the previous connection's Done, recompute the rendezvous from the connection data, tear the old connection down on a change, hand out the new one), the connection data (remote key => key-derived SID and KK pattern) and the two ends of the Noise handshake feeding the keys back; TLC checks AtMostOneOpen, KeyedConnsUseK, SameRendezvous, OnlyThePairedClient, OldBoxesGone for every interleaving of a server, the pairing client and a second passphrase-holding client, with and without prior pairing and key-keeping handshake versions, FreshAfterClose under fairness, and two mutants of the specification that must be caught; the real mailbox.Server/Client/ServerConn/ClientConn with real GBN and NoiseGrpcConn are driven in real time against an in-process relay through scripted sessions (pairing and reconnects closed from either side, pre-paired, handshake version 1, a second passphrase client, Dial while open, relay failure, lost last pairing act) and every session trace (calls/returns with the stream ids really used and the count of earlier connections still open, handshake results, closes, mailbox creations/deletions) is validated against Session.tla.",
  "note": "real-time runs against the harness relay (not aperture); expectations wait up to 60 s each; a pairing whose last act is lost leaves client and server on different rendezvous (modelled: HalfPaired) - the property speaks of pairings in which both keys were exchanged",
  "technique": "TLA+ model checking (TLC, safety + liveness) + trace validation of real mailbox sessions against the specification",
 },
 "C18": {
  "text": "Ticker.tla models every statement of IntervalAwareForceTicker's reset/stop for three concurrent clients (send loop, receive loop, Close); TLC checks NoDoubleClose, MutualExclusion of the unsynchronised fields, OneGoroutine and that no client waits forever; real keepalive connections whose ping ticks coincide with packet arrivals run with Send, the timeout setters and Close called from several goroutines, and the ticker and timeout manager are stressed directly as the connection's goroutines use them, all in a race-detector build; the ticker hooks (reported from inside the reset/stop sections) are validated against the specification (no overlapping sections, nothing after a stop).",
  "note": "Go-memory-model data races are observed by the race detector during the validated runs (a report is a violation); TLC decides the section-overlap/double-close part; interleavings are sampled by the scheduler",
  "technique": "TLA+ model checking (TLC) of the ticker protocol + trace validation of ticker sections + Go race detector as observer",
 },
}
