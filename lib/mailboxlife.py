"""C12 at the mailbox level: MailboxLife.tla model-checked; Close calls on
real ClientConn / ServerConn recorded by TestC12Mailbox and validated by
Trace_MailboxLife.tla, one segment per connection."""
import json
import os

import linetrace
from vlib import Infra, read_ndjson, run_driver, tlc

MC = """CONSTANTS
  Callers <- %s
  RelayUp = %s
SPECIFICATION LiveSpec
INVARIANTS TypeOK DoneMeansReleased RetMeansClosed NoLeak
PROPERTIES OnceOnly CloseCompletes
CHECK_DEADLOCK FALSE
"""
TR = """CONSTANTS
  TraceFile = "%s"
  Bound = 10000
  Callers <- K3
  RelayUp = FALSE
SPECIFICATION TSpec
INVARIANTS DoneMeansReleased RetMeansClosed NoLeak
CONSTRAINT HW
POSTCONDITION TraceAccepted
CHECK_DEADLOCK FALSE
"""


def model_check(ctx):
    states = trans = 0
    for callers in ("K2", "K3"):
        for up in ("TRUE", "FALSE"):
            r = tlc(ctx, "MC_MailboxLife", MC % (callers, up), "mc_mblife_%s_%s" % (callers, up),
                    workers=4, timeout=900)
            if not r["ok"]:
                raise Infra("MailboxLife.tla violates %s (RelayUp=%s)" % (r["violated"], up))
            states += r["distinct"]
            trans += r["generated"]
    return states, trans


def validate(ctx, binary):
    out = ctx.sub("c12mailbox")
    rc, o = run_driver(ctx, binary, "TestC12Mailbox", out, timeout=1500)
    if rc != 0:
        raise Infra("mailbox close driver failed:\n" + o[-2000:])
    raw = read_ndjson(os.path.join(out, "c12mailbox.ndjson"))
    lines, scen, seg, notes = [], None, {}, []
    for x in raw:
        if x["op"] == "reset":
            scen, seg, notes = x["scen"], {}, []
        elif x["op"] in ("mbCloseCall", "mbCloseRet"):
            seg.setdefault(x["conn"], (x["side"], []))[1].append(
                {k: v for k, v in x.items() if k in ("op", "k", "ms", "done")})
        elif x["op"] == "harnessNote":
            notes.append(x)
        elif x["op"] == "end":
            for conn, (side, ls) in sorted(seg.items()):
                lines.append({"op": "reset", "scen": scen, "conn": conn, "side": side})
                lines.extend(ls)
                lines.extend(notes)      # no action explains a harness note
                lines.append({"op": "end", "lingering": x.get("lingering", 0),
                              "where": x.get("where", "")[:600]})
            if not seg:
                ctx.report("mailbox-close:%s:no-connection" % scen,
                           "scenario %s: no connection came up, nothing was closed" % scen, x)
    path = os.path.join(out, "c12mailbox_proj.ndjson")
    with open(path, "w") as fh:
        for x in lines:
            fh.write(json.dumps(x) + "\n")

    def keyfn(ln, cur, idx):
        j = idx
        while j > 0 and cur[j].get("op") != "reset":
            j -= 1
        k = "mailbox-close:%s:%s:%s" % (cur[j].get("scen", "?"), cur[j].get("side"), ln.get("op"))
        if ln.get("op") == "mbCloseRet":
            if ln.get("ms", 0) < 0:
                k += ":did-not-return"
            elif ln.get("ms", 0) > 10000:
                k += ":slow"
            elif not ln.get("done"):
                k += ":done-not-closed"
        elif ln.get("op") == "end" and ln.get("lingering"):
            k += ":goroutines-linger"
        return k
    n, rej, st = linetrace.validate(ctx, "MC_Trace_MailboxLife", TR, path, "tr_mblife", keyfn,
                                    what="mailbox close trace", segment_op="reset")
    rets = [x for x in lines if x["op"] == "mbCloseRet"]
    return {"mailbox_close_lines": n, "mailbox_close_segments_rejected": rej,
            "mailbox_connections_closed": sum(1 for x in lines if x["op"] == "reset"),
            "mailbox_close_calls": len(rets),
            "mailbox_close_max_ms": max([x.get("ms", 0) for x in rets] or [0])}
