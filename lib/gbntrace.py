"""Validation of recorded GoBackNConn traces against spec/Trace_GBN.tla."""
import json
import os
import re
from concurrent.futures import ThreadPoolExecutor

from vlib import Infra, log, read_ndjson, tlc, tlc_state

CFG = """CONSTANTS
  N = %(n)d
  EP = {"c", "s"}
  MaxSend <- MCMaxSend
  MaxPing <- MCMaxPing
  SendC = 0
  SendS = 0
  PingC = 0
  PingS = 0
  MaxDrop = 0
  MaxDup = 0
  MaxResend = 0
  ChanCap = 0
  MaxInject = 0
  InjSeqs = {}
  TraceFile = "%(trace)s"
SPECIFICATION TraceSpec
INVARIANTS %(invs)s
POSTCONDITION TraceAccepted
CHECK_DEADLOCK FALSE
"""

DEFAULT_INVS = "WindowBound Outstanding PrefixDelivery Unwrapped"


def _validate_file(ctx, path, n, name, invs):
    """Returns (lines_ok, failure) where failure is None or a dict with the
    1-based line that could not be explained / broke an invariant."""
    res = tlc(ctx, "MC_Trace_GBN",
              CFG % {"n": n, "trace": path, "invs": invs}, name, workers=1,
              timeout=1500)
    if res["ok"]:
        return res, None
    if res["violated"]:
        st = tlc_state(res["out"])
        m = re.findall(r"/\\ l = (\d+)", res["out"])
        line = int(m[-1]) - 1 if m else 0
        return res, {"kind": "invariant", "inv": res["violated"],
                     "line": line, "state": st}
    if res["rejected_at"] is not None:
        # diameter d means d-1 lines were consumed; line d is unexplained
        return res, {"kind": "rejected", "line": res["rejected_at"],
                     "state": ""}
    raise Infra("unparseable TLC result for %s" % name)


def validate(ctx, out_dir, prefix, invs=DEFAULT_INVS, classify=None,
             max_rejects=6):
    """Validate every group file of a traceSet.  Returns statistics; reports
    violations through ctx.report."""
    with open(os.path.join(out_dir, prefix + "_summary.json")) as fh:
        summary = json.load(fh)
    runs = summary["runs"]
    groups = {}
    for r in runs:
        groups.setdefault(r["group"], []).append(r)
    stats = {"traces": 0, "lines": 0, "states": 0, "rejected": 0,
             "faulty_traces": 0}

    def work(item):
        g, rs = item
        n = int(g[1:])
        path = os.path.join(out_dir, "%s_%s.ndjson" % (prefix, g))
        lines = open(path).read().splitlines()
        todo = list(rs)
        fails = []
        st = 0
        attempt = 0
        cur_path = path
        while todo:
            res, f = _validate_file(ctx, cur_path, n,
                                    "%s_%s_%d" % (prefix, g, attempt), invs)
            st += res["distinct"]
            if f is None:
                break
            # map the line in the current file to a run
            off = 0
            bad = None
            for r in todo:
                ln = r["last"] - r["first"] + 1
                if off < f["line"] <= off + ln:
                    bad = r
                    f["rel"] = f["line"] - off
                    break
                off += ln
            if bad is None:
                bad = todo[-1]
                f["rel"] = bad["last"] - bad["first"] + 1
            f["run"] = bad
            f["events"] = [json.loads(x) for x in
                           lines[bad["first"] - 1:bad["last"]]]
            fails.append(f)
            todo = [r for r in todo if r is not bad]
            attempt += 1
            if attempt >= max_rejects:
                break
            cur_path = os.path.join(ctx.tmp, "%s_%s_retry%d.ndjson" %
                                    (prefix, g, attempt))
            with open(cur_path, "w") as fh:
                for r in todo:
                    fh.write("\n".join(lines[r["first"] - 1:r["last"]]) + "\n")
        return g, len(rs), len(lines), st, fails

    with ThreadPoolExecutor(max_workers=8) as ex:
        results = list(ex.map(work, groups.items()))
    for g, ntr, nl, st, fails in results:
        stats["traces"] += ntr
        stats["lines"] += nl
        stats["states"] += st
        for f in fails:
            stats["rejected"] += 1
            evs = f["events"]
            rel = f["rel"]
            badev = evs[rel - 1] if 0 < rel <= len(evs) else {}
            if f["kind"] == "invariant":
                key = "trace:inv:%s" % f["inv"]
                what = ("invariant %s false in the state reconstructed from "
                        "the real code's trace (after line %d: %s)" %
                        (f["inv"], rel, json.dumps(badev)))
            else:
                key = "trace:reject:%s" % badev.get("ev", "?")
                if badev.get("k"):
                    key += ":" + str(badev["k"])
                what = ("no behaviour of GBN.tla explains line %d of the "
                        "recorded trace: %s" % (rel, json.dumps(badev)))
            if classify:
                key = classify(f, badev, key)
            ctx.report(key, what, {
                "run": f["run"]["desc"], "obs": f["run"].get("obs"),
                "line": rel, "event": badev,
                "context": evs[max(0, rel - 25):rel + 3],
                "tlc_state": f["state"],
                "trace": evs if len(evs) <= 4000 else evs[:rel + 5][-4000:],
            })
    stats["faulty_traces"] = sum(1 for r in runs if r.get("faulty"))
    return stats, runs


def crash_report(ctx, output, prefix, extra=None, tag=None):
    """A panic / fatal error / race report of the code under test during a
    driver run is real-code behaviour: report it.  Returns True if one was
    found."""
    hm = re.search(r"VERIF-HANG scenario=(.*)", output)
    if hm:
        i = output.find("VERIF-HANG")
        blocked = re.findall(r"\[(sync\.\w+\.\w+|semacquire)[^\]]*\]:\n(?:.*\n)*?.*?lightning-node-connect/(\w+)\.([\w().*]+)",
                             output[i:i + 200000])
        where = "%s.%s" % (blocked[0][1], re.sub(r"\(0x.*$", "", blocked[0][2])) \
            if blocked else "?"
        ctx.report("hang:%s" % where,
                   "the scenario %s made no progress in real time: a goroutine "
                   "of the code under test waits on a lock that is never "
                   "released (first such frame: %s)" % (hm.group(1), where),
                   {"scenario": hm.group(1), "output": output[i:i + 8000]})
        return True
    m = re.search(r"(panic: .*|fatal error: .*|WARNING: DATA RACE)", output)
    if not m:
        return False
    head = m.group(1)
    i = output.find(head)
    frames = re.findall(r"lightning-node-connect/(\w+)\.([\w().*]+)",
                        output[i:i + 6000])
    where = ".".join(frames[0]) if frames else "?"
    where = re.sub(r"\(0x[0-9a-f]+.*$", "", where).rstrip("(")
    key = "crash:%s:%s" % (re.sub(r"[^A-Za-z ]", "", head)[:40].strip()
                           .replace(" ", "_"), where)
    if tag:
        key += ":" + tag
    ctx.report(key, "the code under test crashed during a driver run: %s "
               "(first frame %s)" % (head, where),
               {"output": output[i:i + 6000], "scenario": extra})
    return True
