"""Codec model checking and function-trace validation shared by C07 and C19."""
import json
import os
import re

from vlib import Infra, read_ndjson, run_driver, tlc

MC_CFG = """CONSTANTS
  Alpha = {%s}
  MaxLen = %d
  MaxPl = %d
  Dev = FALSE
INIT Init
NEXT Next
INVARIANT Props
CHECK_DEADLOCK FALSE
"""

TR_CFG = """CONSTANTS
  TraceFile = "%s"
  MinData = %d
INIT Init
NEXT Next
INVARIANT AllOK
CHECK_DEADLOCK FALSE
"""


def model(ctx):
    quick = ctx.tier == "quick"
    alpha = "0,1,2,3,4,5,6,7,255"
    r = tlc(ctx, "MC_Codec", MC_CFG % (alpha, 4, 2 if quick else 3),
            "mc_codec", timeout=1200)
    if not r["ok"]:
        raise Infra("Codec.tla violates its own properties:\n" + r["out"][-2000:])
    return r


def _trace(ctx, path, mindata):
    r = tlc(ctx, "Trace_Codec", TR_CFG % (path, mindata), "tr_codec%d" % mindata,
            workers=1, timeout=900)
    bad = None
    if not r["ok"]:
        m = re.search(r'"CODEC_MISMATCH_AT_LINE"\s*,\s*(\d+)', r["out"])
        if not m:
            raise Infra("Trace_Codec failed:\n" + r["out"][-2000:])
        bad = int(m.group(1))
    return r, bad


def function_trace(ctx, binary, out, report_ops):
    """Run the codec driver, validate with TLC.  report_ops limits which
    operations' mismatches are this property's business (others are still
    checked: a mismatch there is an infra-level disagreement to look at)."""
    rc, o = run_driver(ctx, binary, "TestCodecTrace", out)
    if rc != 0:
        raise Infra("codec driver failed:\n" + o[-2000:])
    path = os.path.join(out, "codec.ndjson")
    lines = read_ndjson(path)
    r, bad = _trace(ctx, path, 4)
    hits = []
    if bad is not None:
        ln = lines[bad - 1]
        short = (ln["op"] == "gbnDeser" and ln["st"] == "panic" and
                 len(ln["in"]) == 3 and ln["in"][0] == 2)
        key = "codec:%s:%s" % (ln["op"], "short-data-panic" if short else
                               "mismatch")
        hits.append((key, ln))
        if short:
            r2, bad2 = _trace(ctx, path, 3)
            if bad2 is not None:
                ln2 = lines[bad2 - 1]
                hits.append(("codec:%s:mismatch" % ln2["op"], ln2))
    return r, len(lines), hits, lines
