"""Model-checking configurations of spec/GBN.tla shared by the GBN checks."""
from vlib import tlc, tlc_simulate

CFG = """CONSTANTS
  N = %(n)d
  EP = {"c", "s"}
  SendC = %(sc)d
  SendS = %(ss)d
  PingC = %(pc)d
  PingS = %(ps)d
  MaxSend <- MCMaxSend
  MaxPing <- MCMaxPing
  MaxDrop = %(drop)d
  MaxDup = %(dup)d
  MaxResend = %(rs)d
  ChanCap = %(cap)d
  MaxInject = %(inj)d
  InjSeqs = {%(injseqs)s}
SPECIFICATION Spec
INVARIANTS %(invs)s
%(props)s
CHECK_DEADLOCK FALSE
"""

ALL_INVS = "TypeOK WindowBound Outstanding AddOnlyWithRoom PrefixDelivery Unwrapped"


# GBN.tla refines RelChan.tla (the channel the layers above assume); not
# claimed when the relay forges acknowledgements (C07 claims WindowBound only)
REFINES = "PROPERTY RelRefinement"


def cfg(n, sc, ss=0, pc=0, ps=0, drop=1, dup=0, rs=1, cap=4, invs=ALL_INVS,
        inj=0, injseqs="", props=None):
    if props is None:
        props = REFINES if inj == 0 else ""
    return dict(n=n, sc=sc, ss=ss, pc=pc, ps=ps, drop=drop, dup=dup, rs=rs,
                cap=cap, invs=invs, inj=inj, injseqs=injseqs, props=props)


# measured on the 16-core sandbox (distinct states / wall):
QUICK = {
    "n1_3msg_1drop": cfg(1, 3),                       # 48 k / 4 s
    "n2_3msg_wrap_1drop": cfg(2, 3),                  # 1.8 M / 24 s
    "n1_bidir_1drop": cfg(1, 1, ss=1),                # 180 k / 5 s
    "n1_ping_1drop": cfg(1, 2, pc=1),                 # 119 k / 4 s
    # duplicates: the only way an ACK can meet an empty queue (RAckEmpty)
    "n1_2msg_1drop_1dup": cfg(1, 2, drop=1, dup=1),   # 7 k / 2 s
    "n2_2msg_1dup": cfg(2, 2, drop=0, dup=1),
}
THOROUGH = dict(QUICK)
THOROUGH.update({
    "n1_3msg_2drop_1dup_2rs": cfg(1, 3, drop=2, dup=1, rs=2),   # 6.9 M / 96 s
    "n2_3msg_1drop_1dup": cfg(2, 3, drop=1, dup=1, rs=1),       # 13.7 M / 161 s
    "n1_2msg_bidir1_1drop_1dup": cfg(1, 2, ss=1, drop=1, dup=1, rs=1),  # 4.7 M / 61 s
    "n2_4msg_1dup": cfg(2, 4, drop=0, dup=1, rs=1),             # 7.0 M / 91 s
})


def run_mc(ctx, configs, invs=None, timeout=1500):
    """Run TLC on each configuration.  Returns (total distinct, total
    generated, per-config results, list of (name, violated invariant, out))."""
    tot_d = tot_g = 0
    per = {}
    bad = []
    for name, c in configs.items():
        c = dict(c)
        if invs:
            c["invs"] = invs
        r = tlc(ctx, "MC_GBN", CFG % c, "mc_" + name, timeout=timeout)
        tot_d += r["distinct"]
        tot_g += r["generated"]
        per[name] = {"constants": {k: v for k, v in c.items() if k != "invs"},
                     "distinct": r["distinct"], "generated": r["generated"],
                     "depth": r["depth"], "wall_s": round(r["wall"], 1),
                     "ok": r["ok"]}
        if not r["ok"]:
            bad.append((name, r["violated"], r["out"]))
    return tot_d, tot_g, per, bad

# C07: the relay forges ACK/NACK packets with arbitrary sequence bytes; only
# the window bookkeeping invariant is claimed under such an adversary.
INJECT_QUICK = {
    "n1_2msg_inject1": cfg(1, 2, drop=0, dup=0, rs=1, inj=1, injseqs="0,1,2,255",
                           invs="WindowBound"),            # 453 k / 15 s
    "n2_1msg_inject1": cfg(2, 1, drop=0, dup=0, rs=1, inj=1,
                           injseqs="0,1,2,3,255", invs="WindowBound"),
}
INJECT_THOROUGH = dict(INJECT_QUICK)
INJECT_THOROUGH.update({
    "n1_inject2": cfg(1, 2, drop=0, dup=0, rs=1, inj=2, injseqs="0,1,2,3,255",
                      invs="WindowBound"),                 # 12.9 M / 135 s
    "n2_2msg_inject1": cfg(2, 2, drop=0, dup=0, rs=1, inj=1,
                           injseqs="0,1,2,3,255", invs="WindowBound"),  # 8.8 M / 90 s
})


# Configurations beyond exhaustive reach (bidirectional traffic with pings,
# several losses, duplicates and resends; 180 M states were not enough for the
# smallest of them): a fixed number of random behaviours, every invariant and
# the refinement of RelChan evaluated along each.
SIM = {
    "n2_bidir_4x3_pings_3drop_2dup": cfg(2, 4, ss=3, pc=1, ps=1, drop=3, dup=2, rs=3, cap=6),
    "n3_bidir_5x2_2drop_2dup": cfg(3, 5, ss=2, drop=2, dup=2, rs=3, cap=7),
    "n1_bidir_4x4_ping_4drop": cfg(1, 4, ss=4, pc=1, drop=4, dup=1, rs=4, cap=5),
}


def run_sim(ctx, num_per_worker, names=None):
    """Returns (behaviours, states, per-config, list of (name, violated, out))."""
    tr = st = 0
    per = {}
    bad = []
    for name, c in SIM.items():
        if names and name not in names:
            continue
        r = tlc_simulate(ctx, "MC_GBN", CFG % c, "sim_" + name, num_per_worker)
        tr += r["traces"]
        st += r["states"]
        per[name] = {"constants": {k: v for k, v in c.items() if k not in ("invs", "props")},
                     "behaviours": r["traces"], "states_checked": r["states"],
                     "wall_s": round(r["wall"], 1), "ok": r["ok"]}
        if not r["ok"]:
            bad.append((name, r["violated"], r["out"]))
    return tr, st, per, bad
