--------------------------- MODULE Trace_SynSweep ---------------------------
(***************************************************************************)
(* C07 / C10: the server side of the GBN handshake against every proposed  *)
(* window value.  Each line: {"ev":"hs","proposed":n,"returned":0|1,       *)
(* "adopted":a,"err":"..."}.  The window must be representable: the        *)
(* sequence space s = n+1 has to fit in a byte and be larger than n.       *)
(***************************************************************************)
EXTENDS Integers, Sequences, Json, TLC
CONSTANT TraceFile
Trace == ndJsonDeserialize(TraceFile)

Representable(n) == n \in 0..254

LineOK(ln) ==
    /\ ln.returned = 1
    /\ IF Representable(ln.proposed)
       THEN ln.err = "" /\ ln.adopted = ln.proposed
       ELSE ln.err # "" /\ ln.adopted = -1

VARIABLE i
Init == i = 1
Next == i <= Len(Trace) /\ i' = i + 1
AllOK == i <= Len(Trace) =>
            \/ LineOK(Trace[i])
            \/ Print(<<"SYN_MISMATCH_AT_LINE", i>>, FALSE)
=============================================================================
