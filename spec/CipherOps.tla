------------------------------ MODULE CipherOps ------------------------------
(***************************************************************************)
(* Pure operators of the cipher-stream model (see CipherStream.tla): the    *)
(* symbolic AEAD chunk, the nonce/rotation step, the sequence editing       *)
(* helpers and the reader's outcome on an (edited) chunk sequence.          *)
(***************************************************************************)
EXTENDS Integers, Sequences

CONSTANT ROT        \* keyRotationInterval (1000 in the code)

Junk == [dir |-> "none", gen |-> -1, nonce |-> -1, part |-> "junk", msg |-> 0]

Bump(s) == IF s.nonce + 1 = ROT THEN [gen |-> s.gen + 1, nonce |-> 0]
           ELSE [gen |-> s.gen, nonce |-> s.nonce + 1]

Opens(d, c, s) == c.dir = d /\ c.gen = s.gen /\ c.nonce = s.nonce

RemoveAt(q, i) == [j \in 1..(Len(q) - 1) |-> IF j < i THEN q[j] ELSE q[j + 1]]
InsertAt(q, i, x) == [j \in 1..(Len(q) + 1) |->
                        IF j < i THEN q[j] ELSE IF j = i THEN x ELSE q[j - 1]]
SetAt(q, i, x) == [q EXCEPT ![i] = x]

(***************************************************************************)
(* The outcome of reading an (edited) chunk sequence q of direction d to   *)
(* its end with a fresh reader: the number of messages delivered before    *)
(* the first error.  The cipher state before the e-th encryption (0-based) *)
(* is StAt(e); message m is delivered iff chunks 2m-1 and 2m open under    *)
(* StAt(2m-2) and StAt(2m-1) as a header and the matching body.            *)
(***************************************************************************)
StAt(e) == [gen |-> e \div ROT, nonce |-> e % ROT]

GoodMsg(d, q, m) ==
    LET c1 == q[2 * m - 1]
        c2 == q[2 * m] IN
    /\ Opens(d, c1, StAt(2 * m - 2)) /\ c1.part = "hdr"
    /\ Opens(d, c2, StAt(2 * m - 1)) /\ c2.part = "body" /\ c2.msg = c1.msg

Delivered(d, q) ==
    LET n == Len(q) \div 2 IN
    CHOOSE k \in 0..n : (\A m \in 1..k : GoodMsg(d, q, m))
                         /\ (k = n \/ ~GoodMsg(d, q, k + 1))
=============================================================================
