------------------------------ MODULE CipherOps ------------------------------
(***************************************************************************)
(* Pure operators of the cipher-stream model (see CipherStream.tla): the    *)
(* symbolic AEAD chunk, the nonce/rotation step, the sequence editing       *)
(* helpers and the reader's outcome on an (edited) chunk sequence.          *)
(***************************************************************************)
EXTENDS Integers, Sequences

CONSTANT ROT        \* keyRotationInterval (1000 in the code)

Junk == [dir |-> "none", gen |-> -1, nonce |-> -1, part |-> "junk", msg |-> 0]

Bump(s) == IF s.nonce + 1 = ROT THEN [gen |-> s.gen + 1, nonce |-> 0]
           ELSE [gen |-> s.gen, nonce |-> s.nonce + 1]

Opens(d, c, s) == c.dir = d /\ c.gen = s.gen /\ c.nonce = s.nonce

RemoveAt(q, i) == [j \in 1..(Len(q) - 1) |-> IF j < i THEN q[j] ELSE q[j + 1]]
InsertAt(q, i, x) == [j \in 1..(Len(q) + 1) |->
                        IF j < i THEN q[j] ELSE IF j = i THEN x ELSE q[j - 1]]
SetAt(q, i, x) == [q EXCEPT ![i] = x]

(***************************************************************************)
(* The outcome of reading an edited stream to its end, as an operator (used *)
(* to predict what the real reader must do for a given edit script): the    *)
(* number of messages delivered before the first error.  q is the edited    *)
(* chunk sequence of direction d, read from a fresh reader state.           *)
(***************************************************************************)
RECURSIVE Delivered(_, _, _, _)
Delivered(d, q, s, n) ==
    IF Len(q) < 2 THEN n
    ELSE LET c1 == q[1]
             c2 == q[2]
             s2 == Bump(s) IN
         IF Opens(d, c1, s) /\ c1.part = "hdr" /\ Opens(d, c2, s2)
            /\ c2.part = "body" /\ c2.msg = c1.msg
         THEN Delivered(d, SubSeq(q, 3, Len(q)), Bump(s2), n + 1)
         ELSE n
=============================================================================
