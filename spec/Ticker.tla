------------------------------- MODULE Ticker -------------------------------
(***************************************************************************)
(* gbn/ticker.go IntervalAwareForceTicker as the connection uses it: the    *)
(* forwarding goroutine G and the clients that reset it (the send loop      *)
(* after a ping, the receive loop on every packet) or stop it (Close).      *)
(* Every statement of ResetWithInterval / Stop is one step:                 *)
(*    lock -> tickerStop -> closeQuit -> wait (G exited) ->                 *)
(*    new (ticker, quit channel) -> start (spawn G) -> unlock               *)
(* Closing a closed channel panics.  With Synchronised = FALSE the lock     *)
(* steps do nothing (the pinned code: named deviation DevTickerUnsync).     *)
(***************************************************************************)
EXTENDS Integers, FiniteSets, TLC

CONSTANTS Clients,        \* e.g. {"S", "R"}
          MaxOps,         \* operations per client (model bound)
          Synchronised

VARIABLES
    pc,        \* [Clients -> step]
    op,        \* [Clients -> "reset" | "stop"]
    done,      \* [Clients -> Nat] operations completed
    holder,    \* client holding resetMtx, or "none"
    quitOpen,  \* the current quit channel is open
    gAlive,    \* number of forwarding goroutines alive
    gSeesQuit, \* the goroutines select on the channel that is current
    stopped,   \* Stop has completed
    panic

vars == <<pc, op, done, holder, quitOpen, gAlive, gSeesQuit, stopped, panic>>

Init ==
    /\ pc = [c \in Clients |-> "idle"]
    /\ op = [c \in Clients |-> "reset"]
    /\ done = [c \in Clients |-> 0]
    /\ holder = "none"
    /\ quitOpen = TRUE /\ gAlive = 1 /\ gSeesQuit = TRUE
    /\ stopped = FALSE /\ panic = FALSE

\* Close stops the tickers only after both loops have exited (wg.Wait), so a
\* stop never overlaps a reset of the loops.
Begin(c, o) ==
    /\ pc[c] = "idle" /\ done[c] < MaxOps /\ ~stopped /\ ~panic
    /\ \A d \in Clients : op[d] = "stop" => pc[d] = "idle"
    /\ o = "stop" => \A d \in Clients \ {c} : pc[d] = "idle"
    /\ op' = [op EXCEPT ![c] = o]
    /\ pc' = [pc EXCEPT ![c] = "lock"]
    /\ UNCHANGED <<done, holder, quitOpen, gAlive, gSeesQuit, stopped, panic>>

Lock(c) ==
    /\ pc[c] = "lock"
    /\ IF Synchronised THEN holder = "none" /\ holder' = c ELSE UNCHANGED holder
    /\ pc' = [pc EXCEPT ![c] = "close"]
    /\ UNCHANGED <<op, done, quitOpen, gAlive, gSeesQuit, stopped, panic>>

\* t.ticker.Stop(); close(t.quit)
CloseQuit(c) ==
    /\ pc[c] = "close" /\ ~panic
    /\ IF quitOpen THEN quitOpen' = FALSE /\ UNCHANGED panic
       ELSE panic' = TRUE /\ UNCHANGED quitOpen          \* close of closed channel
    /\ pc' = [pc EXCEPT ![c] = "wait"]
    /\ UNCHANGED <<op, done, holder, gAlive, gSeesQuit, stopped>>

\* the goroutine sees its quit channel closed and returns
GExit ==
    /\ gAlive > 0 /\ gSeesQuit /\ ~quitOpen
    /\ gAlive' = gAlive - 1
    /\ UNCHANGED <<pc, op, done, holder, quitOpen, gSeesQuit, stopped, panic>>

\* t.wg.Wait()
Wait(c) ==
    /\ pc[c] = "wait" /\ gAlive = 0
    /\ pc' = [pc EXCEPT ![c] = IF op[c] = "reset" THEN "new" ELSE "unlock"]
    /\ stopped' = (stopped \/ op[c] = "stop")
    /\ UNCHANGED <<op, done, holder, quitOpen, gAlive, gSeesQuit, panic>>

\* new ticker, t.quit = make(chan struct{}), start()
New(c) ==
    /\ pc[c] = "new"
    /\ quitOpen' = TRUE /\ gSeesQuit' = TRUE
    /\ gAlive' = gAlive + 1
    /\ pc' = [pc EXCEPT ![c] = "unlock"]
    /\ UNCHANGED <<op, done, holder, stopped, panic>>

Unlock(c) ==
    /\ pc[c] = "unlock"
    /\ holder' = IF Synchronised THEN "none" ELSE holder
    /\ pc' = [pc EXCEPT ![c] = "idle"]
    /\ done' = [done EXCEPT ![c] = @ + 1]
    /\ UNCHANGED <<op, quitOpen, gAlive, gSeesQuit, stopped, panic>>

Next == \/ \E c \in Clients : \/ Begin(c, "reset") \/ Begin(c, "stop") \/ Lock(c)
                              \/ CloseQuit(c) \/ Wait(c) \/ New(c) \/ Unlock(c)
        \/ GExit
Spec == Init /\ [][Next]_vars /\ WF_vars(Next)

---------------------------------------------------------------------------
\* C18: no close-of-closed-channel
NoDoubleClose == ~panic
\* C18: the unsynchronised fields (ticker, quit) are touched by one client at
\* a time
InSection(c) == pc[c] \in {"close", "wait", "new", "unlock"}
MutualExclusion == Cardinality({c \in Clients : InSection(c)}) <= 1
\* no forwarding goroutine is leaked or duplicated
OneGoroutine == gAlive <= 1
\* the lock is always released: no client waits forever
NoDeadlock == \A c \in Clients : (pc[c] # "idle") ~> (pc[c] = "idle" \/ panic)
=============================================================================
