------------------------- MODULE Trace_MailboxLife -------------------------
(***************************************************************************)
(* Close calls on real mailbox connections (ClientConn / ServerConn over    *)
(* real GBN and relay streams, gRPC and websocket transport, relay up or    *)
(* gone) against MailboxLife.tla.  One segment per connection:              *)
(*   reset {scen, conn, side}                                               *)
(*   mbCloseCall {k}            caller k is about to call Close             *)
(*   mbCloseRet {k, ms, done}   its call returned after ms milliseconds     *)
(*                              (-1: not within 30 s); done: Done() closed  *)
(*   end {lingering}            goroutines left inside the mailbox / gbn    *)
(*                              packages after the session was shut down    *)
(* The body of Close and the retry loops are silent steps (taken only when  *)
(* a return is at hand).  A return must come within Bound ms: two           *)
(* uninterruptible 2 s back-offs of the retry loops plus the FIN wait.      *)
(***************************************************************************)
EXTENDS MailboxLife, Sequences, Json, TLC, Integers
CONSTANTS TraceFile, Bound
Trace == ndJsonDeserialize(TraceFile)
VARIABLES l
tvars == <<vars, l>>
Ev == Trace[l]
Is(o) == l <= Len(Trace) /\ Ev.op = o
Adv == l' = l + 1

TInit == Init /\ l = 1
TReset == /\ Is("reset") /\ Adv
          /\ cpc' = [k \in Callers |-> "idle"] /\ owner' = "none" /\ step' = 0
          /\ gctx' = TRUE /\ rl' = "call" /\ sl' = "call" /\ rstr' = TRUE /\ sstr' = TRUE
          /\ quit' = FALSE
TCall == /\ Is("mbCloseCall") /\ Adv
         /\ IF cpc[Ev.k] = "idle" THEN Call(Ev.k) ELSE Again(Ev.k)
TRet == /\ Is("mbCloseRet") /\ Adv
        /\ Ev.ms >= 0 /\ Ev.ms <= Bound      \* returned, in bounded time
        /\ Ev.done = 1                        \* and Done() has fired
        /\ Ret(Ev.k)
TEnd == /\ Is("end") /\ Adv /\ UNCHANGED vars
        /\ Ev.lingering = 0
        \* a connection that was closed has nothing left running
        /\ owner # "none" => (step = 5 /\ rl = "out" /\ sl = "out")
TSilent == /\ Is("mbCloseRet") /\ UNCHANGED l
           /\ \/ \E k \in Callers : Own(k)
              \/ S1a \/ S1b \/ S2 \/ S3 \/ S4 \/ S5 \/ RLoop \/ SLoop
TNext == TReset \/ TCall \/ TRet \/ TEnd \/ TSilent
TSpec == TInit /\ [][TNext]_tvars

HW == IF l > TLCGet(1) THEN TLCSet(1, l) ELSE TRUE
ASSUME TLCSet(1, 0)
TraceAccepted ==
    IF TLCGet(1) = Len(Trace) + 1 THEN TRUE
    ELSE Print(<<"TRACE_REJECTED_AT_LINE", TLCGet(1), "OF", Len(Trace)>>, FALSE)
=============================================================================
