---------------------------- MODULE MC_RecordIO ----------------------------
(***************************************************************************)
(* Bounded exploration of RecordIO: (a) every sequence of record sizes and  *)
(* read-buffer sizes through the three reader automata, checking the stream *)
(* contract on every Read; (b) every way a writer can accept a record in    *)
(* pieces across Flush calls, checking the byte accounting.                 *)
(***************************************************************************)
EXTENDS RecordIO
CONSTANTS Sizes,     \* write sizes
          Bufs,      \* read buffer sizes
          MaxWrites, MaxReads,
          Lens,      \* plaintext lengths for the Flush part
          Dev        \* TRUE: use DevGrpcRead (shows the deviation is caught)
VARIABLES kind,      \* "grpc" | "tcp" | "kit" | "flush"
          st, wr, nw, nr, last,        \* reader part
          L, hdr, body, sumN, emitted, calls   \* flush part

vars == <<kind, st, wr, nw, nr, last, L, hdr, body, sumN, emitted, calls>>

NoRead == [n |-> 0, from |-> 0, buf |-> 0, rdPos |-> 0, avail |-> 0]

Init ==
    /\ kind \in {"grpc", "tcp", "kit", "flush"}
    /\ st = [recs |-> <<>>, cur |-> 0, hold |-> 0, pos |-> 0]
    /\ wr = 0 /\ nw = 0 /\ nr = 0 /\ last = NoRead
    /\ L \in Lens
    /\ hdr = IF kind = "flush" THEN HDR ELSE 0
    /\ body = IF kind = "flush" THEN L + MAC ELSE 0
    /\ sumN = 0 /\ emitted = 0 /\ calls = 0

Write(sz) ==
    /\ kind # "flush" /\ nw < MaxWrites
    /\ st' = [st EXCEPT !.recs = @ \o (IF kind = "tcp" THEN Chunks(sz) ELSE <<sz>>)]
    /\ wr' = wr + sz /\ nw' = nw + 1
    /\ UNCHANGED <<kind, nr, last, L, hdr, body, sumN, emitted, calls>>

Read(buf) ==
    /\ kind # "flush" /\ nr < MaxReads
    /\ st.cur > 0 \/ st.hold > 0 \/ st.recs # <<>>     \* else Read blocks
    /\ LET r == IF kind = "grpc"
                THEN (IF Dev THEN DevGrpcRead(st, buf) ELSE GrpcRead(st, buf))
                ELSE LET q == BufRead(st, buf) IN
                     [st |-> [recs |-> q.st.recs, cur |-> q.st.cur, hold |-> 0,
                              pos |-> q.st.pos], n |-> q.n, from |-> q.from] IN
       /\ st' = r.st
       /\ last' = [n |-> r.n, from |-> r.from, buf |-> buf, rdPos |-> st.pos,
                   avail |-> wr - st.pos]
    /\ nr' = nr + 1
    /\ UNCHANGED <<kind, wr, nw, L, hdr, body, sumN, emitted, calls>>

Flush(acc) ==
    /\ kind = "flush" /\ (hdr > 0 \/ body > 0) /\ calls < 4
    /\ acc \in 0..(hdr + body)
    /\ LET r == FlushStep(hdr, body, acc) IN
       /\ hdr' = r.hdr /\ body' = r.body
       /\ sumN' = sumN + r.n
       /\ emitted' = emitted + (hdr - r.hdr) + (body - r.body)
    /\ calls' = calls + 1
    /\ UNCHANGED <<kind, st, wr, nw, nr, last, L>>

Next == \/ \E sz \in Sizes : Write(sz)
        \/ \E b \in Bufs : Read(b)
        \/ \E a \in 0..(HDR + MAC + 4) : Flush(a)
Spec == Init /\ [][Next]_vars

\* C15
StreamContract ==
    kind # "flush" => ReadOK(last, last.buf, last.rdPos, last.avail)
\* C16: when the record is out, exactly its bytes were emitted once and the
\* plaintext count is exact; a new record can start only then
FlushAccounting ==
    kind = "flush" =>
        /\ emitted = (HDR - hdr) + (L + MAC - body)
        /\ sumN <= L
        /\ CanStartRecord(hdr, body) => (emitted = HDR + L + MAC /\ sumN = L)
        /\ (sumN = L /\ body <= MAC) \/ sumN < L \/ body > MAC
=============================================================================
