-------------------------------- MODULE LNC --------------------------------
(***************************************************************************)
(* The whole stack between two applications, one secured connection:       *)
(*                                                                         *)
(*   application Write(n)                 mailbox/grpc_noise_conn.go Write *)
(*     -> one Noise record: encrypted header (HDR) + encrypted body        *)
(*        (n + MAC)                       mailbox/noise.go WriteMessage,   *)
(*                                        Flush                            *)
(*     -> two writes to the connection below, each one control message     *)
(*        (MsgData) = one Go-Back-N message    mailbox/interface.go        *)
(*     -> GBN DATA packets through the relay's one-way stream; the relay   *)
(*        may drop or delay packets and break the stream; the sender's     *)
(*        retry loop re-creates the stream, GBN re-sends                   *)
(*                                        mailbox/server_conn.go,          *)
(*                                        client_conn.go, gbn/             *)
(*     -> in-order, exactly-once messages at the peer (what GBN.tla's      *)
(*        PrefixDelivery gives, C01) or the connection goes down (C13)     *)
(*     -> header, then body: ReadMessage decrypts one record               *)
(*     -> application Read(buf): at most GRPCBUF bytes of the record, the  *)
(*        rest kept for the next Read     grpc_noise_conn.go Read          *)
(* The Noise handshake acts travel the same way, one message each.         *)
(*                                                                         *)
(* Bytes are positions of the written stream; only counts are tracked.     *)
(* The two directions are independent instances of the same pipeline.      *)
(*                                                                         *)
(* This module is the composition: each layer's own state machine is       *)
(* checked against the code by its own specification (GBN, GBNChunk,       *)
(* RecordIO, CipherStream, Noise); here the layers are reduced to what     *)
(* they guarantee, and the relay and its faults are explicit.              *)
(***************************************************************************)
EXTENDS Integers, Sequences, FiniteSets, TLC

CONSTANTS
    Dirs,        \* {"c", "s"}: the writing side
    Sizes,       \* write sizes the application may use (each <= MAXREC)
    HsLens,      \* lengths of handshake acts (model: a small set)
    HDR, MAC, GRPCBUF, MAXREC,
    Window,      \* GBN window: messages in flight per direction
    RelayCap,    \* packets the relay queue holds (model bound)
    RetxDepth,   \* how many of the most recently delivered messages the sender may
                 \* still retransmit (it has not seen their ACK yet); at most Window
    MaxWrites,   \* model bound (per direction)
    MaxHs,       \* handshake acts per direction (model bound; 2 in XX, 1 in KK)
    MaxFaults,   \* relay faults (drops, breaks) before the relay behaves
    RelayMayDie, \* TRUE: the relay may stop for good
    LeakyPart    \* "none" = code; "hdr" / "body": that part is sent in clear
                 \* (mutant used to show CiphertextOnly is not vacuous)

VARIABLES
    up,       \* TRUE while the connection is up; FALSE: both ends' calls fail
    writes,   \* [Dirs -> sequence of sizes accepted by Write]
    wpc,      \* [Dirs -> "idle" | "hdr" | "body"]  progress of the Write in hand
    inflight, \* [Dirs -> messages handed to GBN, not yet delivered: [w, part, len, cls]]
    onRelay,  \* [Dirs -> packets in the relay's stream queue]
    stream,   \* [Dirs -> "ok" | "broken" | "dead"]
    got,      \* [Dirs -> messages delivered to the reader's side, in order]
    consumed, \* [Dirs -> how many of got the reader has consumed]
    hdrSeen,  \* [Dirs -> BOOLEAN] the reader holds the header of the next record
    plain,    \* [Dirs -> plaintext bytes of the opened record not yet handed out]
    rd,       \* [Dirs -> bytes handed to the reading application]
    seen,     \* classes of everything the relay ever saw
    faults

vars == <<up, writes, wpc, inflight, onRelay, stream, got, consumed, hdrSeen, plain, rd,
          seen, faults>>

Sum(s) == LET RECURSIVE S(_) S(i) == IF i = 0 THEN 0 ELSE s[i] + S(i - 1) IN S(Len(s))
Min(a, b) == IF a < b THEN a ELSE b

Init ==
    /\ up = TRUE
    /\ writes = [d \in Dirs |-> <<>>] /\ wpc = [d \in Dirs |-> "idle"]
    /\ inflight = [d \in Dirs |-> <<>>] /\ onRelay = [d \in Dirs |-> <<>>]
    /\ stream = [d \in Dirs |-> "ok"]
    /\ got = [d \in Dirs |-> <<>>] /\ consumed = [d \in Dirs |-> 0]
    /\ hdrSeen = [d \in Dirs |-> FALSE]
    /\ plain = [d \in Dirs |-> 0] /\ rd = [d \in Dirs |-> 0]
    /\ seen = {} /\ faults = 0

Cls(part) == IF LeakyPart = part THEN "plaintext" ELSE "ciphertext"

---------------------------------------------------------------------------
(* writer *)

WriteBegin(d, n) ==
    /\ up /\ n \in Sizes /\ n <= MAXREC /\ Len(writes[d]) < MaxWrites /\ wpc[d] = "idle"
    /\ writes' = [writes EXCEPT ![d] = Append(@, n)]
    /\ wpc' = [wpc EXCEPT ![d] = "hdr"]
    /\ UNCHANGED <<up, inflight, onRelay, stream, got, consumed, hdrSeen, plain, rd, seen, faults>>

\* Flush: the header, then the body, each one GBN message (Send blocks while
\* the window is full)
SendHdr(d) ==
    /\ up /\ wpc[d] = "hdr" /\ Len(inflight[d]) < Window
    /\ inflight' = [inflight EXCEPT ![d] = Append(@,
           [w |-> Len(writes[d]), part |-> "hdr", len |-> HDR, cls |-> Cls("hdr")])]
    /\ wpc' = [wpc EXCEPT ![d] = "body"]
    /\ UNCHANGED <<up, writes, onRelay, stream, got, consumed, hdrSeen, plain, rd, seen, faults>>

SendBody(d) ==
    /\ up /\ wpc[d] = "body" /\ Len(inflight[d]) < Window
    /\ inflight' = [inflight EXCEPT ![d] = Append(@,
           [w |-> Len(writes[d]), part |-> "body", len |-> writes[d][Len(writes[d])] + MAC,
            cls |-> Cls("body")])]
    /\ wpc' = [wpc EXCEPT ![d] = "idle"]
    /\ UNCHANGED <<up, writes, onRelay, stream, got, consumed, hdrSeen, plain, rd, seen, faults>>

\* a Noise handshake act (before that side's first Write): one message
HsCount(d) == Cardinality({i \in 1..Len(got[d]) : got[d][i].part = "hs"})
              + Cardinality({i \in 1..Len(inflight[d]) : inflight[d][i].part = "hs"})
HsSend(d, len) ==
    /\ up /\ wpc[d] = "idle" /\ writes[d] = <<>> /\ Len(inflight[d]) < Window
    /\ HsCount(d) < MaxHs
    /\ inflight' = [inflight EXCEPT ![d] = Append(@,
           [w |-> 0, part |-> "hs", len |-> len, cls |-> "handshake"])]
    /\ UNCHANGED <<up, writes, wpc, onRelay, stream, got, consumed, hdrSeen, plain, rd, seen, faults>>

---------------------------------------------------------------------------
(* GBN over the relay *)

\* the GBN sender puts (again) a packet of its window on the relay stream; the
\* relay sees it whatever happens to it next
Transmit(d, i) ==
    /\ up /\ i \in 1..Len(inflight[d]) /\ stream[d] = "ok" /\ Len(onRelay[d]) < RelayCap
    /\ onRelay' = [onRelay EXCEPT ![d] = Append(@, inflight[d][i])]
    /\ seen' = seen \cup {inflight[d][i].cls}
    /\ UNCHANGED <<up, writes, wpc, inflight, stream, got, consumed, hdrSeen, plain, rd, faults>>

\* ... or, not knowing yet that it arrived, a packet already delivered
Retransmit(d, j) ==
    /\ up /\ j \in 1..Len(got[d]) /\ j > Len(got[d]) - RetxDepth
    /\ stream[d] = "ok" /\ Len(onRelay[d]) < RelayCap
    /\ onRelay' = [onRelay EXCEPT ![d] = Append(@, got[d][j])]
    /\ seen' = seen \cup {got[d][j].cls}
    /\ UNCHANGED <<up, writes, wpc, inflight, stream, got, consumed, hdrSeen, plain, rd, faults>>

\* relay faults
Drop(d) ==
    /\ faults < MaxFaults /\ onRelay[d] # <<>>
    /\ onRelay' = [onRelay EXCEPT ![d] = Tail(@)]
    /\ faults' = faults + 1
    /\ UNCHANGED <<up, writes, wpc, inflight, stream, got, consumed, hdrSeen, plain, rd, seen>>

Break(d) ==
    /\ faults < MaxFaults /\ stream[d] = "ok"
    /\ stream' = [stream EXCEPT ![d] = "broken"]
    /\ faults' = faults + 1
    /\ UNCHANGED <<up, writes, wpc, inflight, onRelay, got, consumed, hdrSeen, plain, rd, seen>>

\* the endpoints' retry loops re-create the stream
Reattach(d) ==
    /\ up /\ stream[d] = "broken"
    /\ stream' = [stream EXCEPT ![d] = "ok"]
    /\ UNCHANGED <<up, writes, wpc, inflight, onRelay, got, consumed, hdrSeen, plain, rd, seen,
                   faults>>

Die ==
    /\ RelayMayDie /\ \E d \in Dirs : stream[d] # "dead"
    /\ stream' = [d \in Dirs |-> "dead"]
    /\ UNCHANGED <<up, writes, wpc, inflight, onRelay, got, consumed, hdrSeen, plain, rd, seen,
                   faults>>

\* the relay hands the packet at the head of its queue to the GBN receiver:
\* the next expected message is delivered (and acknowledged), anything else
\* (a duplicate, a packet after a gap) is discarded
Deliver(d) ==
    /\ up /\ onRelay[d] # <<>> /\ stream[d] = "ok"
    /\ LET p == Head(onRelay[d]) IN
       /\ onRelay' = [onRelay EXCEPT ![d] = Tail(@)]
       /\ IF inflight[d] # <<>> /\ p = Head(inflight[d])
          THEN /\ got' = [got EXCEPT ![d] = Append(@, p)]
               /\ inflight' = [inflight EXCEPT ![d] = Tail(@)]
          ELSE UNCHANGED <<got, inflight>>
    /\ UNCHANGED <<up, writes, wpc, stream, consumed, hdrSeen, plain, rd, seen, faults>>

---------------------------------------------------------------------------
(* reader *)

NextGot(d) == got[d][consumed[d] + 1]
HasNext(d) == consumed[d] < Len(got[d])

ReadHs(d) ==
    /\ up /\ HasNext(d) /\ NextGot(d).part = "hs"
    /\ consumed' = [consumed EXCEPT ![d] = @ + 1]
    /\ UNCHANGED <<up, writes, wpc, inflight, onRelay, stream, got, hdrSeen, plain, rd, seen, faults>>

\* ReadMessage: the header ...
ReadHdr(d) ==
    /\ up /\ ~hdrSeen[d] /\ plain[d] = 0
    /\ HasNext(d) /\ NextGot(d).part = "hdr"
    /\ hdrSeen' = [hdrSeen EXCEPT ![d] = TRUE]
    /\ consumed' = [consumed EXCEPT ![d] = @ + 1]
    /\ UNCHANGED <<up, writes, wpc, inflight, onRelay, stream, got, plain, rd, seen, faults>>

\* ... then the body: one record of plaintext
ReadBody(d) ==
    /\ up /\ hdrSeen[d]
    /\ HasNext(d) /\ NextGot(d).part = "body"
    /\ plain' = [plain EXCEPT ![d] = NextGot(d).len - MAC]
    /\ hdrSeen' = [hdrSeen EXCEPT ![d] = FALSE]
    /\ consumed' = [consumed EXCEPT ![d] = @ + 1]
    /\ UNCHANGED <<up, writes, wpc, inflight, onRelay, stream, got, rd, seen, faults>>

\* Read(buf): at most GRPCBUF bytes of the opened record
AppRead(d, buf) ==
    /\ up /\ plain[d] > 0 /\ buf > 0
    /\ LET k == Min(Min(buf, GRPCBUF), plain[d]) IN
       /\ rd' = [rd EXCEPT ![d] = @ + k]
       /\ plain' = [plain EXCEPT ![d] = @ - k]
    /\ UNCHANGED <<up, writes, wpc, inflight, onRelay, stream, got, consumed, hdrSeen, seen, faults>>

\* keepalive / FIN: the connection goes down, visibly for both ends
GoDown ==
    /\ up /\ \E d \in Dirs : stream[d] # "ok"
    /\ up' = FALSE
    /\ UNCHANGED <<writes, wpc, inflight, onRelay, stream, got, consumed, hdrSeen, plain, rd, seen,
                   faults>>

Next ==
    \/ \E d \in Dirs :
          \/ \E n \in Sizes : WriteBegin(d, n)
          \/ SendHdr(d) \/ SendBody(d)
          \/ \E len \in HsLens : HsSend(d, len)
          \/ \E i \in 1..Window : Transmit(d, i)
          \/ \E j \in 1..Len(got[d]) : Retransmit(d, j)
          \/ Drop(d) \/ Break(d) \/ Reattach(d) \/ Deliver(d)
          \/ ReadHs(d) \/ ReadHdr(d) \/ ReadBody(d)
          \/ \E buf \in {1, GRPCBUF, MAXREC} : AppRead(d, buf)
    \/ Die \/ GoDown

Spec == Init /\ [][Next]_vars

Fair ==
    /\ \A d \in Dirs : /\ SF_vars(Transmit(d, 1)) /\ SF_vars(Deliver(d))
                       /\ WF_vars(Reattach(d)) /\ WF_vars(SendHdr(d)) /\ WF_vars(SendBody(d))
                       /\ WF_vars(ReadHs(d)) /\ WF_vars(ReadHdr(d)) /\ WF_vars(ReadBody(d))
                       /\ WF_vars(AppRead(d, MAXREC))
    /\ WF_vars(GoDown)
LiveSpec == Spec /\ Fair

---------------------------------------------------------------------------
(* C05 *)

Written(d) == Sum(writes[d])

\* plaintext bytes of the messages in s
Bytes(s) == LET RECURSIVE B(_) B(i) == IF i = 0 THEN 0
                ELSE (IF s[i].part = "body" THEN s[i].len - MAC ELSE 0) + B(i - 1) IN B(Len(s))

\* bytes of accepted writes whose body has not been handed to GBN yet
Unsent(d) == IF wpc[d] = "idle" THEN 0 ELSE writes[d][Len(writes[d])]

\* what was read is a prefix of what was written: nothing is lost, duplicated
\* or reordered inside the pipeline while the connection is up
StreamIntegrity == \A d \in Dirs :
    /\ rd[d] <= Written(d)
    /\ up => rd[d] + plain[d] + Bytes(SubSeq(got[d], consumed[d] + 1, Len(got[d])))
                + Bytes(inflight[d]) + Unsent(d) = Written(d)

\* messages reach the reader in the order they were handed to GBN, each once
InOrderOnce == \A d \in Dirs : \A i, j \in 1..Len(got[d]) :
    i < j => (got[d][i].w < got[d][j].w
              \/ (got[d][i].w = got[d][j].w /\ got[d][i].part = "hdr" /\ got[d][j].part = "body")
              \/ got[d][i].part = "hs")

\* every message the relay ever sees is ciphertext (or a handshake act)
CiphertextOnly == seen \subseteq {"ciphertext", "handshake"}

\* when the relay's faults cease the transfer completes or the connection fails
CompletesOrFails ==
    <>[](~up \/ \A d \in Dirs : rd[d] = Written(d) /\ inflight[d] = <<>> /\ wpc[d] = "idle")
=============================================================================
