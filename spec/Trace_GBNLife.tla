--------------------------- MODULE Trace_GBNLife ---------------------------
(***************************************************************************)
(* Trace validation of the life cycle of real GoBackNConn pairs against    *)
(* GBNLife.tla (property C12).  The trace files are the same NDJSON traces *)
(* the other GBN checks use; only the life-cycle lines are interpreted:    *)
(*                                                                         *)
(*   closeQuit (hook)      CloseBegin                                      *)
(*   tx k=FIN (transport)  FinSend with the FIN delivered (c>=1) or lost   *)
(*   fin (hook)            RFin                                            *)
(*   sExit / rExit (hook)  SExit / RExit                                   *)
(*   closeDone (hook)      Cancel, Joined, StopTimers (the loops must have *)
(*                         exited before)                                  *)
(*   closeCall / closeRet  the application's Close calls, with duration    *)
(*   blockedAtClose        which Send/Recv calls are blocked               *)
(*   sendRet / recvRet     results of application calls                    *)
(*   postSend / postRecv   calls issued after Close returned               *)
(*   peerCheck             the peer of the closing side, some seconds later *)
(*   inventory             goroutines of package gbn still alive at the    *)
(*                         end, application calls still blocked            *)
(***************************************************************************)
EXTENDS GBNLife, Json, Sequences

CONSTANTS TraceFile,
          MaxCloseMs    \* bound on the duration of a Close call

Trace == ndJsonDeserialize(TraceFile)

VARIABLES l,
          finSent,   \* [EP -> BOOLEAN] this endpoint transmitted a FIN
          netCond,   \* transport condition announced by the harness
          openCalls  \* [EP -> Nat] closeCall lines without their closeRet

tvars == <<vars, l, finSent, netCond, openCalls>>

Ev == Trace[l]
Is(name) == l <= Len(Trace) /\ Trace[l].ev = name
Adv == l' = l + 1
E == Ev.ep
KeepX == UNCHANGED <<finSent, netCond, openCalls>>

Fresh ==
    /\ cpc' = [e \in EP |-> "none"]
    /\ quit' = [e \in EP |-> FALSE]
    /\ ctxDone' = [e \in EP |-> FALSE]
    /\ remoteClosed' = [e \in EP |-> FALSE]
    /\ sAlive' = [e \in EP |-> TRUE]
    /\ rAlive' = [e \in EP |-> TRUE]
    /\ pingT' = [e \in EP |-> TRUE]
    /\ pongT' = [e \in EP |-> TRUE]
    /\ rsT' = [e \in EP |-> TRUE]
    /\ finCh' = [e \in EP |-> 0]
    /\ sendB' = [e \in EP |-> FALSE]
    /\ recvB' = [e \in EP |-> FALSE]
    /\ failed' = [e \in EP |-> 0]
    /\ finSent' = [e \in EP |-> FALSE]
    /\ netCond' = "ok"
    /\ openCalls' = [e \in EP |-> 0]

TraceInit ==
    /\ Init /\ sendB = [e \in EP |-> FALSE] /\ recvB = [e \in EP |-> FALSE]
    /\ l = 1
    /\ finSent = [e \in EP |-> FALSE]
    /\ netCond = "ok"
    /\ openCalls = [e \in EP |-> 0]

TReset == Is("reset") /\ Adv /\ Fresh

TNet == /\ Is("netAtClose") /\ Adv /\ UNCHANGED <<vars, finSent, openCalls>>
        /\ netCond' = Ev.net

TBlocked ==
    /\ Is("blockedAtClose") /\ Adv /\ KeepX
    /\ sendB' = [sendB EXCEPT ![E] = (Ev.send = 1)]
    /\ recvB' = [recvB EXCEPT ![E] = (Ev.recv = 1)]
    /\ UNCHANGED <<cpc, quit, ctxDone, remoteClosed, sAlive, rAlive, pingT,
                   pongT, rsT, finCh, failed>>

TCloseCall == /\ Is("closeCall") /\ Adv /\ UNCHANGED <<vars, finSent, netCond>>
              /\ openCalls' = [openCalls EXCEPT ![E] = @ + 1]

\* close(g.quit): exactly once per connection
TCloseQuit == Is("closeQuit") /\ Adv /\ KeepX /\ CloseBegin(E)

\* the FIN goes out: only from inside Close, once, and never after the peer's
\* own FIN was read
TFinTx ==
    /\ Is("tx") /\ Ev.k = "FIN" /\ Adv
    /\ cpc[E] = "quitClosed" /\ ~remoteClosed[E] /\ ~finSent[E]
    /\ finSent' = [finSent EXCEPT ![E] = TRUE]
    /\ finCh' = IF Ev.c >= 1 THEN [finCh EXCEPT ![Peer(E)] = 1] ELSE finCh
    /\ cpc' = [cpc EXCEPT ![E] = "finTried"]
    /\ UNCHANGED <<quit, ctxDone, remoteClosed, sAlive, rAlive, pingT, pongT,
                   rsT, sendB, recvB, failed, netCond, openCalls>>

TFinRx == Is("fin") /\ Adv /\ KeepX /\ RFin(E)

TSExit == Is("sExit") /\ Adv /\ KeepX /\ SExit(E, "err")

\* after RFin the loop's exit hook fires as well
TRExit == /\ Is("rExit") /\ Adv /\ KeepX
          /\ IF rAlive[E] THEN RExit(E, "err") ELSE UNCHANGED vars

\* the Close body finished: FIN step (if it left no trace), cancel, join and
\* timer stop have happened; both loops must have reported their exit
TCloseDone ==
    /\ Is("closeDone") /\ Adv /\ KeepX
    /\ cpc[E] \in {"quitClosed", "finTried"}
    /\ ~sAlive[E] /\ ~rAlive[E]
    \* PeerLearns, the sender's half: with a transport that takes packets,
    \* a Close - the application's or the connection's own, after a keepalive
    \* timeout - of an endpoint that has not read the peer's FIN has put a
    \* FIN on the wire
    /\ (netCond \in {"ok", "blackhole"} /\ ~remoteClosed[E]) => finSent[E]
    /\ cpc' = [cpc EXCEPT ![E] = "done"]
    /\ ctxDone' = [ctxDone EXCEPT ![E] = TRUE]
    /\ pingT' = [pingT EXCEPT ![E] = FALSE]
    /\ rsT' = [rsT EXCEPT ![E] = FALSE]
    /\ pongT' = [pongT EXCEPT ![E] = FALSE]
    /\ UNCHANGED <<quit, remoteClosed, sAlive, rAlive, finCh, sendB, recvB,
                   failed>>

\* a Close call returns only once the connection is fully closed, and within
\* the bound (FIN send timeout plus slack)
TCloseRet ==
    /\ Is("closeRet") /\ Adv /\ UNCHANGED <<vars, finSent, netCond>>
    /\ Closed(E)
    /\ Ev.w <= MaxCloseMs
    /\ Ev.err = ""
    /\ openCalls' = [openCalls EXCEPT ![E] = @ - 1]

\* an application call fails only if the connection is closing, and a blocked
\* one that fails is thereby woken
TSendRet ==
    /\ Is("sendRet") /\ Adv /\ KeepX
    /\ IF Ev.err = "" THEN UNCHANGED vars
       ELSE /\ quit[E]
            /\ IF sendB[E] THEN WakeSend(E) ELSE UNCHANGED vars
TRecvRet ==
    /\ Is("recvRet") /\ Adv /\ KeepX
    /\ IF Ev.err = "" THEN UNCHANGED vars
       ELSE /\ quit[E]
            /\ IF recvB[E] THEN WakeRecv(E) ELSE UNCHANGED vars

\* calls started after Close returned fail at once
TPost == /\ Is("postSend") \/ Is("postRecv")
         /\ Adv /\ KeepX /\ UNCHANGED vars
         /\ Closed(E) /\ Ev.err # "" /\ Ev.w <= 2

\* PeerLearns: some seconds after the other side closed with a working
\* transport, the peer (E) has read the FIN, is closed and has no blocked call
TPeerCheck ==
    /\ Is("peerCheck") /\ Adv /\ KeepX /\ UNCHANGED vars
    /\ (finCh[E] = 1 \/ remoteClosed[E]) =>
          /\ Closed(E)
          /\ ~sendB[E] /\ ~recvB[E]

\* the harness states that an endpoint closed the connection by itself (no
\* Close call): it is closed indeed
TSelfClosed == /\ Is("selfClosed") /\ Adv /\ KeepX /\ UNCHANGED vars
               /\ Closed(E)

\* NoLeak and BlockedCallersWake at the end of the run
TInventory ==
    /\ Is("inventory") /\ Adv /\ KeepX /\ UNCHANGED vars
    /\ (\A e \in EP : Closed(e)) =>
          /\ Ev.leaked = 0
          /\ Ev.blocked = 0 /\ Ev.stuck = 0
          /\ \A e \in EP : ~sendB[e] /\ ~recvB[e]

\* a connection attempt abandoned during its handshake: the constructor
\* returned soon after the cancellation (the client with an error; the server
\* constructor may hand back a connection whose context is done, which the
\* harness closes) and left nothing behind
TAbortInventory ==
    /\ Is("abortInventory") /\ Adv /\ KeepX /\ UNCHANGED vars
    /\ Ev.stuck = 0 /\ Ev.retMs <= 2000
    /\ Ev.leaked = 0

Handled == {"reset", "abortInventory", "netAtClose", "blockedAtClose", "closeCall", "closeQuit",
            "fin", "sExit", "rExit", "closeDone", "closeRet", "sendRet",
            "recvRet", "postSend", "postRecv", "peerCheck", "inventory", "selfClosed",
            "closeStuck"}   \* closeStuck: no action explains a Close call
                            \* that does not return

TSkip == /\ l <= Len(Trace)
         /\ Ev.ev \notin Handled
         /\ ~(Ev.ev = "tx" /\ Ev.k = "FIN")
         /\ Adv /\ KeepX /\ UNCHANGED vars

TraceNext ==
    \/ TReset \/ TNet \/ TBlocked \/ TCloseCall \/ TCloseQuit \/ TFinTx
    \/ TFinRx \/ TSExit \/ TRExit \/ TCloseDone \/ TCloseRet \/ TSendRet
    \/ TRecvRet \/ TPost \/ TPeerCheck \/ TSelfClosed \/ TInventory \/ TAbortInventory \/ TSkip

TraceSpec == TraceInit /\ [][TraceNext]_tvars

TraceAccepted ==
    LET d == TLCGet("stats").diameter IN
    IF d - 1 = Len(Trace) THEN TRUE
    ELSE Print(<<"TRACE_REJECTED_AT_LINE", d, "OF", Len(Trace)>>, FALSE)
=============================================================================
