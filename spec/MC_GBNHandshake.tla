-------------------------- MODULE MC_GBNHandshake --------------------------
EXTENDS GBNHandshake
CONSTANTS StaleCi, StaleSi    \* which stale prefixes to explore (indices)
Stale(i) ==
    CASE i = 0 -> <<>>
      [] i = 1 -> <<[k |-> "SYN", n |-> 7]>>
      [] i = 2 -> <<[k |-> "SYNACK"]>>
      [] i = 3 -> <<[k |-> "DATA"]>>
      [] i = 4 -> <<[k |-> "ACK"]>>
      [] i = 5 -> <<[k |-> "FIN"]>>
      [] i = 6 -> <<[k |-> "SYN", n |-> 7], [k |-> "DATA"]>>
      [] i = 7 -> <<[k |-> "SYN", n |-> 255]>>
      [] i = 8 -> <<[k |-> "NACK"], [k |-> "SYNACK"]>>
MCStaleC == Stale(StaleCi)
MCStaleS == Stale(StaleSi)
=============================================================================
