--------------------------- MODULE Trace_Progress ---------------------------
(***************************************************************************)
(* C06: a timed observer over traces of real connections whose transport    *)
(* misbehaves (drop / duplicate / delay) for a finite prefix and is then    *)
(* reliable with latency below the resend timeout.  Times are virtual ms.   *)
(*   reset                                                                  *)
(*   pgCfg {keepalive: 0|1}                                                 *)
(*   faultEnd {t, baseMs}     from now on the transport is reliable; baseMs *)
(*                            is the resend timeout then in force           *)
(*   sendRet {ep, m, err, t}  Send returned (err "" = accepted)             *)
(*   recvRet {ep, m, err, t}  Recv returned                                 *)
(*   closeQuit {ep, t}        an endpoint starts closing                    *)
(*   harnessClose {t}         from here on closing is the harness's doing   *)
(*   tx {ep, k, m, t}         a packet was put on the wire; DATA packets    *)
(*                            that are not pings count for quiescence       *)
(*   pgEnd {t, sizeC, sizeS}  end of observation                            *)
(* BoundedDelivery: a message accepted at T (faults over at T0) is returned *)
(*   by the peer's Recv by max(T, T0) + bound, unless a side closed.        *)
(* NoClosure: with keepalive off nobody closes by itself; with keepalive on *)
(*   a closure must make both ends' calls fail (checked by C12/C13).        *)
(* Quiescence: once everything is delivered and acknowledged, no DATA       *)
(*   packet is transmitted any more (within the quiet window observed).     *)
(***************************************************************************)
EXTENDS Integers, Sequences, Json, TLC

CONSTANT TraceFile
Trace == ndJsonDeserialize(TraceFile)
EP == {"c", "s"}
Peer(e) == IF e = "c" THEN "s" ELSE "c"

VARIABLES l, ka, bound, quiet, settle, t0, acc, got, closedAt, harness, lastTxd
tvars == <<l, ka, bound, quiet, settle, t0, acc, got, closedAt, harness, lastTxd>>
Ev == Trace[l]
Is(o) == l <= Len(Trace) /\ Trace[l].ev = o
Adv == l' = l + 1
E == Ev.ep

Fresh == /\ ka' = 0 /\ bound' = 0 /\ quiet' = 0 /\ settle' = 0 /\ t0' = -1
         /\ acc' = [e \in EP |-> <<>>]      \* accept times of e's messages
         /\ got' = [e \in EP |-> 0]         \* messages e's Recv has returned
         /\ closedAt' = -1 /\ harness' = FALSE /\ lastTxd' = -1

TraceInit == /\ l = 1 /\ ka = 0 /\ bound = 0 /\ quiet = 0 /\ settle = 0 /\ t0 = -1
             /\ acc = [e \in EP |-> <<>>] /\ got = [e \in EP |-> 0]
             /\ closedAt = -1 /\ harness = FALSE /\ lastTxd = -1

Keep(vs) == UNCHANGED vs

TReset == Is("reset") /\ Adv /\ Fresh
TCfg == /\ Is("pgCfg") /\ Adv /\ ka' = Ev.keepalive
        /\ UNCHANGED <<bound, quiet, settle, t0, acc, got, closedAt, harness, lastTxd>>
\* the link is reliable from here on; baseMs is the resend timeout in force
\* (the larger of the two endpoints'), the time bounds scale with it
TFaultEnd == /\ Is("faultEnd") /\ Adv /\ t0' = Ev.t
             /\ bound' = 25 * Ev.baseMs + 15000
             /\ quiet' = 12 * Ev.baseMs
             /\ settle' = 22 * Ev.baseMs
             /\ UNCHANGED <<ka, acc, got, closedAt, harness, lastTxd>>

TSendRet == /\ Is("sendRet") /\ Adv
            /\ acc' = IF Ev.err = "" THEN [acc EXCEPT ![E] = Append(@, Ev.t)] ELSE acc
            \* a Send fails only on a closed connection
            /\ Ev.err # "" => closedAt >= 0
            /\ UNCHANGED <<ka, bound, quiet, settle, t0, got, closedAt, harness, lastTxd>>

Max(a, b) == IF a > b THEN a ELSE b

\* the k-th message of the peer arrives within the bound
TRecvRet ==
    /\ Is("recvRet") /\ Adv
    /\ IF Ev.err = ""
       THEN /\ got' = [got EXCEPT ![E] = @ + 1]
            /\ got[E] + 1 <= Len(acc[Peer(E)])
            /\ t0 >= 0 => Ev.t <= Max(acc[Peer(E)][got[E] + 1], t0) + bound
       ELSE /\ closedAt >= 0 /\ UNCHANGED got
    /\ UNCHANGED <<ka, bound, quiet, settle, t0, acc, closedAt, harness, lastTxd>>

\* an endpoint closes by itself: never with keepalive off
TCloseQuit ==
    /\ Is("closeQuit") /\ Adv
    /\ (ka = 0 => harness)
    /\ closedAt' = IF closedAt = -1 THEN Ev.t ELSE closedAt
    /\ UNCHANGED <<ka, bound, quiet, settle, t0, acc, got, harness, lastTxd>>

THarness == /\ Is("harnessClose") /\ Adv /\ harness' = TRUE
            /\ UNCHANGED <<ka, bound, quiet, settle, t0, acc, got, closedAt, lastTxd>>

TTxd == /\ Is("tx") /\ Adv
        /\ lastTxd' = IF Ev.k = "DATA" /\ Ev.m # 0 THEN Ev.t ELSE lastTxd
        /\ UNCHANGED <<ka, bound, quiet, settle, t0, acc, got, closedAt, harness>>

LastAcc(e) == IF acc[e] = <<>> THEN 0 ELSE acc[e][Len(acc[e])]
AppIdle(now) == \A e \in EP : Max(LastAcc(e), t0) + settle <= now

\* end of observation: everything accepted long enough ago has arrived (or a
\* side closed), and the wire has been free of DATA for the quiet window
TEnd ==
    /\ Is("pgEnd") /\ Adv /\ t0 >= 0
    /\ UNCHANGED <<ka, bound, quiet, settle, t0, acc, got, closedAt, harness, lastTxd>>
    /\ closedAt = -1 =>
          /\ \A e \in EP : \A k \in 1..Len(acc[e]) :
                (Max(acc[e][k], t0) + bound <= Ev.t) => got[Peer(e)] >= k
          \* quiescence is only due once the application has been idle (its last
          \* Send accepted, the faults over) for the settle period
          /\ (AppIdle(Ev.t) /\ \A e \in EP : got[Peer(e)] = Len(acc[e])) =>
                lastTxd <= Ev.t - quiet
          \* the windows drain once everything is delivered (with keepalive
          \* on, one ping may be outstanding at any moment)
          /\ (AppIdle(Ev.t) /\ \A e \in EP : got[Peer(e)] = Len(acc[e])) =>
                (Ev.sizeC <= ka /\ Ev.sizeS <= ka)

Handled == {"reset", "pgCfg", "faultEnd", "sendRet", "recvRet", "closeQuit",
            "harnessClose", "tx", "pgEnd"}
TSkip == /\ l <= Len(Trace) /\ Ev.ev \notin Handled /\ Adv
         /\ UNCHANGED <<ka, bound, quiet, settle, t0, acc, got, closedAt, harness, lastTxd>>

TraceNext == TReset \/ TCfg \/ TFaultEnd \/ TSendRet \/ TRecvRet \/ TCloseQuit
             \/ THarness \/ TTxd \/ TEnd \/ TSkip
TraceSpec == TraceInit /\ [][TraceNext]_tvars
TraceAccepted ==
    LET d == TLCGet("stats").diameter IN
    IF d - 1 = Len(Trace) THEN TRUE
    ELSE Print(<<"TRACE_REJECTED_AT_LINE", d, "OF", Len(Trace)>>, FALSE)
=============================================================================
