--------------------------- MODULE Trace_Pairing ---------------------------
(***************************************************************************)
(* Function-trace validation of the real pairing codec and session-id      *)
(* derivation against Pairing.tla.  Lines:                                 *)
(*  {"op":"toWords","bytes":[14],"words":[10]}                             *)
(*  {"op":"fromWords","words":[10],"bytes":[14]}                           *)
(*  {"op":"new","bytes":[14],"words":[10]}   NewPassphraseEntropy          *)
(*  {"op":"sid","cli":[h,bit],"srv":[h,bit],"same":0|1}  both sides' SID    *)
(*      for the same (same=1) or different (same=0) secret; h = interned   *)
(*      id of the first 511 bits                                           *)
(*  {"op":"streams","sid":[h,b],"cliSend":..,"cliRecv":..,"srvSend":..,     *)
(*      "srvRecv":..}                                                      *)
(***************************************************************************)
EXTENDS Pairing, Json, TLC
CONSTANT TraceFile
Trace == ndJsonDeserialize(TraceFile)
W == 11
NW == 10
NB == 14

LineOK(ln) ==
    IF ln.op = "toWords" THEN ToWords(ln.bytes, W, NW) = ln.words
    ELSE IF ln.op = "fromWords" THEN FromWords(ln.words, W, NB) = ln.bytes
    ELSE IF ln.op = "new" THEN
        /\ ToWords(ln.bytes, W, NW) = ln.words
        /\ FromWords(ln.words, W, NB) = ln.bytes
    ELSE IF ln.op = "sid" THEN
        (ln.same = 1) <=> (ln.cli = ln.srv)
    ELSE IF ln.op = "streams" THEN
        /\ ln.cliSend = ClientSend(ln.sid) /\ ln.cliRecv = ClientRecv(ln.sid)
        /\ ln.srvSend = ServerSend(ln.sid) /\ ln.srvRecv = ServerRecv(ln.sid)
        /\ ln.cliSend = ln.srvRecv /\ ln.cliRecv = ln.srvSend
        /\ ln.cliSend # ln.cliRecv
    ELSE FALSE

VARIABLE i
Init == i = 1
Next == i <= Len(Trace) /\ i' = i + 1
AllOK == i <= Len(Trace) =>
            \/ LineOK(Trace[i])
            \/ Print(<<"PAIRING_MISMATCH_AT_LINE", i>>, FALSE)
=============================================================================
