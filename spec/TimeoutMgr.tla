----------------------------- MODULE TimeoutMgr -----------------------------
(***************************************************************************)
(* gbn/timeout_manager.go: TimeoutManager and TimeoutBooster, in integer    *)
(* milliseconds, driven by the events the connection feeds it:              *)
(*   Sent(kind, seq, resent), Received(kind, seq), and the passage of time. *)
(* The getters are operators over the state.                                *)
(***************************************************************************)
EXTENDS Integers, FiniteSets, TLC

CONSTANTS
    Static,      \* TRUE: WithStaticResendTimeout(Initial)
    Initial,     \* initial resend timeout (ms): 1000 unless static
    HsInitial,   \* handshake timeout (ms)
    Mult,        \* resend multiplier
    Freq,        \* timeout update frequency
    Pct,         \* boost percent (e.g. 50)
    Seqs         \* sequence numbers that occur

Floor == 1000
Never == -1      \* "zero time": before any instant
None == -1

VARIABLES
    now,        \* ms
    orig,       \* resendBooster.originalTimeout
    cnt,        \* resendBooster.boostCount
    lastBoost,  \* resendBooster.lastBoost (Never = zero time)
    hsCnt,      \* handshakeBooster.boostCount
    sentAt,     \* [Seqs -> time or None]  sentTimes
    synAt,      \* latestSentSYNTime or None
    hasDyn,     \* hasSetDynamicTimeout
    resp,       \* responseCounter
    \* history variables for the properties
    firstTx,    \* [Seqs -> time of the last first transmission, or None]
    firstTxN,   \* [Seqs -> event number of that transmission]
    lastRsN,    \* [Seqs -> event number of the last retransmission, or None]
    evn,        \* number of Sent/Received events so far
    updates,    \* number of dynamic updates so far
    lastEv      \* record describing the last step

vars == <<now, orig, cnt, lastBoost, hsCnt, sentAt, synAt, hasDyn, resp,
          firstTx, firstTxN, lastRsN, evn, updates, lastEv>>

ResendTimeout == orig + (orig * Pct * cnt) \div 100
HandshakeTimeout == HsInitial + (HsInitial * Pct * hsCnt) \div 100

Init ==
    /\ now = 0
    /\ orig = Initial /\ cnt = 0 /\ lastBoost = Never
    /\ hsCnt = 0
    /\ sentAt = [q \in Seqs |-> None]
    /\ synAt = None
    /\ hasDyn = FALSE /\ resp = 0
    /\ firstTx = [q \in Seqs |-> None] /\ firstTxN = [q \in Seqs |-> None]
    /\ lastRsN = [q \in Seqs |-> None] /\ evn = 0
    /\ updates = 0
    /\ lastEv = [op |-> "init"]

Advance(d) ==
    /\ d > 0
    /\ now' = now + d
    /\ lastEv' = [op |-> "adv", d |-> d]
    /\ UNCHANGED <<orig, cnt, lastBoost, hsCnt, sentAt, synAt, hasDyn, resp,
                   firstTx, firstTxN, lastRsN, evn, updates>>

\* updateResendTimeoutUnsafe(rt)
Update(rt) ==
    LET m == IF Mult * rt < Floor THEN Floor ELSE Mult * rt IN
    /\ hasDyn' = TRUE
    /\ orig' = m /\ cnt' = 0 /\ lastBoost' = now
    /\ updates' = updates + 1

\* TimeoutBooster.Boost with the frequency limit
BoostResend ==
    IF lastBoost # Never /\ now - lastBoost < orig
    THEN UNCHANGED <<cnt, lastBoost>>
    ELSE cnt' = cnt + 1 /\ lastBoost' = now

SentSyn(resent) ==
    /\ lastEv' = [op |-> "sent", k |-> "SYN", seq |-> 0, resent |-> resent]
    /\ IF Static THEN UNCHANGED <<synAt, hsCnt>>
       ELSE IF ~resent THEN synAt' = now /\ UNCHANGED hsCnt
       ELSE synAt' = None /\ hsCnt' = hsCnt + 1
    /\ evn' = evn + 1
    /\ UNCHANGED <<now, orig, cnt, lastBoost, sentAt, hasDyn, resp, firstTx,
                   firstTxN, lastRsN, updates>>

SentData(q, resent) ==
    /\ lastEv' = [op |-> "sent", k |-> "DATA", seq |-> q, resent |-> resent]
    /\ evn' = evn + 1
    /\ firstTx' = IF resent THEN firstTx ELSE [firstTx EXCEPT ![q] = now]
    /\ firstTxN' = IF resent THEN firstTxN ELSE [firstTxN EXCEPT ![q] = evn + 1]
    /\ lastRsN' = IF resent THEN [lastRsN EXCEPT ![q] = evn + 1] ELSE lastRsN
    /\ IF Static THEN UNCHANGED <<sentAt, cnt, lastBoost>>
       ELSE IF resent
       THEN sentAt' = [sentAt EXCEPT ![q] = None] /\ BoostResend
       ELSE sentAt' = [sentAt EXCEPT ![q] = now] /\ UNCHANGED <<cnt, lastBoost>>
    /\ UNCHANGED <<now, orig, hsCnt, synAt, hasDyn, resp, updates>>

\* any other packet type sent (ACK, NACK, FIN, SYNACK): no effect
SentOther(k) ==
    /\ lastEv' = [op |-> "sent", k |-> k, seq |-> 0, resent |-> FALSE]
    /\ evn' = evn + 1
    /\ UNCHANGED <<now, orig, cnt, lastBoost, hsCnt, sentAt, synAt, hasDyn,
                   resp, firstTx, firstTxN, lastRsN, updates>>

RecvSyn(k) ==   \* SYN or SYNACK
    /\ lastEv' = [op |-> "recv", k |-> k, seq |-> 0]
    /\ IF Static \/ synAt = None
       THEN UNCHANGED <<synAt, hasDyn, orig, cnt, lastBoost, updates>>
       ELSE synAt' = None /\ Update(now - synAt)
    /\ evn' = evn + 1
    /\ UNCHANGED <<now, hsCnt, sentAt, resp, firstTx, firstTxN, lastRsN>>

RecvAck(q) ==
    /\ lastEv' = [op |-> "recv", k |-> "ACK", seq |-> q]
    /\ IF Static \/ sentAt[q] = None
       THEN UNCHANGED <<sentAt, resp, hasDyn, orig, cnt, lastBoost, updates>>
       ELSE /\ sentAt' = [sentAt EXCEPT ![q] = None]
            /\ IF ~hasDyn \/ (resp + 1) % Freq = 0
               THEN resp' = 0 /\ Update(now - sentAt[q])
               ELSE resp' = resp + 1
                    /\ UNCHANGED <<hasDyn, orig, cnt, lastBoost, updates>>
    /\ evn' = evn + 1
    /\ UNCHANGED <<now, hsCnt, synAt, firstTx, firstTxN, lastRsN>>

RecvOther(k) ==
    /\ lastEv' = [op |-> "recv", k |-> k, seq |-> 0]
    /\ evn' = evn + 1
    /\ UNCHANGED <<now, orig, cnt, lastBoost, hsCnt, sentAt, synAt, hasDyn,
                   resp, firstTx, firstTxN, lastRsN, updates>>

---------------------------------------------------------------------------
(* Properties (C20) *)

\* adaptive mode: never below the one-second floor
FloorOK == ~Static => ResendTimeout >= Floor /\ orig >= Floor

\* a static timeout is never changed by traffic
StaticOK == Static => orig = Initial /\ cnt = 0 /\ ResendTimeout = Initial
                      /\ HandshakeTimeout = HsInitial

\* a dynamic update through an ACK uses a sample of a packet that has not
\* been retransmitted since it was first sent, and the RTT is measured from
\* that first transmission
SampleClean ==
    [][(updates' = updates + 1 /\ lastEv'.op = "recv" /\ lastEv'.k = "ACK") =>
          LET q == lastEv'.seq IN
          /\ firstTx[q] # None
          /\ (lastRsN[q] = None \/ lastRsN[q] < firstTxN[q])
          /\ orig' = (IF Mult * (now - firstTx[q]) < Floor THEN Floor
                      ELSE Mult * (now - firstTx[q]))]_vars

\* the timeout grows only through retransmission boosts, one step at a time,
\* at most one per base-timeout interval
BoostRate ==
    [][/\ cnt' > cnt =>
            /\ cnt' = cnt + 1
            /\ lastEv'.op = "sent" /\ lastEv'.k = "DATA" /\ lastEv'.resent
            /\ (lastBoost = Never \/ now - lastBoost >= orig)
       /\ (ResendTimeout' > ResendTimeout) =>
            (cnt' > cnt \/ updates' > updates)]_vars

\* a fresh sample removes the boost and sets max(floor, mult * rtt)
FreshSampleResets ==
    [][updates' > updates => cnt' = 0 /\ ResendTimeout' = orig' /\ orig' >= Floor]_vars
=============================================================================
