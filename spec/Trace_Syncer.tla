---------------------------- MODULE Trace_Syncer ----------------------------
(***************************************************************************)
(* Timed observer: the resend-sync waits of real GoBackNConn endpoints      *)
(* (runs with a static resend timeout, under virtual time) against the     *)
(* theorems of Syncer.tla:                                                  *)
(*   BoundedWait         a wait lasts at most three resend timeouts;        *)
(*   EarlyOnlyWithCause  it ends earlier only at an instant at which the    *)
(*                       expected NACK (= top) was processed, or one resend *)
(*                       timeout after an expected ACK (= top-1) was, or    *)
(*                       when the connection quits.                         *)
(* Lines (hooks in gbn/queue.go, gbn/gbn_conn.go; t in virtual ms):        *)
(*   reset{n}  resend{ep,base,top,t}  syncWait{ep,t,rt}  syncDone{ep,t}     *)
(*   ack{ep,seq,t,rt}  nack{ep,seq,t}  closeQuit{ep,t}                      *)
(* The ack / nack lines are emitted after syncer.processACK / processNACK   *)
(* returned, the syncWait line just before waitForSync reads the timeout.   *)
(* TOL absorbs the millisecond rounding of the logged instants.             *)
(***************************************************************************)
EXTENDS Integers, Sequences, FiniteSets, Json, TLC
CONSTANTS TraceFile, TOL
Trace == ndJsonDeserialize(TraceFile)

VARIABLES l, sN, o
\* o[ep]: [res: a resend round is on, expA, expN, wait: BOOLEAN, tw, rtw,
\*         nackT: set of instants, fireT: set of instants, quitT,
\*         recent: the ACKs logged within the last TOL ms (<<seq, fire instant, t>>):
\*         an ACK processed between initResendUpTo and the "resend" hook line
\*         is logged before that line but already meets the new expectation]
EP == {"c", "s"}
Fresh == [res |-> FALSE, expA |-> 0, expN |-> 0, wait |-> FALSE, tw |-> 0, rtw |-> 0,
          nackT |-> {}, fireT |-> {}, quitT |-> -1000000, recent |-> {}, lastDone |-> -1000000]
Ev == Trace[l]
Is(e) == l <= Len(Trace) /\ Trace[l].ev = e
Adv == l' = l + 1
Near(a, b) == a - b <= TOL /\ b - a <= TOL

Init == l = 1 /\ sN = 1 /\ o = [e \in EP |-> Fresh]

TReset == /\ Is("reset") /\ Adv /\ sN' = Ev.n /\ o' = [e \in EP |-> Fresh]
TSetN == /\ Is("setN") /\ Adv /\ sN' = Ev.n /\ UNCHANGED o

\* syncer.initResendUpTo computes (s + top - 1) % s in 8-bit arithmetic: for
\* sequence spaces above 128 the sum wraps and the "expected ACK" is top - 2
\* (e.g. s = 255, top = 3: 1).  The wait then ends one resend timeout after
\* the ACK of the last packet but one - earlier than intended, of no
\* consequence for delivery or progress.  The observer follows the code.
ExpAck(top, s) == ((s + top - 1) % 256) % s

TResend == /\ Is("resend") /\ Adv /\ UNCHANGED sN
           /\ LET s == sN + 1 IN
              o' = [o EXCEPT ![Ev.ep].res = TRUE,
                             ![Ev.ep].expA = ExpAck(Ev.top, s),
                             ![Ev.ep].expN = Ev.top,
                             ![Ev.ep].nackT = {},
                             ![Ev.ep].fireT = @ \cup
                                 {a[2] : a \in {b \in o[Ev.ep].recent :
                                     b[1] = ExpAck(Ev.top, s) /\ Near(b[3], Ev.t)}}]
TAck == /\ Is("ack") /\ Adv /\ UNCHANGED sN
        /\ LET rec == {b \in o[Ev.ep].recent : Near(b[3], Ev.t)}
                          \cup {<<Ev.seq, Ev.t + Ev.rt, Ev.t>>} IN
           o' = IF o[Ev.ep].res /\ Ev.seq = o[Ev.ep].expA
                THEN [o EXCEPT ![Ev.ep].fireT = @ \cup {Ev.t + Ev.rt}, ![Ev.ep].recent = rec]
                ELSE [o EXCEPT ![Ev.ep].recent = rec]
TNack == /\ Is("nack") /\ Adv /\ UNCHANGED sN
         /\ o' = IF o[Ev.ep].res /\ Ev.seq = o[Ev.ep].expN
                 THEN [o EXCEPT ![Ev.ep].nackT = @ \cup {Ev.t}, ![Ev.ep].res = FALSE]
                 ELSE o
TQuit == /\ Is("closeQuit") /\ Adv /\ UNCHANGED sN
         /\ o' = [o EXCEPT ![Ev.ep].quitT = Ev.t]
TWait == /\ Is("syncWait") /\ Adv /\ UNCHANGED sN
         /\ o' = [o EXCEPT ![Ev.ep].wait = TRUE, ![Ev.ep].tw = Ev.t, ![Ev.ep].rtw = Ev.rt]

\* (the third disjunct: a goroutine woken when the previous wait ended passes
\* the signal on - a wait that begins at that very instant ends at once)
Cause(x, t) == \/ \E c \in x.nackT \cup x.fireT : Near(c, t) /\ c >= x.tw - TOL
               \/ Near(x.quitT, t)
               \/ Near(x.lastDone, t) /\ Near(x.tw, t)
\* queue.processNACK tells the syncer first (syncer.processNACK, which wakes
\* the waiting goroutine) and reports its "nack" line at its end: the woken
\* goroutine's syncDone line can overtake it.  The expected NACK reported by
\* the same endpoint within the next few lines, all of the same instant, is
\* that cause.
LateNack(x, ep, t) ==
    /\ x.res
    /\ \E j \in (l + 1)..(IF l + 8 < Len(Trace) THEN l + 8 ELSE Len(Trace)) :
          /\ Trace[j].ev = "nack" /\ Trace[j].ep = ep /\ Trace[j].seq = x.expN
          /\ \A k \in (l + 1)..j : "t" \in DOMAIN Trace[k] /\ Near(Trace[k].t, t)
TDone == /\ Is("syncDone") /\ Adv /\ UNCHANGED sN
         /\ LET x == o[Ev.ep] IN
            /\ x.wait
            /\ Ev.t <= x.tw + 3 * x.rtw + TOL                       \* BoundedWait
            /\ \/ Ev.t >= x.tw + 3 * x.rtw - TOL                    \* the timeout
               \/ Cause(x, Ev.t)                                    \* EarlyOnlyWithCause
               \/ LateNack(x, Ev.ep, Ev.t)
         /\ o' = [o EXCEPT ![Ev.ep].wait = FALSE, ![Ev.ep].res = FALSE, ![Ev.ep].lastDone = Ev.t]

\* the harness takes stock (connections still open): no wait may be overdue
TStock == /\ Is("pgEnd") /\ Adv /\ UNCHANGED <<sN, o>>
          /\ \A e \in EP : o[e].wait => Ev.t <= o[e].tw + 3 * o[e].rtw + TOL

Handled == {"reset", "setN", "resend", "ack", "nack", "closeQuit", "syncWait", "syncDone", "pgEnd"}
TSkip == l <= Len(Trace) /\ Ev.ev \notin Handled /\ Adv /\ UNCHANGED <<sN, o>>

Next == TReset \/ TSetN \/ TResend \/ TAck \/ TNack \/ TQuit \/ TWait \/ TDone \/ TStock \/ TSkip
Spec == Init /\ [][Next]_<<l, sN, o>>

TraceAccepted ==
    LET d == TLCGet("stats").diameter IN
    IF d - 1 = Len(Trace) THEN TRUE
    ELSE Print(<<"TRACE_REJECTED_AT_LINE", d, "OF", Len(Trace)>>, FALSE)
=============================================================================
