---------------------------- MODULE Trace_Codec ----------------------------
(***************************************************************************)
(* Function-trace validation of the real codecs against Codec.tla.  Lines: *)
(*  {"op":"gbnDeser","in":[..],"st":"ok|err|panic","m":{..}}               *)
(*  {"op":"gbnSer","m":{..},"out":[..]}                                    *)
(*  {"op":"msgDeser","in":[..],"st":..,"m":{"v":..,"pl":[..]}}             *)
(*  {"op":"msgSer","m":{..},"out":[..]}                                    *)
(* Booleans are logged as 0/1.                                             *)
(***************************************************************************)
EXTENDS Codec, Json, TLC
CONSTANTS TraceFile,
          MinData   \* 4 = specification; 3 = deviation DevShortData
Trace == ndJsonDeserialize(TraceFile)

\* bring a logged message into the specification's shape
GM(r) == IF r.k = "DATA"
         THEN [k |-> "DATA", seq |-> r.seq, fin |-> (r.fin = 1),
               ping |-> (r.ping = 1), pl |-> r.pl]
         ELSE IF r.k \in {"ACK", "NACK"} THEN [k |-> r.k, seq |-> r.seq]
         ELSE IF r.k = "SYN" THEN [k |-> "SYN", n |-> r.n]
         ELSE [k |-> r.k]
MM(r) == [v |-> r.v, pl |-> r.pl]

LineOK(ln) ==
    IF ln.op = "gbnDeser" THEN
        LET w == GbnDeserMin(ln["in"], MinData) IN
        /\ w.st = ln.st
        /\ (w.st = "ok" => w.m = GM(ln.m))
    ELSE IF ln.op = "gbnSer" THEN GbnSer(GM(ln.m)) = ln.out
    ELSE IF ln.op = "msgDeser" THEN
        LET w == MsgDeser(ln["in"]) IN
        /\ w.st = ln.st
        /\ (w.st = "ok" => w.m = MM(ln.m))
    ELSE IF ln.op = "msgSer" THEN MsgSer(MM(ln.m)) = ln.out
    ELSE FALSE

VARIABLE i
Init == i = 1
Next == i <= Len(Trace) /\ i' = i + 1
AllOK == i <= Len(Trace) =>
            \/ LineOK(Trace[i])
            \/ Print(<<"CODEC_MISMATCH_AT_LINE", i>>, FALSE)
=============================================================================
