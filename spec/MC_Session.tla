---------------------------- MODULE MC_Session ----------------------------
EXTENDS Session
TwoClients == {"c", "x"}
OneClient == {"c"}
Booleans == {TRUE, FALSE}
\* observation-free view is the full state here (no history variables but everUp)
=============================================================================
