---------------------------- MODULE CipherStream ----------------------------
(***************************************************************************)
(* The post-handshake cipher stream (mailbox/noise.go cipherState,         *)
(* WriteMessage / ReadHeader / ReadBody) for both directions, with a       *)
(* relay that may edit the ciphertext.                                     *)
(*                                                                         *)
(* AEAD is abstract: a chunk is the term                                   *)
(*     [dir, gen, nonce, part, msg]                                        *)
(* (direction key, key generation, nonce, "hdr"/"body", message id); it    *)
(* decrypts iff the reader's current (dir, gen, nonce) are the ones it was *)
(* sealed with; anything else (a modified, foreign, replayed or misplaced  *)
(* chunk, or bytes the relay made up: "junk") fails authentication.        *)
(*                                                                         *)
(* Writer, per message: Encrypt(length header), Encrypt(body); after each  *)
(* encryption nonce++ and, when the nonce reaches ROT, the key is ratcheted *)
(* (gen++, nonce = 0).  The reader does the same after each decryption     *)
(* attempt, successful or not.                                             *)
(***************************************************************************)
EXTENDS CipherOps, FiniteSets, TLC

CONSTANTS Dirs,       \* {"c2s", "s2c"}
          MaxMsgs,    \* messages per direction (model bound)
          MaxEdits    \* relay edits (model bound)

VARIABLES
    wst,      \* [Dirs -> [gen, nonce]]  sending cipher state of the writer
    rst,      \* [Dirs -> [gen, nonce]]  receiving cipher state of the reader
    wire,     \* [Dirs -> Seq(chunk)]    ciphertext in flight, editable
    nw,       \* [Dirs -> Nat]           messages written
    dlv,      \* [Dirs -> Seq(Nat)]      messages returned by ReadMessage
    failed,   \* [Dirs -> BOOLEAN]       a read has returned an error
    used,     \* set of <<dir, gen, nonce>> used for encryption so far
    sent,     \* [Dirs -> Seq(chunk)]    history: every chunk the writer produced
    edits     \* relay edits so far

vars == <<wst, rst, wire, nw, dlv, failed, used, sent, edits>>

Init ==
    /\ wst = [d \in Dirs |-> [gen |-> 0, nonce |-> 0]]
    /\ rst = [d \in Dirs |-> [gen |-> 0, nonce |-> 0]]
    /\ wire = [d \in Dirs |-> <<>>]
    /\ nw = [d \in Dirs |-> 0]
    /\ dlv = [d \in Dirs |-> <<>>]
    /\ failed = [d \in Dirs |-> FALSE]
    /\ used = {}
    /\ sent = [d \in Dirs |-> <<>>]
    /\ edits = 0

\* WriteMessage + Flush: two encryptions
Write(d) ==
    LET m == nw[d] + 1
        s1 == wst[d]
        s2 == Bump(s1)
        h == [dir |-> d, gen |-> s1.gen, nonce |-> s1.nonce, part |-> "hdr", msg |-> m]
        b == [dir |-> d, gen |-> s2.gen, nonce |-> s2.nonce, part |-> "body", msg |-> m]
    IN
    /\ nw' = [nw EXCEPT ![d] = m]
    /\ wst' = [wst EXCEPT ![d] = Bump(s2)]
    /\ wire' = [wire EXCEPT ![d] = @ \o <<h, b>>]
    /\ sent' = [sent EXCEPT ![d] = @ \o <<h, b>>]
    /\ used' = used \cup {<<d, s1.gen, s1.nonce>>, <<d, s2.gen, s2.nonce>>}
    /\ UNCHANGED <<rst, dlv, failed, edits>>

\* ReadMessage: header then body; the first chunk that does not open is an
\* error (and the nonce still advances)
Read(d) ==
    /\ ~failed[d]
    /\ Len(wire[d]) >= 1
    /\ LET c1 == wire[d][1]
           s1 == rst[d] IN
       IF ~(Opens(d, c1, s1) /\ c1.part = "hdr")
       THEN /\ failed' = [failed EXCEPT ![d] = TRUE]
            /\ rst' = [rst EXCEPT ![d] = Bump(s1)]
            /\ wire' = [wire EXCEPT ![d] = Tail(@)]
            /\ UNCHANGED dlv
       ELSE /\ Len(wire[d]) >= 2
            /\ LET c2 == wire[d][2]
                   s2 == Bump(s1) IN
               IF Opens(d, c2, s2) /\ c2.part = "body" /\ c2.msg = c1.msg
               THEN /\ dlv' = [dlv EXCEPT ![d] = Append(@, c2.msg)]
                    /\ rst' = [rst EXCEPT ![d] = Bump(s2)]
                    /\ wire' = [wire EXCEPT ![d] = Tail(Tail(@))]
                    /\ UNCHANGED failed
               ELSE /\ failed' = [failed EXCEPT ![d] = TRUE]
                    /\ rst' = [rst EXCEPT ![d] = Bump(s2)]
                    /\ wire' = [wire EXCEPT ![d] = Tail(Tail(@))]
                    /\ UNCHANGED dlv
    /\ UNCHANGED <<wst, nw, used, sent, edits>>

---------------------------------------------------------------------------
(* The relay.  Positions are 1-based chunk indices of wire[d].             *)


Edit(d, q2) == /\ edits < MaxEdits
               /\ wire' = [wire EXCEPT ![d] = q2]
               /\ edits' = edits + 1
               /\ UNCHANGED <<wst, rst, nw, dlv, failed, used, sent>>

Drop(d, i)    == i \in 1..Len(wire[d]) /\ Edit(d, RemoveAt(wire[d], i))
Dup(d, i)     == i \in 1..Len(wire[d]) /\ Edit(d, InsertAt(wire[d], i, wire[d][i]))
Swap(d, i)    == i \in 1..(Len(wire[d]) - 1) /\
                 Edit(d, SetAt(SetAt(wire[d], i, wire[d][i + 1]), i + 1, wire[d][i]))
Corrupt(d, i) == i \in 1..Len(wire[d]) /\ Edit(d, SetAt(wire[d], i, Junk))
Inject(d, i)  == i \in 1..(Len(wire[d]) + 1) /\ Edit(d, InsertAt(wire[d], i, Junk))
\* replay an earlier chunk of the same direction / reflect one of the other
Replay(d, i, c) == i \in 1..(Len(wire[d]) + 1) /\ Edit(d, InsertAt(wire[d], i, c))
Truncate(d, i) == i \in 0..(Len(wire[d]) - 1) /\ Edit(d, SubSeq(wire[d], 1, i))

Other(d) == CHOOSE x \in Dirs : x # d

Next ==
    \E d \in Dirs :
        \/ nw[d] < MaxMsgs /\ Write(d)
        \/ Read(d)
        \/ \E i \in 0..(2 * MaxMsgs + 1) :
              \/ Drop(d, i) \/ Dup(d, i) \/ Swap(d, i) \/ Corrupt(d, i)
              \/ Inject(d, i) \/ Truncate(d, i)
              \/ \E k \in 1..Len(sent[d]) : Replay(d, i, sent[d][k])
              \/ \E k \in 1..Len(sent[Other(d)]) : Replay(d, i, sent[Other(d)][k])

Spec == Init /\ [][Next]_vars

---------------------------------------------------------------------------
(* Properties *)

OneToK(k) == [i \in 1..k |-> i]

\* C02: whatever the relay does, what the reader got is a prefix of what the
\* authentic peer wrote in that direction
ReadPrefix == \A d \in Dirs : dlv[d] = OneToK(Len(dlv[d])) /\ Len(dlv[d]) <= nw[d]

\* C08: a (key, nonce) pair is never used twice for encryption.  The writer's
\* next pairs are not in `used` yet.
FreshPair == \A d \in Dirs : <<d, wst[d].gen, wst[d].nonce>> \notin used

\* C08: without edits, reader and writer rotate in lock step: the reader's
\* state is the writer's state as of the first chunk still in flight
LockStep ==
    edits = 0 =>
        \A d \in Dirs :
            ~failed[d] /\
            (IF wire[d] = <<>> THEN rst[d] = wst[d]
             ELSE Opens(d, wire[d][1], rst[d]))

\* C08: nonces stay below the rotation interval
NonceBound == \A d \in Dirs : wst[d].nonce < ROT /\ rst[d].nonce < ROT

=============================================================================
