------------------------- MODULE MC_Trace_Listener -------------------------
EXTENDS Trace_Listener
GoodPeers == {"g1", "g2", "g3", "g4", "g5", "g6"}
AllPeers == GoodPeers \cup {"b1", "b2", "b3", "b4", "b5", "b6"}
AllCallers == {"a", "b"}
=============================================================================
