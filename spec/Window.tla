------------------------------ MODULE Window ------------------------------
(***************************************************************************)
(* Sliding-window arithmetic of the Go-Back-N send queue (gbn/queue.go),   *)
(* transcribed as pure operators over naturals.  s is the size of the      *)
(* sequence space (cfg.s = n+1), b/t the queue's sequenceBase/sequenceTop, *)
(* q a sequence number taken from the wire (any byte 0..255).              *)
(*                                                                         *)
(*   QSize       <-> queue.size                                            *)
(*   Contains    <-> containsSequence                                      *)
(*   AckResult   <-> queue.processACK   (return value and new base)        *)
(*   NackResult  <-> queue.processNACK  (two return values and new base)   *)
(***************************************************************************)
EXTENDS Integers

\* queue.size(): uint8 arithmetic.  For b,t < s the result is in 0..s-1.
QSize(b, t, s) == IF t >= b THEN t - b ELSE t + (s - b)

\* containsSequence(base, top, seq)
Contains(b, t, q) ==
    IF b = t THEN FALSE
    ELSE IF b < t THEN b <= q /\ q < t
    ELSE q < t \/ b <= q

\* The window test a correct implementation needs: q is a sequence number of
\* the space 0..s-1 *and* lies in [b, t).
InWindow(b, t, q, s) == q < s /\ Contains(b, t, q)

\* queue.processACK(seq): [empty, valid, base]
AckResult(b, t, q, s) ==
    IF QSize(b, t, s) = 0
    THEN [empty |-> TRUE,  valid |-> FALSE, base |-> b]
    ELSE IF q = b
    THEN [empty |-> FALSE, valid |-> TRUE,  base |-> (b + 1) % s]
    ELSE IF InWindow(b, t, q, s)
    THEN [empty |-> FALSE, valid |-> TRUE,  base |-> (q + 1) % s]
    ELSE [empty |-> FALSE, valid |-> FALSE, base |-> b]

\* queue.processNACK(seq): [resend, bumped, base]
NackResult(b, t, q, s) ==
    IF q = t
    THEN [resend |-> FALSE, bumped |-> TRUE,  base |-> t]
    ELSE IF ~InWindow(b, t, q, s)
    THEN [resend |-> FALSE, bumped |-> FALSE, base |-> b]
    ELSE [resend |-> TRUE,  bumped |-> (b # q), base |-> q]

(***************************************************************************)
(* The code as pinned (before the fix: commit) used Contains without the   *)
(* q < s guard (uint8 arithmetic, hence the % 256).  Kept as named         *)
(* deviation operators so that TLC can show what the unguarded arithmetic  *)
(* admits (MC_Window_dev.cfg) and so that a trace of a tree without the    *)
(* fix is classified precisely (checks/c09.py).                            *)
(***************************************************************************)
DevAckResult(b, t, q, s) ==
    IF QSize(b, t, s) = 0
    THEN [empty |-> TRUE,  valid |-> FALSE, base |-> b]
    ELSE IF q = b
    THEN [empty |-> FALSE, valid |-> TRUE,  base |-> (b + 1) % s]
    ELSE IF Contains(b, t, q)
    THEN [empty |-> FALSE, valid |-> TRUE,  base |-> ((q + 1) % 256) % s]
    ELSE [empty |-> FALSE, valid |-> FALSE, base |-> b]

DevNackResult(b, t, q, s) ==
    IF q = t
    THEN [resend |-> FALSE, bumped |-> TRUE,  base |-> t]
    ELSE IF ~Contains(b, t, q)
    THEN [resend |-> FALSE, bumped |-> FALSE, base |-> b]
    ELSE [resend |-> TRUE,  bumped |-> (b # q), base |-> q]

(***************************************************************************)
(* Properties of the arithmetic (checked exhaustively by MC_Window).       *)
(***************************************************************************)
\* Circular distance from a to b in the space of size s.
Dist(a, b, s) == (b - a + s) % s

\* A window state is valid when both indices are in the space.
ValidWin(b, t, s) == b \in 0..(s-1) /\ t \in 0..(s-1)

\* An ACK/NACK never moves the base outside [b, t] (so the number of
\* outstanding packets never grows), and keeps it in the sequence space.
AckSafe(b, t, q, s) ==
    LET r == AckResult(b, t, q, s) IN
    /\ r.base \in 0..(s-1)
    /\ Dist(b, r.base, s) <= Dist(b, t, s)
    /\ (r.valid => r.base # b)
    /\ (~r.valid => r.base = b)

NackSafe(b, t, q, s) ==
    LET r == NackResult(b, t, q, s) IN
    /\ r.base \in 0..(s-1)
    /\ Dist(b, r.base, s) <= Dist(b, t, s)
    /\ (r.bumped <=> r.base # b) \/ (q = t /\ b = t)
    /\ (r.resend => r.base = q /\ q # t)

DevAckSafe(b, t, q, s) ==
    LET r == DevAckResult(b, t, q, s) IN
    /\ r.base \in 0..(s-1)
    /\ Dist(b, r.base, s) <= Dist(b, t, s)

DevNackSafe(b, t, q, s) ==
    LET r == DevNackResult(b, t, q, s) IN
    /\ r.base \in 0..(s-1)
    /\ Dist(b, r.base, s) <= Dist(b, t, s)
=============================================================================
