---------------------------- MODULE Trace_Stream ----------------------------
(***************************************************************************)
(* C15: validation of logged Write/Read calls of the real secured           *)
(* connections (NoiseGrpcConn over connKit, NoiseConn, plain connKit)       *)
(* against the byte-stream contract of RecordIO.tla.  Lines:                *)
(*  {"op":"new","conn":k}                                                   *)
(*  {"op":"write","conn":k,"len":L,"n":n,"err":""|"toolong"|"err"}          *)
(*  {"op":"read","conn":k,"buf":B,"n":n,"err":e,"match":0|1,"avail":a}      *)
(*     match: the bytes placed in the buffer equal the stream at the read   *)
(*     position (computed by the harness, which knows what was written)     *)
(*  {"op":"end","written":w,"read":r}                                       *)
(* Timed-out writes of the TCP variant (the record stays pending inside the *)
(* machine, RecordIO's CanStartRecord / FlushStep):                         *)
(*  {"op":"write",...,"err":"timeout","n":n}   n plaintext bytes reported   *)
(*  {"op":"rewrite","len":L,"n":n,"err":e}     a Write while a record is    *)
(*                                             pending: must be refused     *)
(*  {"op":"flush","n":n,"err":e}               Flush resumes the record     *)
(***************************************************************************)
EXTENDS RecordIO, Json

CONSTANT TraceFile
Trace == ndJsonDeserialize(TraceFile)

VARIABLES l, wr, rd,
          pend,    \* plaintext bytes of the pending record not yet reported
          pr       \* a record is pending in the machine (some of its bytes, possibly
                   \* only MAC bytes, are not on the wire yet)
Ev == Trace[l]
Is(o) == l <= Len(Trace) /\ Trace[l].op = o
Adv == l' = l + 1

TNew == Is("new") /\ Adv /\ wr' = 0 /\ rd' = 0 /\ pend' = 0 /\ pr' = FALSE

\* a write is accepted completely or rejected with an error; never truncated.
\* The gRPC variant rejects more than MAXREC bytes; the TCP variant chunks.
TWrite ==
    /\ Is("write") /\ Adv /\ UNCHANGED rd /\ ~pr
    /\ IF Ev.err = ""
       THEN /\ Ev.n = Ev.len
            /\ (Ev.conn = "grpc" => Ev.len <= MAXREC)
            /\ wr' = wr + Ev.len /\ pend' = 0 /\ pr' = FALSE
       ELSE IF Ev.err = "timeout"
       THEN \* the deadline expired inside a record: n bytes are reported, the
            \* rest of that record (chunk) stays pending in the machine
            /\ Ev.conn = "tcp" /\ Ev.n >= 0 /\ Ev.n <= Ev.len
            /\ wr' = wr + Ev.n /\ pr' = TRUE
            \* at a chunk boundary the observer cannot tell whether only the MAC
            \* of the finished chunk is missing (nothing more to report) or the
            \* next chunk's record was started (all of it still to report)
            /\ pend' \in (IF Ev.n = Ev.len THEN {0}
                          ELSE IF Ev.n > 0 /\ Ev.n % MAXREC = 0
                          THEN {0, Min(Ev.len - Ev.n, MAXREC)}
                          ELSE {Min(Ev.len, ((Ev.n \div MAXREC) + 1) * MAXREC) - Ev.n})
       ELSE /\ Ev.n = 0
            /\ Ev.conn = "grpc" /\ Ev.len > MAXREC /\ Ev.err = "toolong"
            /\ wr' = wr /\ pend' = 0 /\ pr' = FALSE

\* no new record while one is pending (CanStartRecord): the Write is refused
\* and changes nothing
TRewrite ==
    /\ Is("rewrite") /\ Adv /\ UNCHANGED <<wr, rd, pend, pr>>
    /\ pr /\ Ev.err = "notflushed" /\ Ev.n = 0

\* Flush resumes the pending record: it reports plaintext bytes of it, all
\* that were left if it returns without error
TFlush ==
    /\ Is("flush") /\ Adv /\ UNCHANGED rd
    /\ Ev.n >= 0 /\ Ev.n <= pend
    /\ Ev.err = "" => Ev.n = pend
    /\ wr' = wr + Ev.n /\ pend' = pend - Ev.n
    /\ pr' = (Ev.err # "")

\* every Read: no more bytes than the buffer holds, the next bytes of the
\* stream, nothing beyond what was written
TRead ==
    /\ Is("read") /\ Adv /\ UNCHANGED <<wr, pend, pr>>
    /\ Ev.err = ""
    /\ ReadOK([n |-> Ev.n, from |-> rd], Ev.buf, rd, wr - rd)
    /\ Ev.n >= 0 /\ Ev.match = 1
    /\ Ev.avail = wr - rd
    /\ rd' = rd + Ev.n

TEnd == /\ Is("end") /\ Adv /\ UNCHANGED <<wr, rd, pend, pr>>
        /\ Ev.written = wr /\ Ev.read = rd /\ rd = wr /\ pend = 0 /\ ~pr

TraceNext == TNew \/ TWrite \/ TRewrite \/ TFlush \/ TRead \/ TEnd
TraceSpec == l = 1 /\ wr = 0 /\ rd = 0 /\ pend = 0 /\ pr = FALSE /\ [][TraceNext]_<<l, wr, rd, pend, pr>>
TraceAccepted ==
    LET d == TLCGet("stats").diameter IN
    IF d - 1 = Len(Trace) THEN TRUE
    ELSE Print(<<"TRACE_REJECTED_AT_LINE", d, "OF", Len(Trace)>>, FALSE)
=============================================================================
