---------------------------- MODULE Trace_Stream ----------------------------
(***************************************************************************)
(* C15: validation of logged Write/Read calls of the real secured           *)
(* connections (NoiseGrpcConn over connKit, NoiseConn, plain connKit)       *)
(* against the byte-stream contract of RecordIO.tla.  Lines:                *)
(*  {"op":"new","conn":k}                                                   *)
(*  {"op":"write","conn":k,"len":L,"n":n,"err":""|"toolong"|"err"}          *)
(*  {"op":"read","conn":k,"buf":B,"n":n,"err":e,"match":0|1,"avail":a}      *)
(*     match: the bytes placed in the buffer equal the stream at the read   *)
(*     position (computed by the harness, which knows what was written)     *)
(*  {"op":"end","written":w,"read":r}                                       *)
(***************************************************************************)
EXTENDS RecordIO, Json

CONSTANT TraceFile
Trace == ndJsonDeserialize(TraceFile)

VARIABLES l, wr, rd
Ev == Trace[l]
Is(o) == l <= Len(Trace) /\ Trace[l].op = o
Adv == l' = l + 1

TNew == Is("new") /\ Adv /\ wr' = 0 /\ rd' = 0

\* a write is accepted completely or rejected with an error; never truncated.
\* The gRPC variant rejects more than MAXREC bytes; the TCP variant chunks.
TWrite ==
    /\ Is("write") /\ Adv /\ UNCHANGED rd
    /\ IF Ev.err = ""
       THEN /\ Ev.n = Ev.len
            /\ (Ev.conn = "grpc" => Ev.len <= MAXREC)
            /\ wr' = wr + Ev.len
       ELSE /\ Ev.n = 0
            /\ Ev.conn = "grpc" /\ Ev.len > MAXREC /\ Ev.err = "toolong"
            /\ wr' = wr

\* every Read: no more bytes than the buffer holds, the next bytes of the
\* stream, nothing beyond what was written
TRead ==
    /\ Is("read") /\ Adv /\ UNCHANGED wr
    /\ Ev.err = ""
    /\ ReadOK([n |-> Ev.n, from |-> rd], Ev.buf, rd, wr - rd)
    /\ Ev.n >= 0 /\ Ev.match = 1
    /\ Ev.avail = wr - rd
    /\ rd' = rd + Ev.n

TEnd == /\ Is("end") /\ Adv /\ UNCHANGED <<wr, rd>>
        /\ Ev.written = wr /\ Ev.read = rd /\ rd = wr

TraceNext == TNew \/ TWrite \/ TRead \/ TEnd
TraceSpec == l = 1 /\ wr = 0 /\ rd = 0 /\ [][TraceNext]_<<l, wr, rd>>
TraceAccepted ==
    LET d == TLCGet("stats").diameter IN
    IF d - 1 = Len(Trace) THEN TRUE
    ELSE Print(<<"TRACE_REJECTED_AT_LINE", d, "OF", Len(Trace)>>, FALSE)
=============================================================================
