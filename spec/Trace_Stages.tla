---------------------------- MODULE Trace_Stages ----------------------------
(***************************************************************************)
(* C07 above the GBN layer: what an endpoint may do with bytes the relay   *)
(* delivers in the place of a Noise handshake act, an encrypted record or  *)
(* a websocket JSON envelope.  Function trace: one line per call of the    *)
(* real code (DoHandshake with one act mutated in transit, ReadMessage,    *)
(* the envelope handling of the websocket transport) with the class of the *)
(* input and the outcome "ok" / "err".  A panic never reaches this file:   *)
(* it kills the driver and is reported from its output.                    *)
(*                                                                         *)
(*   Outcomes(stage, class)  the outcomes the stage allows for that class  *)
(***************************************************************************)
EXTENDS Integers, Sequences, Json, TLC

CONSTANT TraceFile
Trace == ndJsonDeserialize(TraceFile)

IsHs(stage) == stage \in {"hs-XX-act1", "hs-XX-act2", "hs-XX-act3", "hs-KK-act1", "hs-KK-act2"}

Outcomes(stage, class) ==
    IF IsHs(stage)
    THEN \* an act that was cut short, replaced or had an authenticated byte
         \* changed fails the handshake; the version byte is not authenticated
         \* (C04's open finding), so a change there may pass
         IF class = "flip-version" THEN {"ok", "err"} ELSE {"err"}
    ELSE IF stage = "record"
    THEN IF class = "genuine" THEN {"ok"} ELSE {"err"}
    ELSE IF stage = "envelope"
    THEN IF class = "valid" THEN {"ok"}
         ELSE IF class \in {"error-wrapped", "short", "random"} THEN {"err"}
         ELSE {"ok", "err"}          \* malformed / mutated: either, never a crash
    ELSE {}

VARIABLE l
Ev == Trace[l]
Init == l = 1
Next == l <= Len(Trace) /\ l' = l + 1
Spec == Init /\ [][Next]_l

LineOK ==
    l <= Len(Trace) =>
        IF Ev.op = "stage"
        THEN \/ /\ Ev.outcome \in Outcomes(Ev.stage, Ev.class)
                /\ ("payloadOK" \in DOMAIN Ev => Ev.payloadOK = 1)
             \/ PrintT(<<"STAGE_MISMATCH", l, Ev.stage, Ev.class, Ev.outcome>>)
        ELSE TRUE
\* every stage and the final marker are present (the sweep was not cut short)
Complete == l = Len(Trace) + 1 =>
    /\ Trace[Len(Trace)].op = "stageEnd" /\ Trace[Len(Trace)].n = Len(Trace) - 1
TraceAccepted == TLCGet("stats").diameter - 1 = Len(Trace)
=============================================================================
