--------------------------- MODULE MC_TimeoutMgr ---------------------------
EXTENDS TimeoutMgr
CONSTANTS MaxSteps, Deltas
VARIABLE steps
mvars == <<vars, steps>>
MCInit == Init /\ steps = 0
MCNext ==
    /\ steps < MaxSteps
    /\ steps' = steps + 1
    /\ \/ \E d \in Deltas : Advance(d)
       \/ \E r \in BOOLEAN : SentSyn(r)
       \/ \E q \in Seqs : \E r \in BOOLEAN : SentData(q, r)
       \/ \E k \in {"SYN", "SYNACK"} : RecvSyn(k)
       \/ \E q \in Seqs : RecvAck(q)
MCSpec == MCInit /\ [][MCNext]_mvars
=============================================================================
