--------------------------- MODULE Trace_KeepAlive ---------------------------
(***************************************************************************)
(* C13 (and the closure clauses of C06): a timed observer over traces of    *)
(* real keepalive-enabled connections.  Events carry the virtual time "t"   *)
(* in ms.  Interpreted lines:                                               *)
(*   reset                                                                  *)
(*   kaCfg {pingC, pongC, pingS, pongS}   keepalive settings (0 = off)       *)
(*   silence {t}          from now on nothing any side sends arrives        *)
(*   rx {ep, t} (hook)    the receive loop got a packet                     *)
(*   ping / pingFull {ep, t} (hook)  the pong timer was armed               *)
(*   pongTimeout {ep, t} (hook)      the connection gives up on the peer    *)
(*   closeQuit {ep, t} (hook)                                               *)
(*   kaEnd {t, rtC, rtS}  end of observation; resend timeouts in ms         *)
(* DetectDead:   silenced at T  =>  closed by T + ping + pong + 6*resend +  *)
(*               slack  (the two resend/sync waits that can postpone the    *)
(*               ping tick and the pong tick: see KeepAlive.tla)            *)
(* NoFalseClose: a pong timeout only if no packet arrived since the pong    *)
(*               timer was armed, and not before the pong time has passed;  *)
(*               on a healthy link nobody closes at all.                    *)
(***************************************************************************)
EXTENDS Integers, Sequences, Json, TLC

CONSTANTS TraceFile, SlackMs
Trace == ndJsonDeserialize(TraceFile)
EP == {"c", "s"}

VARIABLES l, ping, pong, silentAt, armedAt, rxSince, closedAt
tvars == <<l, ping, pong, silentAt, armedAt, rxSince, closedAt>>
Ev == Trace[l]
Is(o) == l <= Len(Trace) /\ Trace[l].ev = o
Adv == l' = l + 1
E == Ev.ep
Zero == [e \in EP |-> 0]
Never == [e \in EP |-> -1]

TraceInit == /\ l = 1 /\ ping = Zero /\ pong = Zero /\ silentAt = -1
             /\ armedAt = Never /\ rxSince = [e \in EP |-> TRUE] /\ closedAt = Never

TReset == /\ Is("reset") /\ Adv
          /\ ping' = Zero /\ pong' = Zero /\ silentAt' = -1 /\ armedAt' = Never
          /\ rxSince' = [e \in EP |-> TRUE] /\ closedAt' = Never

TCfg == /\ Is("kaCfg") /\ Adv
        /\ ping' = [c |-> Ev.pingC, s |-> Ev.pingS]
        /\ pong' = [c |-> Ev.pongC, s |-> Ev.pongS]
        /\ UNCHANGED <<silentAt, armedAt, rxSince, closedAt>>

TSilence == /\ Is("silence") /\ Adv /\ silentAt' = Ev.t
            /\ UNCHANGED <<ping, pong, armedAt, rxSince, closedAt>>

TRx == /\ Is("rx") /\ Adv
       /\ rxSince' = [rxSince EXCEPT ![E] = TRUE]
       /\ UNCHANGED <<ping, pong, silentAt, armedAt, closedAt>>

TArm == /\ (Is("ping") \/ Is("pingFull")) /\ Adv
        /\ armedAt' = [armedAt EXCEPT ![E] = Ev.t]
        /\ rxSince' = [rxSince EXCEPT ![E] = FALSE]
        /\ UNCHANGED <<ping, pong, silentAt, closedAt>>

TPongTimeout ==
    /\ Is("pongTimeout") /\ Adv
    /\ armedAt[E] >= 0 /\ ~rxSince[E]
    /\ Ev.t - armedAt[E] >= pong[E]
    /\ UNCHANGED <<ping, pong, silentAt, armedAt, rxSince, closedAt>>

TCloseQuit == /\ Is("closeQuit") /\ Adv
              /\ closedAt' = [closedAt EXCEPT ![E] = IF @ = -1 THEN Ev.t ELSE @]
              /\ UNCHANGED <<ping, pong, silentAt, armedAt, rxSince>>

BoundOf(e, rt) == ping[e] + pong[e] + 6 * rt + SlackMs

TEnd ==
    /\ Is("kaEnd") /\ Adv /\ UNCHANGED <<ping, pong, silentAt, armedAt, rxSince, closedAt>>
    /\ \A e \in EP :
         LET rt == IF e = "c" THEN Ev.rtC ELSE Ev.rtS IN
         IF silentAt >= 0
         THEN (ping[e] > 0 /\ Ev.t >= silentAt + BoundOf(e, rt)) =>
                  (closedAt[e] >= 0 /\ closedAt[e] <= silentAt + BoundOf(e, rt))
         ELSE closedAt[e] = -1        \* healthy link: nobody closes

Handled == {"reset", "kaCfg", "silence", "rx", "ping", "pingFull", "pongTimeout",
            "closeQuit", "kaEnd"}
TSkip == /\ l <= Len(Trace) /\ Ev.ev \notin Handled /\ Adv
         /\ UNCHANGED <<ping, pong, silentAt, armedAt, rxSince, closedAt>>

TraceNext == TReset \/ TCfg \/ TSilence \/ TRx \/ TArm \/ TPongTimeout
             \/ TCloseQuit \/ TEnd \/ TSkip
TraceSpec == TraceInit /\ [][TraceNext]_tvars
TraceAccepted ==
    LET d == TLCGet("stats").diameter IN
    IF d - 1 = Len(Trace) THEN TRUE
    ELSE Print(<<"TRACE_REJECTED_AT_LINE", d, "OF", Len(Trace)>>, FALSE)
=============================================================================
