------------------------------ MODULE RelChan ------------------------------
(***************************************************************************)
(* The guarantee of the Go-Back-N layer, as the layers above rely on it:   *)
(* per direction a windowed, in-order, exactly-once message channel.       *)
(*                                                                         *)
(*   Accept(d)   the sender's Send hands message number acc[d]+1 to the connection; *)
(*               possible only while fewer than Window of its messages        *)
(*               are undelivered                                           *)
(*   Deliver(d)  the next message of that sender, and no other, is handed   *)
(*               to the receiver's Recv                                    *)
(*                                                                         *)
(* Messages are identified by their position 1, 2, ... in the sender's     *)
(* stream.  A connection that goes down simply stops taking steps.         *)
(*                                                                         *)
(* This module is the interface between the specifications of the layers:  *)
(*   GBN.tla  refines it (checked by TLC: MC_GBN!RelRefinement, C01) -     *)
(*            every behaviour of the protocol model, under loss,           *)
(*            duplication, delay and retransmission, is a behaviour of     *)
(*            this channel;                                                *)
(*   LNC.tla  uses it - the channel stage of the composition takes only    *)
(*            steps of this module (checked by TLC: MC_LNC!ChannelSteps,   *)
(*            C05).                                                        *)
(***************************************************************************)
EXTENDS Naturals, Sequences

CONSTANTS Dir,       \* the directions, each named by its sending endpoint
          Window     \* messages a sender may have undelivered

VARIABLES acc,       \* [Dir -> Nat]  messages accepted from the sender's application
          dl         \* [Dir -> Seq]  message numbers delivered to the receiver's
                     \*               application, in the order of delivery

Init == /\ acc = [d \in Dir |-> 0]
        /\ dl = [d \in Dir |-> <<>>]

Accept(d) == /\ acc[d] - Len(dl[d]) < Window
             /\ acc' = [acc EXCEPT ![d] = @ + 1]
             /\ UNCHANGED dl

Deliver(d) == /\ Len(dl[d]) < acc[d]
              /\ dl' = [dl EXCEPT ![d] = Append(@, Len(@) + 1)]
              /\ UNCHANGED acc

Next == \E d \in Dir : Accept(d) \/ Deliver(d)

Spec == Init /\ [][Next]_<<acc, dl>>

\* what the users of the channel may assume in every state
InOrderOnce == \A d \in Dir : /\ dl[d] = [i \in 1..Len(dl[d]) |-> i]
                              /\ Len(dl[d]) <= acc[d]
                              /\ acc[d] - Len(dl[d]) <= Window
=============================================================================
