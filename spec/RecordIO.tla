------------------------------ MODULE RecordIO ------------------------------
(***************************************************************************)
(* The sequential record/stream machinery above the Noise cipher:           *)
(*                                                                          *)
(*  - Machine.Flush (mailbox/noise.go): resumable partial writes of one     *)
(*    record = encrypted header (HDR bytes) + encrypted body (L + MAC).     *)
(*  - the readers that turn records back into a byte stream:                *)
(*      Grpc  NoiseGrpcConn.Read   (hands out at most GRPCBUF of a record,  *)
(*                                  keeps the rest in nextMsg)              *)
(*      Tcp   NoiseConn.Read       (bytes.Buffer re-chunking)               *)
(*      Kit   connKit.Read         (bytes.Buffer re-chunking)               *)
(*  - NoiseConn.Write chunking at MAXREC.                                   *)
(*                                                                          *)
(* Bytes are abstract: the written stream is the sequence of positions      *)
(* 0, 1, 2, ...; a record is an interval of positions.  Only lengths and    *)
(* positions are tracked.                                                   *)
(***************************************************************************)
EXTENDS Integers, Sequences, TLC

CONSTANTS HDR,      \* encrypted header size (18)
          MAC,      \* MAC size (16)
          GRPCBUF,  \* 32768
          MAXREC    \* 65535

Min(a, b) == IF a < b THEN a ELSE b

---------------------------------------------------------------------------
(* Flush.  hdr/body: bytes of the pending record's header / body not yet    *)
(* accepted by the writer.  One Flush call in which the writer accepts acc  *)
(* more bytes (header first, then body) and then either completes or        *)
(* returns a timeout error.                                                 *)

\* plaintext bytes among x body bytes accepted when `start` body bytes were
\* still pending before and `end` after (the MAC is the last MAC bytes)
PlainCount(start, end, x) ==
    IF start > MAC /\ end <= MAC THEN x - (MAC - end)
    ELSE IF start > MAC /\ end > MAC THEN x
    ELSE 0

\* result of one Flush call: [hdr, body, n, err]
FlushStep(hdr, body, acc) ==
    IF hdr > 0 /\ acc < hdr
    THEN [hdr |-> hdr - acc, body |-> body, n |-> 0, err |-> TRUE]
    ELSE LET x == Min(acc - hdr, body)      \* body bytes accepted
             b2 == body - x IN
         [hdr |-> 0, body |-> b2, n |-> PlainCount(body, b2, x),
          err |-> b2 > 0]

\* WriteMessage is refused while a record is pending
CanStartRecord(hdr, body) == hdr = 0 /\ body = 0

---------------------------------------------------------------------------
(* Readers.  A reader state is [recs, cur, pos]:                            *)
(*   recs  sequence of lengths of complete records not yet opened           *)
(*   cur   bytes of the opened record (or chunk) not yet returned           *)
(*   pos   stream position of the next byte to return                       *)

\* Tcp / Kit: open the next record when nothing is buffered, then return
\* min(buf, cur) bytes.
BufRead(st, buf) ==
    LET opened == IF st.cur = 0 /\ st.recs # <<>>
                  THEN [recs |-> Tail(st.recs), cur |-> Head(st.recs),
                        pos |-> st.pos]
                  ELSE st
        n == Min(buf, opened.cur) IN
    [st |-> [recs |-> opened.recs, cur |-> opened.cur - n, pos |-> opened.pos + n],
     n |-> n, from |-> opened.pos]

\* Grpc: as BufRead, but a freshly opened record is handed out in at most two
\* parts, the first never larger than GRPCBUF.  The reader state carries
\* `hold`: bytes of the record beyond the first part.
GrpcRead(st, buf) ==
    LET opened == IF st.cur = 0 /\ st.hold = 0 /\ st.recs # <<>>
                  THEN LET r == Head(st.recs) IN
                       [recs |-> Tail(st.recs), cur |-> Min(r, GRPCBUF),
                        hold |-> r - Min(r, GRPCBUF), pos |-> st.pos]
                  ELSE IF st.cur = 0 /\ st.hold > 0
                  THEN [recs |-> st.recs, cur |-> st.hold, hold |-> 0,
                        pos |-> st.pos]
                  ELSE st
        n == Min(buf, opened.cur) IN
    [st |-> [recs |-> opened.recs, cur |-> opened.cur - n, hold |-> opened.hold,
             pos |-> opened.pos + n],
     n |-> n, from |-> opened.pos]

\* The pinned NoiseGrpcConn.Read (named deviation DevGrpcReadOverrun): the
\* whole part is "returned" whatever the buffer size; bytes that do not fit
\* are dropped.
DevGrpcRead(st, buf) ==
    LET opened == IF st.cur = 0 /\ st.hold = 0 /\ st.recs # <<>>
                  THEN LET r == Head(st.recs) IN
                       [recs |-> Tail(st.recs), cur |-> Min(r, GRPCBUF),
                        hold |-> r - Min(r, GRPCBUF), pos |-> st.pos]
                  ELSE IF st.cur = 0 /\ st.hold > 0
                  THEN [recs |-> st.recs, cur |-> st.hold, hold |-> 0,
                        pos |-> st.pos]
                  ELSE st IN
    [st |-> [recs |-> opened.recs, cur |-> 0, hold |-> opened.hold,
             pos |-> opened.pos + opened.cur],
     n |-> opened.cur, from |-> opened.pos]

\* NoiseConn.Write: records produced for a write of len bytes
RECURSIVE Chunks(_)
Chunks(len) == IF len <= MAXREC THEN <<len>>
               ELSE <<MAXREC>> \o Chunks(len - MAXREC)

---------------------------------------------------------------------------
(* The stream contract (C15) for one Read: what was returned is the next n  *)
(* positions of the stream and n fits the buffer.                           *)
ReadOK(r, buf, rdPos, avail) ==
    /\ r.n <= buf
    /\ r.from = rdPos
    /\ r.n <= avail
=============================================================================
