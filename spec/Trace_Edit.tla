----------------------------- MODULE Trace_Edit -----------------------------
(***************************************************************************)
(* C02: the relay's edit scripts, executed on real ciphertext streams of    *)
(* real sessions, against the outcome CipherStream.tla predicts.  Each line *)
(*  {"op":"script","dir":d,"nmsgs":K,"edits":[{"e":..,"i":..,"j":..}..],     *)
(*   "delivered":k,"prefixOK":0|1,"errored":0|1}                            *)
(* describes one session: K messages written in direction d (and K in the   *)
(* other direction, as material for reflection), the edits applied to the   *)
(* chunk sequence (header and body ciphertexts) of direction d, how many    *)
(* messages the real reader returned before its first error, and whether    *)
(* each of them equalled the message the authentic peer wrote at that       *)
(* position; "afterErr": how many further reads succeeded after that error. *)
(***************************************************************************)
EXTENDS CipherOps, Json, TLC

CONSTANT TraceFile
Trace == ndJsonDeserialize(TraceFile)

\* the chunk sequence the writer of direction d produces for messages 1..K
Orig(d, K) ==
    [j \in 1..(2 * K) |->
        [dir |-> d, gen |-> StAt(j - 1).gen, nonce |-> StAt(j - 1).nonce,
         part |-> IF j % 2 = 1 THEN "hdr" ELSE "body", msg |-> (j + 1) \div 2]]

S0 == [gen |-> 0, nonce |-> 0]
OtherDir(d) == IF d = "c2s" THEN "s2c" ELSE "c2s"

ApplyOne(q, e, d, K) ==
    IF e.e = "drop" THEN RemoveAt(q, e.i)
    ELSE IF e.e = "dup" THEN InsertAt(q, e.i, q[e.i])
    ELSE IF e.e = "swap" THEN SetAt(SetAt(q, e.i, q[e.i + 1]), e.i + 1, q[e.i])
    ELSE IF e.e = "corrupt" THEN SetAt(q, e.i, Junk)
    ELSE IF e.e = "inject" THEN InsertAt(q, e.i, Junk)
    ELSE IF e.e = "replay" THEN InsertAt(q, e.i, Orig(d, K)[e.j])
    ELSE IF e.e = "reflect" THEN InsertAt(q, e.i, Orig(OtherDir(d), K)[e.j])
    ELSE IF e.e = "trunc" THEN SubSeq(q, 1, e.i)
    ELSE IF e.e = "cut" THEN Append(SubSeq(q, 1, e.i - 1), Junk)
    ELSE q

RECURSIVE ApplyAll(_, _, _, _)
ApplyAll(q, es, d, K) ==
    IF es = <<>> THEN q
    ELSE ApplyAll(ApplyOne(q, Head(es), d, K), Tail(es), d, K)

Predicted(ln) ==
    Delivered(ln.dir, ApplyAll(Orig(ln.dir, ln.nmsgs), ln.edits, ln.dir, ln.nmsgs))

LineOK(ln) ==
    /\ ln.prefixOK = 1                       \* ReadPrefix on the real reader
    /\ ln.delivered <= ln.nmsgs
    /\ ln.delivered = Predicted(ln)          \* and exactly the predicted prefix
    /\ ln.errored = 1                        \* every stream ends in a read error
    \* CipherStream's reader is fail-stop (Read requires ~failed): nothing is
    \* returned as valid after the first error
    /\ ln.afterErr = 0
    \* what was returned as valid is still what the peer wrote when the
    \* stream has ended (later reads, failing or not, do not change it)
    /\ ln.keptOK = 1

VARIABLE i
Init == i = 1
Next == i <= Len(Trace) /\ i' = i + 1
AllOK == i <= Len(Trace) =>
            \/ LineOK(Trace[i])
            \/ Print(<<"EDIT_MISMATCH_AT_LINE", i, "PREDICTED", Predicted(Trace[i])>>, FALSE)
=============================================================================
