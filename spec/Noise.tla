-------------------------------- MODULE Noise --------------------------------
(***************************************************************************)
(* Symbolic model of the LNC Noise handshake (mailbox/noise.go,            *)
(* noise_patterns.go): XXeke+SPAKE2 and KK, handshake versions 0..2 with a *)
(* [min, max] range per side, the auth payload in act 2, and a man in the  *)
(* middle who may rewrite the cleartext version byte of every act and      *)
(* corrupt any field.                                                      *)
(*                                                                         *)
(* Terms.  Keys are names ("sI", "sR", "sX" statics; "eI", "eR"            *)
(* ephemerals); dh(a, b) is the set {a, b}; the masked ephemeral is        *)
(* [m |-> e, pw |-> passphrase]; unmasking with another passphrase yields  *)
(* a bogus point.  A party's symmetric state is                            *)
(*    h  : the transcript = sequence of everything mixed into the digest   *)
(*    ck : the sequence of DH results mixed into the chaining key          *)
(*    n  : the nonce of the current temp key                               *)
(* and an AEAD ciphertext is the term [ck, n, h, pt]: it opens iff the     *)
(* reader's (ck, n, h) are those of the writer.  This is the Dolev-Yao     *)
(* reading of "every token and payload is MAC'd with the running           *)
(* transcript hash as associated data".                                    *)
(*                                                                         *)
(* The code's treatment of the version byte is modelled as it is: written  *)
(* in clear, range-checked in acts 1 and 2, adopted by the initiator in    *)
(* act 2, compared by the responder in act 3, selecting the payload        *)
(* framing of the act being read, and NOT mixed into the transcript.       *)
(***************************************************************************)
EXTENDS Integers, Sequences, FiniteSets, TLC

CONSTANT V0Truncates   \* TRUE: named deviation DevV0PayloadTruncation (the
                       \* pinned code silently truncated an auth payload
                       \* larger than the fixed act-2 field of version 0);
                       \* FALSE: the responder fails the handshake instead

XX == "XX"
KK == "KK"

Tokens(pattern, act) ==
    IF pattern = XX
    THEN (IF act = 1 THEN <<"me">> ELSE IF act = 2 THEN <<"e", "ee", "s", "es">>
          ELSE <<"s", "se">>)
    ELSE (IF act = 1 THEN <<"e", "es", "ss">> ELSE <<"e", "ee", "se">>)

NumActs(pattern) == IF pattern = XX THEN 3 ELSE 2
InitiatorWrites(act) == act \in {1, 3}

Junk == [junk |-> TRUE]
IsJunk(x) == x = Junk

Dh(a, b) == {a, b}

\* framing class of the act-2 payload
Framing(v) == IF v = 0 THEN "fixed" ELSE "prefixed"

---------------------------------------------------------------------------
(* party state *)

NewParty(init, pattern, minV, maxV, static, priv, eph, pw, expectRs, payload) ==
    LET pre == IF pattern = KK
               THEN (IF init THEN <<static, expectRs>> ELSE <<expectRs, static>>)
               ELSE <<>> IN
    [init |-> init, pattern |-> pattern,
     minV |-> IF pattern = KK /\ minV < 2 THEN 2 ELSE minV, maxV |-> maxV,
     ver |-> IF init THEN (IF pattern = KK /\ minV < 2 THEN 2 ELSE minV) ELSE maxV,
     s |-> static, sk |-> priv, e |-> eph, pw |-> pw,
     rs |-> expectRs, re |-> "none",
     h |-> <<"proto:" \o pattern, "prologue">> \o pre,
     ck |-> <<>>, n |-> 0,
     payload |-> payload,      \* responder: to send; initiator: received
     st |-> "run", at |-> 0]

MixHash(p, x) == [p EXCEPT !.h = Append(@, x)]
MixKey(p, x) == [p EXCEPT !.ck = Append(@, x), !.n = 0]
Abort(p, act) == [p EXCEPT !.st = "abort", !.at = act]

\* EncryptAndHash: returns <<p', ciphertext>>
Enc(p, pt) ==
    LET c == [ck |-> p.ck, n |-> p.n, h |-> p.h, pt |-> pt] IN
    <<MixHash([p EXCEPT !.n = @ + 1], c), c>>

CanOpen(p, c) == ~IsJunk(c) /\ DOMAIN c = {"ck", "n", "h", "pt"}
                 /\ c.ck = p.ck /\ c.n = p.n /\ c.h = p.h
\* DecryptAndHash on success
Dec(p, c) == MixHash([p EXCEPT !.n = @ + 1], c)

\* p.s names the static key the party presents (its public half enters the
\* transcript), p.sk the private key it actually computes with: the same for
\* an honest party, different for one that claims somebody else's public key
DhTerm(p, tok) ==
    IF tok = "ee" THEN Dh(p.re, p.e)
    ELSE IF tok = "ss" THEN Dh(p.rs, p.sk)
    ELSE IF tok = "es" THEN (IF p.init THEN Dh(p.rs, p.e) ELSE Dh(p.re, p.sk))
    ELSE (IF p.init THEN Dh(p.re, p.sk) ELSE Dh(p.rs, p.e))     \* "se"

---------------------------------------------------------------------------
(* writing an act: the result is <<p', fields>> *)

RECURSIVE WriteTokens(_, _, _)
WriteTokens(p, toks, fields) ==
    IF toks = <<>> THEN <<p, fields>>
    ELSE LET t == Head(toks) IN
         IF t = "e" THEN WriteTokens(MixHash(p, p.e), Tail(toks),
                                     Append(fields, [key |-> p.e]))
         ELSE IF t = "me"
         THEN WriteTokens(MixHash(p, p.e), Tail(toks),
                          Append(fields, [m |-> p.e, pw |-> p.pw]))
         ELSE IF t = "s"
         THEN LET r == Enc(p, p.s) IN
              WriteTokens(r[1], Tail(toks), Append(fields, r[2]))
         ELSE WriteTokens(MixKey(p, DhTerm(p, t)), Tail(toks), fields)

\* the fixed-size act-2 field of version 0 holds at most 498 payload bytes
FixedField(pl) == IF pl.big THEN [id |-> pl.id, big |-> TRUE, cut |-> TRUE] ELSE pl

\* writeMsgPattern: [p, act (wire record), err]
WriteAct(p, act) ==
    LET r == WriteTokens(p, Tokens(p.pattern, act), <<>>)
        q == r[1]
        f == r[2]
        pl == IF act = 2 THEN p.payload ELSE [id |-> "empty", big |-> FALSE] IN
    IF p.ver = 0
    THEN IF act = 2 /\ pl.big /\ ~V0Truncates
         THEN [p |-> Abort(q, act), act |-> <<>>, err |-> TRUE]
         ELSE LET e1 == Enc(q, IF act = 2 THEN FixedField(pl) ELSE pl) IN
              [p |-> e1[1], err |-> FALSE,
               act |-> [ver |-> p.ver, fields |-> Append(f, e1[2]),
                        framing |-> IF act = 2 THEN "fixed" ELSE "tag"]]
    ELSE IF act = 2
    THEN LET e1 == Enc(q, [len |-> pl.id])
             e2 == Enc(e1[1], pl) IN
         [p |-> e2[1], err |-> FALSE,
          act |-> [ver |-> p.ver, fields |-> f \o <<e1[2], e2[2]>>,
                   framing |-> "prefixed"]]
    ELSE LET e1 == Enc(q, pl) IN
         [p |-> e1[1], err |-> FALSE,
          act |-> [ver |-> p.ver, fields |-> Append(f, e1[2]), framing |-> "tag"]]

---------------------------------------------------------------------------
(* reading an act *)

Unmask(f, pw) == IF IsJunk(f) THEN "junkpoint"
                 ELSE IF f.pw = pw THEN f.m
                 ELSE "bogus(" \o f.m \o "," \o f.pw \o "," \o pw \o ")"

RECURSIVE ReadTokens(_, _, _, _)
\* returns [p, rest, ok]
ReadTokens(p, toks, fields, act) ==
    IF toks = <<>> THEN [p |-> p, rest |-> fields, ok |-> TRUE]
    ELSE LET t == Head(toks) IN
         IF t \in {"e", "me", "s"} /\ fields = <<>>
         THEN [p |-> p, rest |-> <<>>, ok |-> FALSE]
         ELSE IF t = "e"
         THEN LET x == IF IsJunk(Head(fields)) THEN "junkpoint" ELSE Head(fields).key IN
              ReadTokens(MixHash([p EXCEPT !.re = x], x), Tail(toks), Tail(fields), act)
         ELSE IF t = "me"
         THEN LET x == Unmask(Head(fields), p.pw) IN
              ReadTokens(MixHash([p EXCEPT !.re = x], x), Tail(toks), Tail(fields), act)
         ELSE IF t = "s"
         THEN IF CanOpen(p, Head(fields))
              THEN ReadTokens([Dec(p, Head(fields)) EXCEPT !.rs = Head(fields).pt],
                              Tail(toks), Tail(fields), act)
              ELSE [p |-> p, rest |-> <<>>, ok |-> FALSE]
         ELSE ReadTokens(MixKey(p, DhTerm(p, t)), Tail(toks), fields, act)

\* readMsgPattern on the wire record w (after the relay had its way with it)
ReadAct(p, act, w) ==
    LET verOK == IF act \in {1, 2} THEN p.minV <= w.ver /\ w.ver <= p.maxV
                 ELSE w.ver = p.ver
        p1 == IF act \in {1, 2} /\ p.init /\ verOK THEN [p EXCEPT !.ver = w.ver] ELSE p
    IN
    IF ~verOK \/ w.ver \notin {0, 1, 2} THEN Abort(p, act)
    ELSE LET r == ReadTokens(p1, Tokens(p.pattern, act), w.fields, act) IN
         IF ~r.ok THEN Abort(r.p, act)
         \* the payload is parsed according to the version byte on the wire
         ELSE IF act = 2 /\ Framing(w.ver) # w.framing THEN Abort(r.p, act)
         ELSE IF act = 2 /\ w.framing = "prefixed"
         THEN IF Len(r.rest) = 2 /\ CanOpen(r.p, r.rest[1])
                 /\ CanOpen(Dec(r.p, r.rest[1]), r.rest[2])
              THEN [Dec(Dec(r.p, r.rest[1]), r.rest[2]) EXCEPT
                        !.payload = r.rest[2].pt]
              ELSE Abort(r.p, act)
         ELSE IF Len(r.rest) = 1 /\ CanOpen(r.p, r.rest[1])
         THEN LET q == Dec(r.p, r.rest[1]) IN
              IF act = 2 THEN [q EXCEPT !.payload = r.rest[1].pt] ELSE q
         ELSE Abort(r.p, act)

---------------------------------------------------------------------------
(* the relay: substitute the version byte, corrupt one field *)

Tamper(w, verSub, corruptField) ==
    LET w1 == IF verSub >= 0 THEN [w EXCEPT !.ver = verSub] ELSE w IN
    IF corruptField >= 1 /\ corruptField <= Len(w.fields)
    THEN [w1 EXCEPT !.fields[corruptField] = Junk] ELSE w1

---------------------------------------------------------------------------
(* one complete handshake as a function of the case *)

\* c: [pattern, cMin, cMax, sMin, sMax, pwEq, iExpect, rExpect, payload,
\*     verSub (seq of 3), corruptAct, corruptField]
ConfigOK(c) == c.pattern = XX \/ (c.cMax >= 2 /\ c.sMax >= 2)

\* imp = 1: the initiator presents the paired client's public key without
\* holding its private key
Imp(c) == "imp" \in DOMAIN c /\ c.imp = 1
I0(c) == NewParty(TRUE, c.pattern, c.cMin, c.cMax, "sI", IF Imp(c) THEN "sZ" ELSE "sI", "eI", "pw1",
                  IF c.pattern = KK THEN c.iExpect ELSE "none",
                  [id |-> "none", big |-> FALSE])
R0(c) == NewParty(FALSE, c.pattern, c.sMin, c.sMax, "sR", "sR", "eR",
                  IF c.pwEq THEN "pw1" ELSE "pw2",
                  IF c.pattern = KK THEN c.rExpect ELSE "none", c.payload)

Tam(c, act, w) == Tamper(w, c.verSub[act],
                         IF c.corruptAct = act THEN c.corruptField ELSE 0)

Done(p) == [p EXCEPT !.st = "done"]

\* returns [i, r, wrote2, wrote3]
Run(c) ==
    LET w1 == WriteAct(I0(c), 1)
        r1 == ReadAct(R0(c), 1, Tam(c, 1, w1.act)) IN
    IF r1.st = "abort"
    THEN [i |-> Abort(w1.p, 2), r |-> r1, wrote2 |-> FALSE, wrote3 |-> FALSE]
    ELSE LET w2 == WriteAct(r1, 2) IN
         IF w2.err
         THEN [i |-> Abort(w1.p, 2), r |-> w2.p, wrote2 |-> FALSE, wrote3 |-> FALSE]
         ELSE LET i2 == ReadAct(w1.p, 2, Tam(c, 2, w2.act)) IN
              IF i2.st = "abort"
              THEN [i |-> i2,
                    r |-> IF c.pattern = KK THEN Done(w2.p) ELSE Abort(w2.p, 3),
                    wrote2 |-> TRUE, wrote3 |-> FALSE]
              ELSE IF c.pattern = KK
              THEN [i |-> Done(i2), r |-> Done(w2.p), wrote2 |-> TRUE, wrote3 |-> FALSE]
              ELSE LET w3 == WriteAct(i2, 3)
                       r3 == ReadAct(w2.p, 3, Tam(c, 3, w3.act)) IN
                   [i |-> Done(w3.p),
                    r |-> IF r3.st = "abort" THEN r3 ELSE Done(r3),
                    wrote2 |-> TRUE, wrote3 |-> TRUE]

\* what an observer of the two real endpoints can see
Outcome(c) ==
    IF ~ConfigOK(c) THEN [newErr |-> TRUE]
    ELSE LET x == Run(c)
             both == x.i.st = "done" /\ x.r.st = "done" IN
         [newErr |-> FALSE,
          iDone |-> x.i.st = "done", rDone |-> x.r.st = "done",
          wrote2 |-> x.wrote2, wrote3 |-> x.wrote3,
          iVer |-> IF x.i.st = "done" THEN x.i.ver ELSE -1,
          rVer |-> IF x.r.st = "done" THEN x.r.ver ELSE -1,
          keysAgree |-> both /\ x.i.ck = x.r.ck /\ x.i.h = x.r.h,
          iRsOK |-> x.i.st = "done" /\ x.i.rs = "sR",
          rRsOK |-> x.r.st = "done" /\ x.r.rs = "sI",
          payloadOK |-> x.i.st = "done" /\ x.i.payload = c.payload]

---------------------------------------------------------------------------
(* Properties *)

Authorised(c) == IF c.pattern = XX THEN c.pwEq
                 ELSE c.iExpect = "sR" /\ c.rExpect = "sI" /\ ~Imp(c)

\* C03: a handshake completes (on either side) only between authorised parties
CompleteOnlyIfAuthorised(c) ==
    LET o == Outcome(c) IN
    ~o.newErr => ((o.iDone \/ o.rDone) => Authorised(c))

\* C03: on a mismatch the responder emits nothing (so the auth payload, which
\* travels in act 2, is never released)
NoResponseOnMismatch(c) ==
    LET o == Outcome(c) IN
    (~o.newErr /\ ~Authorised(c)) => ~o.wrote2

\* C04: two parties that both complete hold the same view
Agreement(c) ==
    LET o == Outcome(c) IN
    (~o.newErr /\ o.iDone /\ o.rDone) =>
        /\ o.iVer = o.rVer
        /\ o.keysAgree /\ o.iRsOK /\ o.rRsOK /\ o.payloadOK

\* the version-byte confusion the protocol admits (named deviation
\* DevVersionByteUnauthenticated): both complete, every key and the payload
\* agree, only the version differs, and only between 1 and 2
IsVersionConfusion(c) ==
    LET o == Outcome(c) IN
    /\ ~o.newErr /\ o.iDone /\ o.rDone
    /\ o.iVer # o.rVer /\ {o.iVer, o.rVer} = {1, 2}
    /\ o.keysAgree /\ o.iRsOK /\ o.rRsOK /\ o.payloadOK

AgreementModuloKnown(c) == Agreement(c) \/ IsVersionConfusion(c)
=============================================================================
