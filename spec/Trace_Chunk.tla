----------------------------- MODULE Trace_Chunk -----------------------------
(***************************************************************************)
(* C14: Send / Recv calls of real GoBackNConn pairs with chunking, against  *)
(* GBNChunk's OneSendOneRecv: the successful Recv results are, in order,    *)
(* the successfully sent messages, byte for byte (length and a hash of the  *)
(* content are logged).                                                     *)
(*  {"op":"new","scenario":s,"M":m}                                         *)
(*  {"op":"send","m":id,"len":L,"h":hash,"err":""|...}   a Send returned    *)
(*  {"op":"recv","len":L,"h":hash,"err":""|...}          a Recv returned    *)
(*  {"op":"end","quiet":0|1}   quiet: nothing in flight, all calls returned *)
(***************************************************************************)
EXTENDS Integers, Sequences, Json, TLC

CONSTANT TraceFile
Trace == ndJsonDeserialize(TraceFile)

VARIABLES l, oks, recvs
Ev == Trace[l]
Is(o) == l <= Len(Trace) /\ Trace[l].op = o
Adv == l' = l + 1

TNew == Is("new") /\ Adv /\ oks' = <<>> /\ recvs' = <<>>

TSend == /\ Is("send") /\ Adv /\ UNCHANGED recvs
         /\ oks' = IF Ev.err = "" THEN Append(oks, <<Ev.len, Ev.h>>) ELSE oks

\* a Recv result must be the next successfully sent message.  (The Send call
\* of a message returns before its last packet can reach the peer, so the
\* message is already in oks.)
TRecv == /\ Is("recv") /\ Adv /\ UNCHANGED oks
         /\ IF Ev.err # "" THEN UNCHANGED recvs
            ELSE /\ Len(recvs) < Len(oks)
                 /\ oks[Len(recvs) + 1] = <<Ev.len, Ev.h>>
                 /\ recvs' = Append(recvs, <<Ev.len, Ev.h>>)

\* the messages the application kept still read as they did when returned
TKept == /\ Is("kept") /\ Adv /\ UNCHANGED <<oks, recvs>> /\ Ev.bad = 0

TEnd == /\ Is("end") /\ Adv /\ UNCHANGED <<oks, recvs>>
        /\ Ev.quiet = 1 => Len(recvs) = Len(oks)

TraceNext == TNew \/ TSend \/ TRecv \/ TKept \/ TEnd
TraceSpec == l = 1 /\ oks = <<>> /\ recvs = <<>> /\ [][TraceNext]_<<l, oks, recvs>>
TraceAccepted ==
    LET d == TLCGet("stats").diameter IN
    IF d - 1 = Len(Trace) THEN TRUE
    ELSE Print(<<"TRACE_REJECTED_AT_LINE", d, "OF", Len(Trace)>>, FALSE)
=============================================================================
