------------------------------ MODULE Listener ------------------------------
(***************************************************************************)
(* The TCP listener of the Noise layer (mailbox/tcp_noise_listner.go): the  *)
(* listen loop takes a handshake token and blocks in tcp.Accept, every      *)
(* accepted socket gets a goroutine that runs the responder handshake       *)
(* (doHandshake) and offers the result - the secured connection or an error *)
(* - on the unbuffered conns channel to whoever calls Accept; Close closes  *)
(* quit and the TCP listener.                                               *)
(*                                                                          *)
(*   listen        select{token, quit} -> tcp.Accept -> go doHandshake      *)
(*                 (an Accept error is offered as a result, token returned) *)
(*   doHandshake   quit? -> handshake (5 s read deadline) -> quit? ->       *)
(*                 acceptConn / rejectConn: select{conns <- result, quit}   *)
(*                 token returned on every path (defer)                     *)
(*   Accept        select{<-conns, quit}                                    *)
(*   Close         close(quit) unless closed; tcp.Close                     *)
(*                                                                          *)
(* One action per select branch / blocking call.  Peers in Good hold the    *)
(* passphrase; the others present a wrong one, garbage, or nothing at all   *)
(* (the read deadline ends their handshake).  That a handshake completes    *)
(* only for a peer in Good is Noise.tla's result (C03), taken as given      *)
(* here.                                                                    *)
(***************************************************************************)
EXTENDS Naturals, FiniteSets, Sequences

CONSTANTS Peers, Good, Callers, H,
          MaxCalls    \* Accept calls altogether (model bound)

VARIABLES
    sema,     \* handshake tokens in the semaphore
    lpc,      \* listen loop: "sema" | "tcp" | "rej" (offering an Accept error) | "exit"
    hs,       \* [peer -> "no" | "queued" | "run" | "offerOk" | "offerErr" | "done"]
    acc,      \* [caller -> "idle" | "wait"]
    quit, tcpOpen,
    ret       \* history: what Accept calls returned, in order:
              \* <<"conn", p>> | <<"err", p>> | <<"err", "tcp">> | <<"closed">>

vars == <<sema, lpc, hs, acc, quit, tcpOpen, ret>>

Init == /\ sema = H /\ lpc = "sema"
        /\ hs = [p \in Peers |-> "no"]
        /\ acc = [c \in Callers |-> "idle"]
        /\ quit = FALSE /\ tcpOpen = TRUE /\ ret = <<>>

Holding == {p \in Peers : hs[p] \in {"run", "offerOk", "offerErr"}}

\* a peer's TCP connection is established (kernel backlog)
Connect(p) == /\ hs[p] = "no" /\ tcpOpen
              /\ hs' = [hs EXCEPT ![p] = "queued"]
              /\ UNCHANGED <<sema, lpc, acc, quit, tcpOpen, ret>>

\* ---- the listen loop ---------------------------------------------------
LTake == /\ lpc = "sema" /\ sema > 0
         /\ sema' = sema - 1 /\ lpc' = "tcp"
         /\ UNCHANGED <<hs, acc, quit, tcpOpen, ret>>
LQuit == /\ lpc = "sema" /\ quit /\ lpc' = "exit"
         /\ UNCHANGED <<sema, hs, acc, quit, tcpOpen, ret>>
LAccept(p) == /\ lpc = "tcp" /\ tcpOpen /\ hs[p] = "queued"
              /\ hs' = [hs EXCEPT ![p] = "run"] /\ lpc' = "sema"
              /\ UNCHANGED <<sema, acc, quit, tcpOpen, ret>>
\* tcp.Accept fails once the TCP listener is closed: the error is offered
LAcceptErr == /\ lpc = "tcp" /\ ~tcpOpen /\ lpc' = "rej"
              /\ UNCHANGED <<sema, hs, acc, quit, tcpOpen, ret>>
LRejDeliver(c) == /\ lpc = "rej" /\ acc[c] = "wait"
                  /\ acc' = [acc EXCEPT ![c] = "idle"] /\ ret' = Append(ret, <<"err", "tcp">>)
                  /\ sema' = sema + 1 /\ lpc' = "sema"
                  /\ UNCHANGED <<hs, quit, tcpOpen>>
LRejQuit == /\ lpc = "rej" /\ quit /\ sema' = sema + 1 /\ lpc' = "sema"
            /\ UNCHANGED <<hs, acc, quit, tcpOpen, ret>>

\* ---- doHandshake -------------------------------------------------------
\* quit seen before the handshake, or between it and the offer: the goroutine
\* ends, token back (the socket is not closed: left to the finalizer)
HsQuit(p) == /\ hs[p] = "run" /\ quit
             /\ hs' = [hs EXCEPT ![p] = "done"] /\ sema' = sema + 1
             /\ UNCHANGED <<lpc, acc, quit, tcpOpen, ret>>
\* the handshake ends: completed for a peer that holds the passphrase, an
\* error (wrong secret, garbage, read deadline) for any other
HsEnd(p) == /\ hs[p] = "run"
            /\ hs' = [hs EXCEPT ![p] = IF p \in Good THEN "offerOk" ELSE "offerErr"]
            /\ UNCHANGED <<sema, lpc, acc, quit, tcpOpen, ret>>
\* the result is taken by an Accept call
Deliver(p, c) ==
    /\ hs[p] \in {"offerOk", "offerErr"} /\ acc[c] = "wait"
    /\ acc' = [acc EXCEPT ![c] = "idle"]
    /\ ret' = Append(ret, <<IF hs[p] = "offerOk" THEN "conn" ELSE "err", p>>)
    /\ hs' = [hs EXCEPT ![p] = "done"] /\ sema' = sema + 1
    /\ UNCHANGED <<lpc, quit, tcpOpen>>
OfferQuit(p) == /\ hs[p] \in {"offerOk", "offerErr"} /\ quit
                /\ hs' = [hs EXCEPT ![p] = "done"] /\ sema' = sema + 1
                /\ UNCHANGED <<lpc, acc, quit, tcpOpen, ret>>

\* ---- Accept / Close ----------------------------------------------------
ACall(c) == /\ acc[c] = "idle" /\ Len(ret) + Cardinality({d \in Callers : acc[d] = "wait"}) < MaxCalls
            /\ acc' = [acc EXCEPT ![c] = "wait"]
            /\ UNCHANGED <<sema, lpc, hs, quit, tcpOpen, ret>>
AQuit(c) == /\ acc[c] = "wait" /\ quit
            /\ acc' = [acc EXCEPT ![c] = "idle"] /\ ret' = Append(ret, <<"closed">>)
            /\ UNCHANGED <<sema, lpc, hs, quit, tcpOpen>>
Close == /\ quit' = TRUE /\ tcpOpen' = FALSE
         /\ UNCHANGED <<sema, lpc, hs, acc, ret>>

Next == \/ \E p \in Peers : Connect(p) \/ LAccept(p) \/ HsQuit(p) \/ HsEnd(p) \/ OfferQuit(p)
        \/ \E p \in Peers, c \in Callers : Deliver(p, c)
        \/ \E c \in Callers : ACall(c) \/ AQuit(c) \/ LRejDeliver(c)
        \/ LTake \/ LQuit \/ LAcceptErr \/ LRejQuit \/ Close

Spec == Init /\ [][Next]_vars
Fair == /\ WF_vars(LTake) /\ WF_vars(LQuit) /\ WF_vars(LAcceptErr) /\ WF_vars(LRejQuit)
        /\ \A p \in Peers : WF_vars(LAccept(p)) /\ WF_vars(HsEnd(p)) /\ WF_vars(OfferQuit(p))
        /\ \A c \in Callers : WF_vars(AQuit(c))
        \* the listen loop's select picks quit eventually although a token is there too
        /\ SF_vars(LQuit)
LiveSpec == Spec /\ Fair

----------------------------------------------------------------------------
TypeOK == /\ sema \in 0..H /\ lpc \in {"sema", "tcp", "rej", "exit"}
          /\ \A p \in Peers : hs[p] \in {"no", "queued", "run", "offerOk", "offerErr", "done"}
          /\ \A c \in Callers : acc[c] \in {"idle", "wait"}

\* tokens are neither lost nor made: at most H handshakes run at a time
SemaConserved ==
    sema + Cardinality(Holding) + (IF lpc \in {"tcp", "rej"} THEN 1 ELSE 0) = H

\* Accept hands out only connections whose handshake completed, i.e. of peers
\* that hold the passphrase, and each of them once
Conns == {i \in 1..Len(ret) : ret[i][1] = "conn"}
OnlyHandshaken == \A i \in Conns : ret[i][2] \in Good
AtMostOnce == \A i, j \in Conns : ret[i][2] = ret[j][2] => i = j
\* an error of a peer is reported at most once, and only for a peer that
\* does not hold the passphrase
ErrsOfPeers == \A i \in 1..Len(ret) :
    (ret[i][1] = "err" /\ ret[i][2] # "tcp") =>
        /\ ret[i][2] \in Peers \ Good
        /\ \A j \in 1..Len(ret) : (ret[j][1] = "err" /\ ret[j][2] = ret[i][2]) => i = j
\* "closed" and Accept errors of the TCP listener only after Close
ClosedOnlyAfterClose == \A i \in 1..Len(ret) :
    (ret[i] = <<"closed">> \/ ret[i] = <<"err", "tcp">>) => quit

\* after Close nothing lingers: the listen loop exits, every handshake
\* goroutine ends, every blocked Accept returns
Drained == lpc = "exit" /\ Holding = {} /\ sema = H
NoLingering == quit ~> Drained
AcceptWakes == \A c \in Callers : (quit /\ acc[c] = "wait") ~> acc[c] = "idle"
=============================================================================
