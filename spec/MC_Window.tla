---------------------------- MODULE MC_Window ----------------------------
(* Exhaustive check of the window arithmetic: every (s, base, top, wire    *)
(* value) tuple is one initial state; the invariants are the arithmetic's  *)
(* safety lemmas.                                                          *)
EXTENDS Window, TLC
CONSTANTS SVals,     \* set of sequence-space sizes to enumerate
          QVals,     \* set of wire values (besides 0..s+1)
          Dev        \* TRUE: check the unguarded (pinned) arithmetic
VARIABLES s, b, t, q, k   \* k: "ack" or "nack"

Init == /\ s \in SVals
        /\ b \in 0..(s-1)
        /\ t \in 0..(s-1)
        /\ q \in (0..(s+1)) \cup QVals
        /\ k \in {"ack", "nack"}
Next == UNCHANGED <<s, b, t, q, k>>

Safe == IF Dev
        THEN (IF k = "ack" THEN DevAckSafe(b, t, q, s) ELSE DevNackSafe(b, t, q, s))
        ELSE (IF k = "ack" THEN AckSafe(b, t, q, s) ELSE NackSafe(b, t, q, s))
SizeBound == QSize(b, t, s) <= s - 1
=============================================================================
