--------------------------- MODULE Trace_Session ---------------------------
(***************************************************************************)
(* C11: traces of real mailbox sessions (harness/lncrun: the real           *)
(* mailbox.Server / mailbox.Client / ServerConn / ClientConn / GBN /        *)
(* NoiseGrpcConn over the in-process relay) validated against Session.tla.  *)
(*                                                                          *)
(* Lines (one recorder per session, concatenated with reset lines):         *)
(*   reset {prepaired, v1}   a new session starts                           *)
(*   acceptCall | dialCall {who}             Accept / Dial entered          *)
(*   acceptRet | dialRet {who, err, conn, sid, prevOpen}                    *)
(*   hsRet {side, conn, err, pattern, version, paired}   Noise handshake    *)
(*   tag {conn, peer}        the server end learnt which client conn it has *)
(*   closeCall {side, conn}  the owner is about to close the connection     *)
(*   relay {op, sid}         newbox / delbox seen by the relay              *)
(*   shutdown                the harness tears the session down             *)
(* Accept's and Dial's internal steps (Wake, SidStep) and the server's key  *)
(* bookkeeping are not logged: they are silent steps of the trace spec.     *)
(* Acceptance: the high-water mark of consumed lines reaches the end.       *)
(***************************************************************************)
EXTENDS Session, Json

CONSTANT TraceFile
Trace == ndJsonDeserialize(TraceFile)

VARIABLES l,        \* next line
          idOf,     \* harness conn id -> model conn id
          rboxes,   \* streams whose mailbox exists, from the relay's events
          off       \* TRUE after shutdown: lines are skipped until reset
tvars == <<vars, l, idOf, rboxes, off>>

Ev == Trace[l]
Is(e) == l <= Len(Trace) /\ Ev.ev = e
Adv == l' = l + 1
Who == IF Ev.ev \in {"acceptCall", "acceptRet"} THEN Srv ELSE Ev.who

TraceInit == Init /\ v2 /\ remote = RemoteAt(FALSE) /\ l = 1 /\ idOf = <<>> /\ rboxes = {} /\ off = FALSE

\* the model has no step for these lines
Skipped == {"relay", "srvStatus", "read", "readErr", "writeCall", "writeRet", "writeErr",
            "closeRet", "harnessNote", "cfg", "pause", "resume", "relayFault", "note",
            "expect", "kitWrite", "faultsEnd", "end"}

TReset ==
    /\ Is("reset") /\ Adv
    /\ remote' = RemoteAt(Ev.prepaired = 1) /\ psid' = PsidAt(Ev.prepaired = 1)
    /\ mc' = [p \in Parties |-> 0] /\ pc' = [p \in Parties |-> "idle"]
    /\ conns' = <<>> /\ nConns' = 0 /\ boxes' = {} /\ closes' = 0 /\ everUp' = {}
    /\ v2' = (Ev.v1 = 0)
    /\ idOf' = <<>> /\ rboxes' = {} /\ off' = FALSE

TShutdown == /\ Is("shutdown") /\ Adv /\ off' = TRUE
             /\ UNCHANGED <<vars, idOf, rboxes>>
TOff == /\ off /\ l <= Len(Trace) /\ Ev.ev # "reset" /\ Adv
        /\ UNCHANGED <<vars, idOf, rboxes, off>>

TSkip == /\ ~off /\ l <= Len(Trace) /\ Ev.ev \in Skipped /\ Adv
         \* whatever a handed-out connection delivers is its peer's stream
         /\ Ev.ev = "read" => Ev.ok = 1
         /\ IF Ev.ev = "relay" /\ Ev.op = "newbox" /\ Ev.err = "" THEN rboxes' = rboxes \cup {Ev.sid}
            ELSE IF Ev.ev = "relay" /\ Ev.op = "delbox" /\ Ev.err = "" THEN rboxes' = rboxes \ {Ev.sid}
            ELSE UNCHANGED rboxes
         /\ UNCHANGED <<vars, idOf, off>>

TCall == /\ ~off /\ (Is("acceptCall") \/ Is("dialCall")) /\ Adv
         /\ Call(Who)
         /\ UNCHANGED <<idOf, rboxes, off>>

\* the rendezvous named by the stream ids the connection presents
Rdv(sidpair) == IF sidpair \in {"P.c2s/P", "P/P.c2s"} THEN "P"
                ELSE IF sidpair \in {"K.c2s/K", "K/K.c2s"} THEN "Kc"
                ELSE IF sidpair \in {"KX.c2s/KX", "KX/KX.c2s"} THEN "Kx" ELSE "?"
RdvOfStream(s) == IF s \in {"P", "P.c2s"} THEN "P" ELSE IF s \in {"K", "K.c2s"} THEN "Kc"
                  ELSE IF s \in {"KX", "KX.c2s"} THEN "Kx" ELSE "?"

TRetOk ==
    /\ ~off /\ (Is("acceptRet") \/ Is("dialRet")) /\ Ev.err = "" /\ Adv
    /\ Ev.prevOpen = 0
    /\ IF Ev.ev = "acceptRet"
       THEN \E cc \in 0..nConns : SAcceptRet(cc)
       ELSE CDialRet(Ev.who)
    /\ conns'[nConns'].sid = Rdv(Ev.sid)        \* the rendezvous the code really used
    \* the other end, if it has been handed out already, is the latest
    \* connection of the other side that is still open and unpaired (keeps
    \* the validation linear; the tag line checks the pairing)
    /\ LET me == conns'[nConns'].owner
           cands == {i \in 1..nConns : /\ conns[i].peer = 0 /\ conns[i].st = "open"
                                       /\ conns[i].sid = Rdv(Ev.sid)
                                       /\ (conns[i].owner = Srv) # (me = Srv)} IN
       conns'[nConns'].peer = IF cands = {} THEN 0
                              ELSE CHOOSE i \in cands : \A j \in cands : j <= i
    /\ idOf' = idOf @@ (Ev.conn :> nConns')
    \* the relay holds no mailbox of a rendezvous the server has left
    /\ \A b \in rboxes : RdvOfStream(b) \in boxes'
    /\ UNCHANGED <<rboxes, off>>

TRetErr ==
    /\ ~off /\ (Is("acceptRet") \/ Is("dialRet")) /\ Ev.err # "" /\ Adv
    /\ IF Ev.err = "harness: patience exceeded"
       THEN UNCHANGED vars          \* the call is still blocked
       ELSE ConnErr(Who)
    /\ UNCHANGED <<idOf, rboxes, off>>

TTag == /\ ~off /\ Is("tag") /\ Adv
        /\ Ev.conn \in DOMAIN idOf /\ Ev.peer \in DOMAIN idOf
        /\ conns[idOf[Ev.conn]].peer = idOf[Ev.peer]
        /\ UNCHANGED <<vars, idOf, rboxes, off>>

THsOk ==
    /\ ~off /\ Is("hsRet") /\ Ev.err = "" /\ Adv
    /\ Ev.conn \in DOMAIN idOf
    /\ LET i == idOf[Ev.conn] IN
       /\ conns[i].pat = (IF Ev.pattern = "KK" THEN "KK" ELSE "XX")
       /\ v2 = (Ev.version >= 2)
       /\ IF Ev.side = Srv
          THEN IF conns[i].noise = "up" THEN UNCHANGED vars    \* reported by HsBothDoneKK
               ELSE HsServerDone(i) \/ HsBothDone(i)
          ELSE IF conns[i].noise = "up" THEN UNCHANGED vars    \* reported by HsBothDone
          ELSE HsClientDone(i) \/ HsBothDoneKK(i)
       /\ (remote'[Ev.side] # None) = (Ev.paired = 1)
    /\ UNCHANGED <<idOf, rboxes, off>>

\* a failed handshake has no step of its own: the close that follows has
THsErr ==
    /\ ~off /\ Is("hsRet") /\ Ev.err # "" /\ Adv
    /\ Ev.conn \in DOMAIN idOf
    /\ LET i == idOf[Ev.conn] IN
       /\ conns[i].pat = (IF Ev.pattern = "KK" THEN "KK" ELSE "XX")
       \* ... unless the failing client reports that it now holds the
       \* server's key: its handshake ran to the end and the auth-data
       \* callback refused the payload (HsClientRejects)
       /\ IF Ev.side # Srv /\ Ev.paired = 1 /\ remote[Ev.side] = None
          THEN HsClientRejects(i)
          ELSE UNCHANGED vars
       \* a failed handshake leaves the party with exactly the key the
       \* specification says it holds
       /\ (remote'[Ev.side] # None) = (Ev.paired = 1)
    /\ UNCHANGED <<idOf, rboxes, off>>

TClose ==
    /\ ~off /\ Is("closeCall") /\ Adv
    /\ Ev.conn \in DOMAIN idOf
    /\ LET i == idOf[Ev.conn] IN
       IF IsOpen(i) THEN Close(i) \/ HsFail(i) ELSE UNCHANGED vars
    /\ UNCHANGED <<idOf, rboxes, off>>

\* unlogged internal steps
TSilent ==
    /\ ~off /\ \E p \in Parties : Wake(p) \/ SidStep(p)
    /\ UNCHANGED <<l, idOf, rboxes, off>>

TraceNext == TReset \/ TShutdown \/ TOff \/ TSkip \/ TCall \/ TRetOk \/ TRetErr \/ TTag
             \/ THsOk \/ THsErr \/ TClose \/ TSilent
TraceSpec == TraceInit /\ [][TraceNext]_tvars

\* high-water mark of consumed lines (needs -workers 1)
HW == IF l > TLCGet(1) THEN TLCSet(1, l) ELSE TRUE
ASSUME TLCSet(1, 0)
TraceAccepted ==
    IF TLCGet(1) = Len(Trace) + 1 THEN TRUE
    ELSE Print(<<"TRACE_REJECTED_AT_LINE", TLCGet(1), "OF", Len(Trace)>>, FALSE)
\* the safety properties of Session.tla, evaluated in every state of the trace
=============================================================================
