CONSTANTS
  SVals = {2,3,4,5,6,21}
  QVals = {100,254,255}
  Dev = FALSE
INIT Init
NEXT Next
INVARIANTS Safe SizeBound
CHECK_DEADLOCK FALSE
