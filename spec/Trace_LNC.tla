----------------------------- MODULE Trace_LNC -----------------------------
(***************************************************************************)
(* C05: traces of one real secured connection through the harness relay    *)
(* (harness/lncrun) validated against LNC.tla.                             *)
(*                                                                         *)
(* Lines:                                                                  *)
(*   reset                       a new session                             *)
(*   writeCall {side, pos, len}  the application calls Write               *)
(*   kitWrite {side, len}        the Noise layer writes one control        *)
(*                               message to the connection below (logged   *)
(*                               before the call): a handshake act, a      *)
(*                               record header or a record body            *)
(*   writeRet {side, err}                                                  *)
(*   relay {op, sid, kind, seq, ping, len, plain}                          *)
(*        op = msg      the relay received a message (it sees it)          *)
(*             enq      ... and queued it on the stream                    *)
(*             drop     ... or dropped it                                  *)
(*             deliver  the head of the stream queue went to the reader    *)
(*        plain = 1     the relay's leak detector matched (application     *)
(*                      plaintext, auth data, passphrase entropy, a static *)
(*                      key)                                               *)
(*   read {side, pos, len, buf, ok}   Read returned len bytes; ok: they    *)
(*                               are the bytes at pos of the peer's stream *)
(*   readErr {side}              Read failed: the connection is down       *)
(*   end {complete}              the harness's verdict on completion       *)
(* GBN sequence numbers identify packets: the k-th message handed to GBN   *)
(* in a direction (pings included) carries seq (k-1) mod S.                *)
(* The reader's internal steps are silent.  Acceptance by high-water mark. *)
(***************************************************************************)
EXTENDS LNC, Json

CONSTANTS TraceFile, S      \* S = window + 1 = size of the sequence space
Trace == ndJsonDeserialize(TraceFile)

VARIABLES l, off,
          cid,       \* <<client conn id, server conn id>> of the connection under
                     \* observation (from the reset line) and whether it has started
          nextSeq,   \* [Dirs -> seq the next new packet will carry]
          sent,      \* [Dirs -> messages transmitted at least once]
          assigned   \* [Dirs -> [seq -> index of the message carrying it, 0 = ping]]
tvars == <<vars, l, off, cid, nextSeq, sent, assigned>>

Ev == Trace[l]
Is(e) == l <= Len(Trace) /\ Ev.ev = e
Adv == l' = l + 1
Peer(x) == IF x = "s" THEN "c" ELSE "s"
DirOfSid(sid) == IF sid \in {"P.c2s", "K.c2s", "KX.c2s"} THEN "c" ELSE "s"
All(d) == got[d] \o inflight[d]
FreshT == /\ nextSeq' = [d \in Dirs |-> 0] /\ sent' = [d \in Dirs |-> 0]
          /\ assigned' = [d \in Dirs |-> [q \in 0..(S - 1) |-> 0]]

TraceInit == /\ Init /\ l = 1 /\ off = FALSE /\ cid = <<0, 0, FALSE>>
             /\ nextSeq = [d \in Dirs |-> 0] /\ sent = [d \in Dirs |-> 0]
             /\ assigned = [d \in Dirs |-> [q \in 0..(S - 1) |-> 0]]

KeepT == UNCHANGED <<cid, nextSeq, sent, assigned>>

FreshModel ==
    /\ up' = TRUE
    /\ writes' = [d \in Dirs |-> <<>>] /\ wpc' = [d \in Dirs |-> "idle"]
    /\ inflight' = [d \in Dirs |-> <<>>] /\ onRelay' = [d \in Dirs |-> <<>>]
    /\ stream' = [d \in Dirs |-> "ok"]
    /\ got' = [d \in Dirs |-> <<>>] /\ consumed' = [d \in Dirs |-> 0]
    /\ hdrSeen' = [d \in Dirs |-> FALSE]
    /\ plain' = [d \in Dirs |-> 0] /\ rd' = [d \in Dirs |-> 0]
    /\ seen' = {} /\ faults' = 0

\* The reset line (written when the session is over) names the connection pair
\* that was used: like gRPC the harness dials again when a connection dies
\* during its handshake, and only the last attempt is modelled.
TReset == /\ Is("reset") /\ Adv /\ off' = FALSE /\ FreshT /\ FreshModel
          /\ cid' = <<Ev.cconn, Ev.sconn, FALSE>>

HasConn == "conn" \in DOMAIN Ev
Mine == HasConn /\ Ev.conn \in {cid[1], cid[2]}
Started == cid[3]

\* the observed connection starts with the first Dial / Accept return of the pair
TStart == /\ ~off /\ ~Started /\ l <= Len(Trace) /\ Ev.ev \in {"dialRet", "acceptRet"} /\ Mine /\ Adv
          /\ cid' = <<cid[1], cid[2], TRUE>>
          /\ UNCHANGED <<vars, off, nextSeq, sent, assigned>>
\* lines before that, and lines of other connections, are not judged
TForeign == /\ ~off /\ l <= Len(Trace) /\ Ev.ev \notin {"reset", "end"} /\ Adv
            /\ ~Started \/ (HasConn /\ ~Mine)
            /\ ~(~Started /\ Ev.ev \in {"dialRet", "acceptRet"} /\ Mine)
            /\ UNCHANGED <<vars, off>> /\ KeepT
Cur == Started /\ (~HasConn \/ Mine)

\* after the connection went down (or the harness shut the session down)
\* nothing more is judged
TOff == /\ (off \/ ~up) /\ Started /\ l <= Len(Trace) /\ Ev.ev # "reset" /\ Ev.ev # "end" /\ Adv
        /\ UNCHANGED <<vars, off>> /\ KeepT
TShutdown == /\ up /\ ~off /\ Started /\ Is("shutdown") /\ Adv /\ off' = TRUE /\ UNCHANGED vars /\ KeepT

Live == up /\ ~off

Skipped == {"srvStatus", "closeRet", "harnessNote", "relayFault", "note", "expect", "tag",
            "acceptCall", "acceptRet", "dialCall", "dialRet", "hsRet", "faultsEnd"}
TSkip == /\ Live /\ Cur /\ l <= Len(Trace) /\ Ev.ev \in Skipped /\ Adv
         /\ UNCHANGED <<vars, off>> /\ KeepT

TWriteCall == /\ Live /\ Is("writeCall") /\ Cur /\ Adv
              /\ rd[Ev.side] >= 0 /\ Ev.pos = Written(Ev.side)
              /\ WriteBegin(Ev.side, Ev.len)
              /\ UNCHANGED off /\ KeepT

TKitWrite ==
    /\ Live /\ Is("kitWrite") /\ Cur /\ Adv
    /\ LET d == Ev.side IN
       IF wpc[d] = "hdr" THEN Ev.len = HDR /\ SendHdr(d)
       ELSE IF wpc[d] = "body" THEN Ev.len = writes[d][Len(writes[d])] + MAC /\ SendBody(d)
       ELSE HsSend(d, Ev.len)
    /\ UNCHANGED off /\ KeepT

\* a Write that failed: the connection is down
TWriteRet == /\ Live /\ Is("writeRet") /\ Cur /\ Adv
             /\ IF Ev.err = "" THEN wpc[Ev.side] = "idle" /\ UNCHANGED vars
                ELSE up' = FALSE /\ UNCHANGED <<writes, wpc, inflight, onRelay, stream, got,
                        consumed, hdrSeen, plain, rd, seen, faults>>
             /\ UNCHANGED off /\ KeepT

TDownEv == /\ Live /\ (Is("readErr") \/ Is("closeCall")) /\ Cur /\ Adv
           /\ up' = FALSE
           /\ UNCHANGED <<writes, wpc, inflight, onRelay, stream, got, consumed, hdrSeen, plain,
                          rd, seen, faults, off>> /\ KeepT

IsData == Ev.kind = 2 /\ Ev.ping = 0

\* index (in All(d)) of the message a DATA packet carries, by its seq
IdxOf(d) == IF Ev.seq = nextSeq[d] /\ sent[d] < Len(All(d)) THEN sent[d] + 1
            ELSE assigned[d][Ev.seq]

\* the relay saw a message: never anything it should not see
TRelaySee ==
    /\ Live /\ Started /\ Is("relay") /\ Ev.op \in {"msg", "drop"} /\ Adv
    /\ Ev.plain = 0
    /\ LET d == DirOfSid(Ev.sid) IN
       IF Ev.kind = 2
       THEN IF Ev.ping = 1
            THEN \* a keepalive ping takes a sequence number
                 /\ nextSeq' = IF Ev.seq = nextSeq[d] THEN [nextSeq EXCEPT ![d] = (@ + 1) % S]
                               ELSE nextSeq
                 /\ assigned' = IF Ev.seq = nextSeq[d] THEN [assigned EXCEPT ![d][Ev.seq] = 0]
                                ELSE assigned
                 /\ UNCHANGED <<sent, seen>>
            ELSE LET i == IdxOf(d) IN
                 /\ i \in 1..Len(All(d))
                 /\ All(d)[i].len + 9 = Ev.len        \* GBN header 4 + MsgData header 5
                 /\ seen' = seen \cup {All(d)[i].cls}
                 /\ IF Ev.seq = nextSeq[d] /\ sent[d] < Len(All(d))
                    THEN /\ nextSeq' = [nextSeq EXCEPT ![d] = (@ + 1) % S]
                         /\ sent' = [sent EXCEPT ![d] = @ + 1]
                         /\ assigned' = [assigned EXCEPT ![d][Ev.seq] = i]
                    ELSE KeepT
       ELSE UNCHANGED seen /\ KeepT
    /\ UNCHANGED <<up, writes, wpc, inflight, onRelay, stream, got, consumed, hdrSeen, plain,
                   rd, faults, off, cid>>

\* ... and queued it
TRelayEnq ==
    /\ Live /\ Started /\ Is("relay") /\ Ev.op = "enq" /\ Adv
    /\ LET d == DirOfSid(Ev.sid) IN
       IF IsData
       THEN LET i == assigned[d][Ev.seq] IN
            /\ i \in 1..Len(All(d)) /\ All(d)[i].len + 9 = Ev.len
            /\ IF i > Len(got[d]) THEN Transmit(d, i - Len(got[d])) ELSE Retransmit(d, i)
       ELSE UNCHANGED vars
    /\ UNCHANGED off /\ KeepT

TRelayDeliver ==
    /\ Live /\ Started /\ Is("relay") /\ Ev.op = "deliver" /\ Adv
    /\ LET d == DirOfSid(Ev.sid) IN
       IF IsData
       THEN /\ onRelay[d] # <<>> /\ Head(onRelay[d]).len + 9 = Ev.len
            /\ Deliver(d)
       ELSE UNCHANGED vars
    /\ UNCHANGED off /\ KeepT

TRelayOther ==
    /\ Live /\ Started /\ Is("relay") /\ Ev.op \notin {"msg", "drop", "enq", "deliver"} /\ Adv
    /\ UNCHANGED <<vars, off>> /\ KeepT

\* Read returned: the reader opened what it needed (silent steps) and hands
\* out the next bytes of the peer's stream
TRead ==
    /\ Live /\ Is("read") /\ Cur /\ Adv
    /\ LET d == Peer(Ev.side) IN
       /\ Ev.ok = 1 /\ Ev.pos = rd[d]
       /\ AppRead(d, Ev.buf)
       /\ rd'[d] = rd[d] + Ev.len
    /\ UNCHANGED off /\ KeepT

TSilent == /\ Live /\ \E d \in Dirs : ReadHs(d) \/ ReadHdr(d) \/ ReadBody(d)
           /\ UNCHANGED <<l, off>> /\ KeepT

\* the harness's verdict.  A connection that is up at the end has completed
\* its transfer (everything written was read); a transfer the harness found
\* incomplete belongs to a connection that went down visibly.  (A connection
\* may also complete its transfer and go down afterwards, before the harness
\* takes stock - a stream break just before the end of the fault period that
\* the keepalive turns into a closure: complete = 1 with the connection down
\* is accepted; its reads were checked line by line while it was up.)
TEnd == /\ Is("end") /\ Adv
        /\ (Ev.complete = 0) => ~(up /\ Started)
        /\ (up /\ Started) => (Ev.complete = 1 /\ \A d \in Dirs : rd[d] = Written(d))
        /\ off' = TRUE /\ UNCHANGED vars /\ KeepT

TraceNext == TReset \/ TStart \/ TForeign \/ TOff \/ TShutdown \/ TSkip \/ TWriteCall \/ TKitWrite \/ TWriteRet
             \/ TDownEv \/ TRelaySee \/ TRelayEnq \/ TRelayDeliver \/ TRelayOther \/ TRead
             \/ TSilent \/ TEnd
TraceSpec == TraceInit /\ [][TraceNext]_tvars

HW == IF l > TLCGet(1) THEN TLCSet(1, l) ELSE TRUE
ASSUME TLCSet(1, 0)
TraceAccepted ==
    IF TLCGet(1) = Len(Trace) + 1 THEN TRUE
    ELSE Print(<<"TRACE_REJECTED_AT_LINE", TLCGet(1), "OF", Len(Trace)>>, FALSE)
=============================================================================
