CONSTANTS
  N = 1
  EP = {"c", "s"}
  SendC = 3
  SendS = 0
  PingC = 0
  PingS = 0
  MaxSend <- MCMaxSend
  MaxPing <- MCMaxPing
  MaxDrop = 2
  MaxDup = 1
  MaxResend = 2
  ChanCap = 4
  MaxInject = 0
  InjSeqs = {}
SPECIFICATION Spec
INVARIANTS TypeOK WindowBound Outstanding AddOnlyWithRoom PrefixDelivery Unwrapped
CHECK_DEADLOCK FALSE
