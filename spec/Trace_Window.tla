---------------------------- MODULE Trace_Window ----------------------------
(***************************************************************************)
(* Function-trace validation of the real send queue's window arithmetic    *)
(* (gbn/queue.go processACK / processNACK) against Window.tla.  Each line  *)
(* of the trace holds, for one (s, base, top, kind), the coded results the *)
(* real queue produced for every wire value 0..255:                        *)
(*   ack : code = newBase + 256*valid                                      *)
(*   nack: code = newBase + 256*resend + 512*bumped                        *)
(*   -1  : the real code panicked, -2: top was modified                    *)
(***************************************************************************)
EXTENDS Window, Json, Sequences, TLC

CONSTANTS TraceFile,
          Guarded   \* TRUE: Window.tla's arithmetic (wire values outside the
                    \* sequence space are never "in the window"); FALSE: the
                    \* named deviation DevAckResult/DevNackResult
Trace == ndJsonDeserialize(TraceFile)

B2N(b) == IF b THEN 1 ELSE 0

AckCode(b, t, q, s) ==
    LET r == IF Guarded THEN AckResult(b, t, q, s)
                        ELSE DevAckResult(b, t, q, s) IN r.base + 256 * B2N(r.valid)

NackCode(b, t, q, s) ==
    LET r == IF Guarded THEN NackResult(b, t, q, s)
                        ELSE DevNackResult(b, t, q, s) IN
    r.base + 256 * B2N(r.resend) + 512 * B2N(r.bumped)

Want(ln, q) == IF ln.k = "ack" THEN AckCode(ln.b, ln.t, q, ln.s)
               ELSE NackCode(ln.b, ln.t, q, ln.s)

VARIABLE i
Init == i = 1
Next == i <= Len(Trace) /\ i' = i + 1

\* evaluated in every state: the line about to be consumed agrees with the
\* specification for all 256 wire values
LineOK ==
    i <= Len(Trace) =>
        \A q \in 0..255 :
            \/ Trace[i].r[q + 1] = Want(Trace[i], q)
            \/ Print(<<"WINDOW_MISMATCH", Trace[i].k, "s", Trace[i].s, "b",
                       Trace[i].b, "t", Trace[i].t, "q", q, "impl",
                       Trace[i].r[q + 1], "spec", Want(Trace[i], q)>>, FALSE)
=============================================================================
