------------------------------- MODULE Codec -------------------------------
(***************************************************************************)
(* The wire codecs as operators over byte sequences (sequences of 0..255): *)
(*   GbnSer / GbnDeser    <-> gbn/messages.go  Serialize / Deserialize     *)
(*   MsgSer / MsgDeser    <-> mailbox/interface.go MsgData                 *)
(* A decoder returns [st |-> "ok", m |-> message], [st |-> "err"] or       *)
(* [st |-> "panic"]; the index expressions of the code are transcribed so  *)
(* that an out-of-range index shows up as "panic".                         *)
(***************************************************************************)
EXTENDS Integers, Sequences

Err == [st |-> "err"]
Panic == [st |-> "panic"]
Ok(m) == [st |-> "ok", m |-> m]

Tail4(b) == SubSeq(b, 5, Len(b))
B(x) == IF x THEN 1 ELSE 0

\* gbn.Deserialize.  MinData is the minimum length accepted for a DATA packet:
\* 4 in the specification (type, seq, final, ping); the pinned code checked 3
\* and then read the fourth byte (deviation DevShortData, MinData = 3).
GbnDeserMin(b, MinData) ==
    IF Len(b) < 1 THEN Err
    ELSE IF b[1] = 2 THEN
        IF Len(b) < MinData THEN Err
        ELSE IF Len(b) < 4 THEN Panic
        ELSE Ok([k |-> "DATA", seq |-> b[2], fin |-> (b[3] = 1),
                 ping |-> (b[4] = 1), pl |-> Tail4(b)])
    ELSE IF b[1] = 3 THEN
        IF Len(b) < 2 THEN Err ELSE Ok([k |-> "ACK", seq |-> b[2]])
    ELSE IF b[1] = 4 THEN
        IF Len(b) < 2 THEN Err ELSE Ok([k |-> "NACK", seq |-> b[2]])
    ELSE IF b[1] = 1 THEN
        IF Len(b) < 2 THEN Err ELSE Ok([k |-> "SYN", n |-> b[2]])
    ELSE IF b[1] = 5 THEN Ok([k |-> "FIN"])
    ELSE IF b[1] = 6 THEN Ok([k |-> "SYNACK"])
    ELSE Err

GbnDeser(b) == GbnDeserMin(b, 4)
DevGbnDeser(b) == GbnDeserMin(b, 3)

GbnSer(m) ==
    IF m.k = "DATA" THEN <<2, m.seq, B(m.fin), B(m.ping)>> \o m.pl
    ELSE IF m.k = "ACK" THEN <<3, m.seq>>
    ELSE IF m.k = "NACK" THEN <<4, m.seq>>
    ELSE IF m.k = "SYN" THEN <<1, m.n>>
    ELSE IF m.k = "FIN" THEN <<5>>
    ELSE <<6>>

\* 4-byte big-endian
BE32(n) == <<(n \div 16777216) % 256, (n \div 65536) % 256,
             (n \div 256) % 256, n % 256>>
\* TLC integers are 32-bit: the most significant byte is looked at separately.
\* A declared length of 2^24 or more always exceeds the actual length of any
\* buffer considered here.
Huge(b, i) == b[i] # 0
UnBE24(b, i) == b[i+1] * 65536 + b[i+2] * 256 + b[i+3]

\* MsgData.Serialize: version, length, payload
MsgSer(m) == <<m.v>> \o BE32(Len(m.pl)) \o m.pl

\* MsgData.Deserialize into a fresh message
MsgDeser(b) ==
    IF Len(b) < 5 THEN Err
    ELSE IF Huge(b, 2) THEN Err
    ELSE LET n == UnBE24(b, 2) IN
         IF Len(b) < 5 + n THEN Err
         ELSE Ok([v |-> b[1], pl |-> SubSeq(b, 6, 5 + n)])

---------------------------------------------------------------------------
(* Properties *)

\* C07: no byte string makes a decoder panic
NoPanic(b) == GbnDeser(b).st # "panic" /\ MsgDeser(b).st # "panic"

\* C19: decode(encode(m)) = m
GbnRoundTrip(m) == GbnDeser(GbnSer(m)) = Ok(m)
MsgRoundTrip(m) == MsgDeser(MsgSer(m)) = Ok(m)

\* C19: whatever decodes re-encodes to something that decodes to the same value
GbnStable(b) == LET r == GbnDeser(b) IN
                r.st = "ok" => GbnDeser(GbnSer(r.m)) = r
MsgStable(b) == LET r == MsgDeser(b) IN
                r.st = "ok" => MsgDeser(MsgSer(r.m)) = r
=============================================================================
