-------------------------------- MODULE GBN --------------------------------
(***************************************************************************)
(* Data phase of the Go-Back-N connection (gbn/gbn_conn.go, queue.go),     *)
(* both endpoints, over two order-preserving channels that may drop and    *)
(* duplicate (in place) and delay packets.                                 *)
(*                                                                         *)
(* The specification is shaped like the code.  Each endpoint e has         *)
(*   - the send loop S  (sendPacketsForever):  spc[e]                      *)
(*   - the receive loop R (receivePacketsForever): rcur[e]                 *)
(*   - the application (Send / Recv callers)                               *)
(* and one action per select branch / critical section:                    *)
(*                                                                         *)
(*   SPing         ping tick taken in the outer select                     *)
(*   SAdd          queue.addPacket (under topMtx)                          *)
(*   STxFirst      first transmission: sendPacket(.., false)               *)
(*   SFull         inner loop found size() >= n                            *)
(*   SWake         receivedACKSignal (or spurious) re-check                *)
(*   SResendBegin  queue.resend: base/top read (latched), syncer armed     *)
(*   SResendStep   one packet of [rsNext, rsTop) re-sent                   *)
(*   SResendEnd    all re-sent; waitForSync starts                         *)
(*   SSyncDone     waitForSync returns (cancel / 3x timeout)               *)
(*   Rx            recvFromStream returned a packet (latched in rcur)      *)
(*   RDataOk       DATA with Seq = recvSeq: ACK sent, recvSeq bumped,      *)
(*                 payload queued for the application                      *)
(*   RNackSend     DATA with Seq # recvSeq: NACK(recvSeq) sent             *)
(*   RNackSupp     ... or suppressed by the NACK back-off                  *)
(*   RAck          ACK processed by queue.processACK                       *)
(*   RAckEmpty     ACK ignored because the queue was empty                 *)
(*   RNack         NACK processed by queue.processNACK                     *)
(*   AppRecv       Recv returns the next queued message                    *)
(*                                                                         *)
(* Faults: a transmission puts k copies of the packet at the tail of the   *)
(* channel, k = 0 (dropped), 1, or 2 (duplicated in place).  Because the   *)
(* channels are FIFO, losing/duplicating a packet later is the same as     *)
(* doing it when it is sent; delay is the scheduling of Rx.                 *)
(*                                                                         *)
(* Message payloads are message ids: the k-th message accepted from the    *)
(* application of endpoint e has id k; a ping has id 0.  So loss,          *)
(* duplication, reordering and alteration of payloads all show up as a     *)
(* broken PrefixDelivery.                                                  *)
(***************************************************************************)
EXTENDS Integers, Sequences, FiniteSets, TLC, Window

CONSTANTS
    N,          \* window size (cfg.n); the sequence space is S = N+1
    EP,         \* the two endpoints, e.g. {"c", "s"}
    MaxSend,    \* [EP -> Nat]: bound on application messages per endpoint
    MaxPing,    \* [EP -> Nat]: bound on pings per endpoint
    MaxDrop,    \* bound on dropped transmissions (both directions together)
    MaxDup,     \* bound on duplicated transmissions
    MaxResend,  \* bound on resend rounds per endpoint (model bound)
    ChanCap,    \* bound on channel length (model bound)
    MaxInject,  \* bound on packets forged by the relay (C07 configurations)
    InjSeqs     \* sequence values the relay may put into forged ACK/NACKs

S == N + 1

Peer(e) == CHOOSE p \in EP : p # e

None == [k |-> "none"]
Data(q, m) == [k |-> "DATA", seq |-> q, m |-> m]
Ack(q)     == [k |-> "ACK",  seq |-> q]
Nack(q)    == [k |-> "NACK", seq |-> q]

VARIABLES
    base,     \* [EP -> 0..S-1]   queue.sequenceBase
    top,      \* [EP -> 0..S-1]   queue.sequenceTop
    buf,      \* [EP -> [0..S-1 -> Nat]]  message id stored in each slot
    rseq,     \* [EP -> 0..S-1]   recvSeq
    lastNack, \* [EP -> -1..S-1]  lastNackSeq (-1: none sent yet)
    ch,       \* [EP -> Seq(Packet)]  packets in flight *to* the endpoint
    spc,      \* [EP -> send-loop control state]
    ping,     \* [EP -> BOOLEAN]  the packet being added is a ping
    rsNext,   \* [EP -> 0..S-1]   next slot to re-send
    rsTop,    \* [EP -> 0..S-1]   latched top of the resend
    rsRet,    \* [EP -> {"idle","full"}] where the resend was started from
    rcur,     \* [EP -> Packet \cup {None}]  packet latched by the receive loop
    szR,      \* [EP -> 0..N]     queue size right after R's last event
    inbox,    \* [EP -> Seq(Nat)] recvDataChan plus the element R holds
    nAcc,     \* [EP -> Nat]      number of application messages added
    nPing,    \* [EP -> Nat]
    dlv,      \* [EP -> Seq(Nat)] messages returned by Recv
    drops, dups, nRs, nInj,
    nInj,     \* packets forged by the relay so far
    \* history (unwrapped) counters used by the strengthening invariant
    uTop,     \* [EP -> Nat]  number of packets ever added
    uBase,    \* [EP -> Nat]  unwrapped base
    uR        \* [EP -> Nat]  number of packets accepted in sequence

vars == <<base, top, buf, rseq, lastNack, ch, spc, ping, rsNext, rsTop, rsRet,
          rcur, szR, inbox, nAcc, nPing, dlv, drops, dups, nRs, nInj,
          uTop, uBase, uR>>

Size(e) == QSize(base[e], top[e], S)

\* k copies of packet p appended to the channel towards endpoint d.
Put(c, p, k) == IF k = 0 THEN c ELSE IF k = 1 THEN Append(c, p)
                ELSE Append(Append(c, p), p)

\* Fault accounting for a transmission with k copies.
Fault(k) == /\ k \in {0, 1, 2}
            /\ drops' = drops + (IF k = 0 THEN 1 ELSE 0)
            /\ dups'  = dups  + (IF k = 2 THEN 1 ELSE 0)

Init ==
    /\ base = [e \in EP |-> 0]
    /\ top  = [e \in EP |-> 0]
    /\ buf  = [e \in EP |-> [i \in 0..(S-1) |-> 0]]
    /\ rseq = [e \in EP |-> 0]
    /\ lastNack = [e \in EP |-> -1]
    /\ ch   = [e \in EP |-> <<>>]
    /\ spc  = [e \in EP |-> "idle"]
    /\ ping = [e \in EP |-> FALSE]
    /\ rsNext = [e \in EP |-> 0]
    /\ rsTop  = [e \in EP |-> 0]
    /\ rsRet  = [e \in EP |-> "idle"]
    /\ rcur = [e \in EP |-> None]
    /\ szR  = [e \in EP |-> 0]
    /\ inbox = [e \in EP |-> <<>>]
    /\ nAcc = [e \in EP |-> 0]
    /\ nPing = [e \in EP |-> 0]
    /\ dlv  = [e \in EP |-> <<>>]
    /\ drops = 0 /\ dups = 0
    /\ nRs = [e \in EP |-> 0]
    /\ nInj = 0
    /\ uTop = [e \in EP |-> 0]
    /\ uBase = [e \in EP |-> 0]
    /\ uR = [e \in EP |-> 0]

---------------------------------------------------------------------------
(* Send loop *)

\* The send loop is at the outer select: either it returned there, or it is
\* about to evaluate the inner-loop test size() < n, which only R's
\* processing can have made more true since the last transmission.
AtSelect(e) == spc[e] = "idle" \/ (spc[e] = "check" /\ Size(e) < N)

SPing(e) ==
    /\ AtSelect(e) /\ ~ping[e]
    /\ ping' = [ping EXCEPT ![e] = TRUE]
    /\ spc' = [spc EXCEPT ![e] = "idle"]
    /\ nPing' = [nPing EXCEPT ![e] = @ + 1]
    /\ UNCHANGED <<base, top, buf, rseq, lastNack, ch, rsNext, rsTop, rsRet,
                   rcur, szR, inbox, nAcc, dlv, drops, dups, nRs, nInj,
                   uTop, uBase, uR>>

\* queue.addPacket: the packet gets Seq = top and is stored; top advances.
SAdd(e) ==
    /\ AtSelect(e)
    /\ LET m == IF ping[e] THEN 0 ELSE nAcc[e] + 1 IN
       /\ buf' = [buf EXCEPT ![e][top[e]] = m]
       /\ nAcc' = [nAcc EXCEPT ![e] = IF ping[e] THEN @ ELSE @ + 1]
    /\ top' = [top EXCEPT ![e] = (@ + 1) % S]
    /\ uTop' = [uTop EXCEPT ![e] = @ + 1]
    /\ spc' = [spc EXCEPT ![e] = "tx1"]
    /\ UNCHANGED <<base, rseq, lastNack, ch, ping, rsNext, rsTop, rsRet, rcur,
                   szR, inbox, nPing, dlv, drops, dups, nRs, nInj, uBase, uR>>

\* first transmission of the packet just added (slot top-1)
STxFirst(e, k) ==
    /\ spc[e] = "tx1"
    /\ LET q == (top[e] + S - 1) % S IN
       ch' = [ch EXCEPT ![Peer(e)] = Put(@, Data(q, buf[e][q]), k)]
    /\ Fault(k)
    /\ spc' = [spc EXCEPT ![e] = "check"]
    /\ ping' = [ping EXCEPT ![e] = FALSE]
    /\ UNCHANGED <<base, top, buf, rseq, lastNack, rsNext, rsTop, rsRet, rcur,
                   szR, inbox, nAcc, nPing, dlv, nRs, nInj, uTop, uBase, uR>>

\* inner loop: size() >= n, wait
SetFull(e) ==
    /\ spc' = [spc EXCEPT ![e] = "full"]
    /\ UNCHANGED <<base, top, buf, rseq, lastNack, ch, ping, rsNext, rsTop,
                   rsRet, rcur, szR, inbox, nAcc, nPing, dlv, drops, dups, nRs, nInj,
                   uTop, uBase, uR>>

SFull(e) == spc[e] = "check" /\ Size(e) >= N /\ SetFull(e)

\* receivedACKSignal: go round the inner loop again
SWake(e) ==
    /\ spc[e] = "full"
    /\ spc' = [spc EXCEPT ![e] = "check"]
    /\ UNCHANGED <<base, top, buf, rseq, lastNack, ch, ping, rsNext, rsTop,
                   rsRet, rcur, szR, inbox, nAcc, nPing, dlv, drops, dups, nRs, nInj,
                   uTop, uBase, uR>>

\* queue.resend: (base, top) read; b is the value of base that was read, which
\* may be older than the current one (R moves base concurrently), but it is
\* a value the base has had while the packets [b, top) were all stored: in
\* unwrapped terms top-N <= b <= base.
ResendFrom(e, b) ==
    \E ub \in (IF uTop[e] > N THEN uTop[e] - N ELSE 0)..uBase[e] : ub % S = b

SResendBegin(e, b) ==
    /\ \/ AtSelect(e) /\ rsRet' = [rsRet EXCEPT ![e] = "idle"]
       \/ spc[e] = "full" /\ rsRet' = [rsRet EXCEPT ![e] = "full"]
    /\ ~ping[e]
    /\ ResendFrom(e, b)
    /\ b # top[e]
    /\ rsNext' = [rsNext EXCEPT ![e] = b]
    /\ rsTop' = [rsTop EXCEPT ![e] = top[e]]
    /\ spc' = [spc EXCEPT ![e] = "rs"]
    /\ nRs' = [nRs EXCEPT ![e] = IF @ < MaxResend THEN @ + 1 ELSE @]
    /\ UNCHANGED <<base, top, buf, rseq, lastNack, ch, ping, rcur, szR, inbox,
                   nAcc, nPing, dlv, drops, dups, nInj, uTop, uBase, uR>>

SResendStep(e, k) ==
    /\ spc[e] = "rs" /\ rsNext[e] # rsTop[e]
    /\ ch' = [ch EXCEPT ![Peer(e)] =
                 Put(@, Data(rsNext[e], buf[e][rsNext[e]]), k)]
    /\ Fault(k)
    /\ rsNext' = [rsNext EXCEPT ![e] = (@ + 1) % S]
    /\ UNCHANGED <<base, top, buf, rseq, lastNack, spc, ping, rsTop, rsRet,
                   rcur, szR, inbox, nAcc, nPing, dlv, nRs, nInj, uTop, uBase, uR>>

SResendEnd(e) ==
    /\ spc[e] = "rs" /\ rsNext[e] = rsTop[e]
    /\ spc' = [spc EXCEPT ![e] = "sync"]
    /\ UNCHANGED <<base, top, buf, rseq, lastNack, ch, ping, rsNext, rsTop,
                   rsRet, rcur, szR, inbox, nAcc, nPing, dlv, drops, dups, nRs, nInj,
                   uTop, uBase, uR>>

SSyncDone(e) ==
    /\ spc[e] = "sync"
    /\ spc' = [spc EXCEPT ![e] = IF rsRet[e] = "idle" THEN "idle" ELSE "check"]
    /\ UNCHANGED <<base, top, buf, rseq, lastNack, ch, ping, rsNext, rsTop,
                   rsRet, rcur, szR, inbox, nAcc, nPing, dlv, drops, dups, nRs, nInj,
                   uTop, uBase, uR>>

---------------------------------------------------------------------------
(* Receive loop *)

\* recvFromStream returns the head of the channel.  R is not at the top of
\* its loop while it still holds a payload that does not fit into
\* recvDataChan (capacity N).
Rx(e) ==
    /\ rcur[e] = None
    /\ Len(inbox[e]) <= N
    /\ ch[e] # <<>>
    /\ rcur' = [rcur EXCEPT ![e] = Head(ch[e])]
    /\ ch' = [ch EXCEPT ![e] = Tail(@)]
    /\ UNCHANGED <<base, top, buf, rseq, lastNack, spc, ping, rsNext, rsTop,
                   rsRet, szR, inbox, nAcc, nPing, dlv, drops, dups, nRs, nInj,
                   uTop, uBase, uR>>

\* DATA with the expected sequence number: ACK it, bump recvSeq, hand the
\* payload (unless it is a ping) to the application.
RDataOk(e, k) ==
    /\ rcur[e].k = "DATA" /\ rcur[e].seq = rseq[e]
    /\ ch' = [ch EXCEPT ![Peer(e)] = Put(@, Ack(rseq[e]), k)]
    /\ Fault(k)
    /\ rseq' = [rseq EXCEPT ![e] = (@ + 1) % S]
    /\ uR' = [uR EXCEPT ![e] = @ + 1]
    /\ inbox' = [inbox EXCEPT ![e] =
                    IF rcur[e].m = 0 THEN @ ELSE Append(@, rcur[e].m)]
    /\ rcur' = [rcur EXCEPT ![e] = None]
    /\ UNCHANGED <<base, top, buf, lastNack, spc, ping, rsNext, rsTop, rsRet,
                   szR, nAcc, nPing, dlv, nRs, nInj, uTop, uBase>>

\* DATA with another sequence number: NACK the expected one ...
RNackSend(e, k) ==
    /\ rcur[e].k = "DATA" /\ rcur[e].seq # rseq[e]
    /\ ch' = [ch EXCEPT ![Peer(e)] = Put(@, Nack(rseq[e]), k)]
    /\ Fault(k)
    /\ lastNack' = [lastNack EXCEPT ![e] = rseq[e]]
    /\ rcur' = [rcur EXCEPT ![e] = None]
    /\ UNCHANGED <<base, top, buf, rseq, spc, ping, rsNext, rsTop, rsRet, szR,
                   inbox, nAcc, nPing, dlv, nRs, nInj, uTop, uBase, uR>>

\* ... unless a NACK for the same sequence number was sent recently.
RNackSupp(e) ==
    /\ rcur[e].k = "DATA" /\ rcur[e].seq # rseq[e]
    /\ lastNack[e] = rseq[e]
    /\ rcur' = [rcur EXCEPT ![e] = None]
    /\ UNCHANGED <<base, top, buf, rseq, lastNack, ch, spc, ping, rsNext, rsTop,
                   rsRet, szR, inbox, nAcc, nPing, dlv, drops, dups, nRs, nInj,
                   uTop, uBase, uR>>

\* queue.processACK when the queue was found empty by its pre-check.  (The
\* pre-check is not under the lock that addPacket takes; the trace
\* specification allows for that race, see Trace_GBN!TAckEmpty and szR.)
RAckEmpty(e) ==
    /\ rcur[e].k = "ACK"
    /\ Size(e) = 0
    /\ rcur' = [rcur EXCEPT ![e] = None]
    /\ szR' = [szR EXCEPT ![e] = Size(e)]
    /\ UNCHANGED <<base, top, buf, rseq, lastNack, ch, spc, ping, rsNext, rsTop,
                   rsRet, inbox, nAcc, nPing, dlv, drops, dups, nRs, nInj,
                   uTop, uBase, uR>>

\* queue.processACK past the pre-check (the queue is not empty now).
RAck(e) ==
    /\ rcur[e].k = "ACK"
    /\ Size(e) # 0
    /\ LET r == AckResult(base[e], top[e], rcur[e].seq, S) IN
       /\ base' = [base EXCEPT ![e] = r.base]
       /\ uBase' = [uBase EXCEPT ![e] = @ + QSize(base[e], r.base, S)]
       /\ szR' = [szR EXCEPT ![e] = QSize(r.base, top[e], S)]
    /\ rcur' = [rcur EXCEPT ![e] = None]
    /\ UNCHANGED <<top, buf, rseq, lastNack, ch, spc, ping, rsNext, rsTop, rsRet,
                   inbox, nAcc, nPing, dlv, drops, dups, nRs, nInj, uTop, uR>>

\* queue.processNACK
RNack(e) ==
    /\ rcur[e].k = "NACK"
    /\ LET r == NackResult(base[e], top[e], rcur[e].seq, S) IN
       /\ base' = [base EXCEPT ![e] = r.base]
       /\ uBase' = [uBase EXCEPT ![e] = @ + QSize(base[e], r.base, S)]
       /\ szR' = [szR EXCEPT ![e] = QSize(r.base, top[e], S)]
    /\ rcur' = [rcur EXCEPT ![e] = None]
    /\ UNCHANGED <<top, buf, rseq, lastNack, ch, spc, ping, rsNext, rsTop, rsRet,
                   inbox, nAcc, nPing, dlv, drops, dups, nRs, nInj, uTop, uR>>

---------------------------------------------------------------------------
(* Application *)

AppRecv(e) ==
    /\ inbox[e] # <<>>
    /\ dlv' = [dlv EXCEPT ![e] = Append(@, Head(inbox[e]))]
    /\ inbox' = [inbox EXCEPT ![e] = Tail(@)]
    /\ UNCHANGED <<base, top, buf, rseq, lastNack, ch, spc, ping, rsNext, rsTop,
                   rsRet, rcur, szR, nAcc, nPing, drops, dups, nRs, nInj,
                   uTop, uBase, uR>>

---------------------------------------------------------------------------
(* The untrusted relay (C07): it may put a forged ACK or NACK carrying any   *)
(* sequence byte at the tail of either channel.                            *)

AdvInject(e, p) ==
    /\ ch' = [ch EXCEPT ![e] = Append(@, p)]
    /\ nInj' = nInj + 1
    /\ UNCHANGED <<base, top, buf, rseq, lastNack, spc, ping, rsNext, rsTop,
                   rsRet, rcur, szR, inbox, nAcc, nPing, dlv, drops, dups, nRs,
                   uTop, uBase, uR>>

---------------------------------------------------------------------------
(* Bounded next-state relation for model checking *)

CanFault(k) == (k = 0 => drops < MaxDrop) /\ (k = 2 => dups < MaxDup)
Room(d) == Len(ch[d]) + 2 <= ChanCap

Next ==
    \E e \in EP :
       \/ nPing[e] < MaxPing[e] /\ SPing(e)
       \/ (ping[e] \/ nAcc[e] < MaxSend[e]) /\ SAdd(e)
       \/ \E k \in {0, 1, 2} : CanFault(k) /\ Room(Peer(e)) /\ STxFirst(e, k)
       \/ SFull(e)
       \/ SWake(e)
       \/ nRs[e] < MaxResend /\ \E b \in 0..(S-1) : SResendBegin(e, b)
       \/ \E k \in {0, 1, 2} : CanFault(k) /\ Room(Peer(e)) /\ SResendStep(e, k)
       \/ SResendEnd(e)
       \/ SSyncDone(e)
       \/ Rx(e)
       \/ \E k \in {0, 1, 2} : CanFault(k) /\ Room(Peer(e)) /\ RDataOk(e, k)
       \/ \E k \in {0, 1, 2} : CanFault(k) /\ Room(Peer(e)) /\ RNackSend(e, k)
       \/ RNackSupp(e)
       \/ RAckEmpty(e)
       \/ RAck(e)
       \/ RNack(e)
       \/ AppRecv(e)
       \/ /\ nInj < MaxInject /\ Room(e)
          /\ \E q \in InjSeqs : AdvInject(e, Ack(q)) \/ AdvInject(e, Nack(q))

Spec == Init /\ [][Next]_vars

(***************************************************************************)
(* Liveness (C06).  The resend timer keeps firing while the send loop sits  *)
(* at a select with unacknowledged packets, so resend rounds are not        *)
(* bounded here (the counter saturates); faults are finite (the budgets).   *)
(* Weak fairness on every step of the loops, the application and the resend *)
(* timer; the spurious wake-up SWake is possible but not relied upon.       *)
(***************************************************************************)
LiveNext ==
    \E e \in EP :
       \/ (ping[e] \/ nAcc[e] < MaxSend[e]) /\ SAdd(e)
       \/ \E k \in {0, 1, 2} : CanFault(k) /\ Room(Peer(e)) /\ STxFirst(e, k)
       \/ SFull(e)
       \/ Size(e) < N /\ SWake(e)     \* a wake-up signal follows a base move
       \/ \E b \in 0..(S-1) : SResendBegin(e, b)
       \/ \E k \in {0, 1, 2} : CanFault(k) /\ Room(Peer(e)) /\ SResendStep(e, k)
       \/ SResendEnd(e) \/ SSyncDone(e)
       \/ Rx(e)
       \/ \E k \in {0, 1, 2} : CanFault(k) /\ Room(Peer(e)) /\ RDataOk(e, k)
       \/ \E k \in {0, 1, 2} : CanFault(k) /\ Room(Peer(e)) /\ RNackSend(e, k)
       \/ RNackSupp(e) \/ RAckEmpty(e) \/ RAck(e) \/ RNack(e)
       \/ AppRecv(e)

Fairness ==
    \A e \in EP :
       /\ SF_vars((ping[e] \/ nAcc[e] < MaxSend[e]) /\ SAdd(e))
       /\ WF_vars(Room(Peer(e)) /\ STxFirst(e, 1))
       /\ WF_vars(SFull(e))
       /\ WF_vars(\E b \in 0..(S-1) : SResendBegin(e, b))
       /\ WF_vars(Room(Peer(e)) /\ SResendStep(e, 1))
       /\ WF_vars(SResendEnd(e)) /\ WF_vars(SSyncDone(e))
       /\ WF_vars(Rx(e))
       /\ WF_vars(Room(Peer(e)) /\ RDataOk(e, 1))
       /\ SF_vars(Room(Peer(e)) /\ RNackSend(e, 1))
       /\ WF_vars(RAckEmpty(e)) /\ WF_vars(RAck(e)) /\ WF_vars(RNack(e))
       /\ WF_vars(AppRecv(e))

LiveSpec == Init /\ [][LiveNext]_vars /\ Fairness

\* every message the application can send is eventually delivered, for good
EventuallyDelivered ==
    <>[](\A e \in EP : Len(dlv[e]) = MaxSend[Peer(e)])

\* and the connection becomes quiet: nothing left to retransmit
EventuallyQuiet == <>[](\A e \in EP : Size(e) = 0)

---------------------------------------------------------------------------
(* Properties *)

Packets == [k : {"DATA"}, seq : 0..(S-1), m : Nat]
           \cup [k : {"ACK", "NACK"}, seq : 0..(S-1)]

TypeOK ==
    /\ base \in [EP -> 0..(S-1)]
    /\ top \in [EP -> 0..(S-1)]
    /\ rseq \in [EP -> 0..(S-1)]
    /\ lastNack \in [EP -> -1..(S-1)]
    /\ spc \in [EP -> {"idle", "tx1", "check", "full", "rs", "sync"}]
    /\ \A e \in EP : \A i \in 1..Len(ch[e]) : ch[e][i] \in Packets

\* C09: the window bookkeeping stays inside the sequence space and never
\* covers more than N packets; the sequence space is strictly larger than N.
WindowBound ==
    \A e \in EP : /\ base[e] \in 0..(S-1) /\ top[e] \in 0..(S-1)
                  /\ Size(e) <= N
                  /\ S > N

\* C09: packets sent and not yet cumulatively acknowledged never exceed N.
Outstanding == \A e \in EP : uTop[e] - uBase[e] <= N /\ uBase[e] <= uTop[e]

\* C09: a new packet is only ever added when the window has room.
AddOnlyWithRoom == \A e \in EP : spc[e] = "tx1" => Size(e) >= 1

OneToK(k) == [i \in 1..k |-> i]

\* C01: what Recv has returned plus what is queued for it is 1, 2, ..., k for
\* some k not exceeding the number of messages the peer's Send accepted.
PrefixDelivery ==
    \A e \in EP :
        LET got == dlv[e] \o inbox[e] IN
        /\ got = OneToK(Len(got))
        /\ Len(got) <= nAcc[Peer(e)]

\* Strengthening invariant relating the modular state to the unwrapped
\* history: the sender's base never passes the receiver's position, the
\* receiver never passes the sender's top, and the modular values are the
\* residues of the unwrapped ones.
Unwrapped ==
    \A e \in EP :
        /\ uBase[e] <= uR[Peer(e)]
        /\ uR[Peer(e)] <= uTop[e]
        /\ uTop[e] <= uBase[e] + N
        /\ base[e] = uBase[e] % S
        /\ top[e] = uTop[e] % S
        /\ rseq[Peer(e)] = uR[Peer(e)] % S

\* Everything accepted has been delivered and acknowledged (used as a
\* reachability target and in end-of-trace checks).
Quiescent ==
    \A e \in EP : /\ Size(e) = 0 /\ ch[e] = <<>> /\ rcur[e] = None
                  /\ Len(dlv[e]) = nAcc[Peer(e)]
                  /\ spc[e] \in {"idle", "check"}
=============================================================================
