------------------------------ MODULE MC_LNC ------------------------------
EXTENDS LNC
BothDirs == {"c", "s"}
OneDir == {"c"}
SmallSizes == {1, 5}
OneHs == {3}
NoHs == {}

\* The channel stage of the composition takes only steps of the windowed
\* in-order exactly-once channel that GBN.tla is shown to refine
\* (RelChan.tla): a message is accepted when it is handed to GBN (inflight),
\* delivered when it reaches the reader's side (got).
Chan == INSTANCE RelChan WITH
           Dir <- Dirs, Window <- Window,
           acc <- [d \in Dirs |-> Len(got[d]) + Len(inflight[d])],
           dl <- [d \in Dirs |-> [i \in 1..Len(got[d]) |-> i]]
ChannelSteps == Chan!Spec
\* ... and what is delivered is the oldest undelivered message itself
ChannelContent ==
    [][\A d \in Dirs : got'[d] # got[d] =>
          /\ inflight[d] # <<>>
          /\ got'[d] = Append(got[d], Head(inflight[d]))
          /\ inflight'[d] = Tail(inflight[d])]_vars
=============================================================================
