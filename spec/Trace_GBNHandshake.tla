------------------------- MODULE Trace_GBNHandshake -------------------------
(***************************************************************************)
(* C10: traces of real GBN handshakes (faults, stale prefixes) against      *)
(* GBNHandshake.tla.  Lines interpreted (all others are skipped):           *)
(*   reset                         a new run                                *)
(*   inj  {ep, k, seq}             stale packet queued before the start     *)
(*   tx   {ep, k, seq, c}          SYN / SYNACK / DATA put on the wire      *)
(*   rx   {ep, k, seq} (hook)      the handshake loop looks at a packet     *)
(*   hsTimeout {ep} (hook)         handshake timeout fired                  *)
(*   hsCancel                      the harness gives up waiting             *)
(*   hsResult {cErr, sErr, cN, sN, c2s, s2c}  results of NewClientConn /    *)
(*                                 NewServerConn and the first data exchange *)
(***************************************************************************)
EXTENDS GBNHandshake, Json

CONSTANT TraceFile
Trace == ndJsonDeserialize(TraceFile)

VARIABLES l, heldC, heldS, cancelled, over
tvars == <<vars, l, heldC, heldS, cancelled, over>>
Ev == Trace[l]
Is(o) == l <= Len(Trace) /\ Trace[l].ev = o
Adv == l' = l + 1
KeepX == UNCHANGED <<heldC, heldS, cancelled, over>>

P(r) == IF r.k = "SYN" THEN Syn(r.seq) ELSE [k |-> r.k]

Stray == \/ \E i \in 1..Len(toC) : toC[i].k \in {"SYN", "SYNACK"}
         \/ \E i \in 1..Len(toS) : toS[i].k \in {"SYN", "SYNACK"}

TraceInit == Init /\ l = 1 /\ heldC = <<>> /\ heldS = <<>> /\ cancelled = FALSE
             /\ over = FALSE

TReset ==
    /\ Is("reset") /\ Adv
    /\ cpc' = "start" /\ spc' = "waitSyn" /\ cResent' = FALSE /\ sResent' = FALSE
    /\ sN' = -1 /\ seenN' = {} /\ toC' = <<>> /\ toS' = <<>>
    /\ drops' = 0 /\ dups' = 0 /\ timeouts' = 0
    /\ heldC' = <<>> /\ heldS' = <<>> /\ cancelled' = FALSE /\ over' = FALSE

\* a stale packet of an earlier connection (ep = pretended sender)
TInj == /\ Is("inj") /\ ~over /\ Adv /\ KeepX
        /\ IF Ev.ep = "s" THEN toC' = Append(toC, P(Ev)) /\ UNCHANGED toS
           ELSE toS' = Append(toS, P(Ev)) /\ UNCHANGED toC
        /\ UNCHANGED <<cpc, spc, cResent, sResent, sN, seenN, drops, dups, timeouts>>

TTx ==
    /\ Is("tx") /\ ~over /\ Adv /\ KeepX
    /\ IF Ev.ep = "c"
       THEN IF Ev.k = "SYN" THEN Ev.seq = CliN /\ CSendSyn(Ev.c)
            ELSE IF Ev.k = "SYNACK" THEN CSendSynAck(Ev.c)
            ELSE \* data-phase packets of a client that is done, or the FIN of
                 \* one whose handshake failed (Close sends it)
                 /\ cpc \in {"done", "fail"} \/ cancelled
                 /\ toS' = Put(toS, [k |-> Ev.k], Ev.c)
                 /\ UNCHANGED <<cpc, spc, cResent, sResent, sN, seenN, toC,
                                drops, dups, timeouts>>
       ELSE IF Ev.k = "SYN" THEN Ev.seq = sN /\ SReply(Ev.c)
            ELSE /\ spc \in {"done", "fail"} \/ cancelled
                 /\ toC' = Put(toC, [k |-> Ev.k], Ev.c)
                 /\ UNCHANGED <<cpc, spc, cResent, sResent, sN, seenN, toS,
                                drops, dups, timeouts>>

\* the handshake loop examines the next packet (hook after Deserialize).  The
\* channels of the specification hold the packets sent and not yet examined;
\* the reader goroutine hands them over in channel order.
TRx ==
    /\ Is("rx") /\ ~over /\ Adv /\ KeepX
    /\ IF Ev.ep = "c"
       THEN IF cpc \in {"done", "fail"} THEN UNCHANGED vars
            ELSE toC # <<>> /\ Head(toC) = P(Ev) /\ CRcv
       ELSE IF spc \in {"done", "fail"} THEN UNCHANGED vars
            ELSE /\ toS # <<>> /\ Head(toS) = P(Ev)
                 /\ IF spc = "waitSyn" THEN SRcvWaitSyn ELSE SRcvWaitAck

THsTimeout ==
    /\ Is("hsTimeout") /\ ~over /\ Adv /\ KeepX
    /\ IF Ev.ep = "c" THEN CTimeout ELSE STimeout

\* the harness gives up waiting and cancels the context of whichever side is
\* still in its handshake: that side's result is not judged
TCancel == /\ Is("hsCancel") /\ Adv /\ UNCHANGED <<vars, heldC, heldS, over>>
           /\ cancelled' = TRUE

\* results: a side returned nil iff the specification has it done; an error
\* iff failed (or the harness cancelled it); AgreeN on the adopted windows;
\* and data flowed both ways when both are in the data phase
TResult ==
    /\ Is("hsResult") /\ Adv /\ UNCHANGED <<vars, heldC, heldS, cancelled>>
    /\ over' = TRUE
    /\ (~cancelled \/ cpc \in {"done", "fail"}) =>
          /\ (Ev.cErr = "") = (cpc = "done")
          /\ Ev.cErr # "" => cpc = "fail"
    /\ (~cancelled \/ spc \in {"done", "fail"}) =>
          /\ (Ev.sErr = "") = (spc = "done")
          /\ Ev.sErr # "" => spc = "fail"
    /\ (cpc = "done") => Ev.cN = CliN
    /\ (spc = "done") => (Ev.sN = sN /\ Representable(sN) /\ sN \in seenN)
    /\ (cpc = "done" /\ spc = "done") => Ev.sN = Ev.cN
    \* data flows, unless a left-over handshake packet (a duplicate, a resent
    \* or stale SYN / SYNACK) is still on its way to an endpoint that is
    \* already in the data phase: that packet ends the connection, visibly
    /\ (cpc = "done" /\ spc = "done" /\ ~Stray) => (Ev.c2s = 1 /\ Ev.s2c = 1)

Handled == {"reset", "inj", "tx", "rx", "hsTimeout", "hsCancel", "hsResult"}
TSkip == /\ l <= Len(Trace)
         /\ (Ev.ev \notin Handled \/ (over /\ Ev.ev \notin {"reset", "hsResult"}))
         /\ Adv /\ UNCHANGED <<vars, heldC, heldS, cancelled, over>>

TraceNext == TReset \/ TInj \/ TTx \/ TRx \/ THsTimeout \/ TCancel
             \/ TResult \/ TSkip
TraceSpec == TraceInit /\ [][TraceNext]_tvars

TraceAccepted ==
    LET d == TLCGet("stats").diameter IN
    IF d - 1 = Len(Trace) THEN TRUE
    ELSE Print(<<"TRACE_REJECTED_AT_LINE", d, "OF", Len(Trace)>>, FALSE)
=============================================================================
