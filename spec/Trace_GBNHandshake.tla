------------------------- MODULE Trace_GBNHandshake -------------------------
(***************************************************************************)
(* C10: traces of real GBN handshakes (faults, stale prefixes) against      *)
(* GBNHandshake.tla.  Lines interpreted (all others are skipped):           *)
(*   reset                         a new run                                *)
(*   inj  {ep, k, seq}             stale packet queued before the start     *)
(*   tx   {ep, k, seq, c}          SYN / SYNACK / DATA put on the wire      *)
(*   rx   {ep, k, seq} (hook)      the handshake loop looks at a packet     *)
(*   hsTimeout {ep, to} (hook)     handshake timeout fired; to = the        *)
(*                                 handshake timeout in force (ms)          *)
(*   hsCancel                      the harness gives up waiting             *)
(*   hsResult {cErr, sErr, cN, sN, c2s, s2c}  results of NewClientConn /    *)
(*                                 NewServerConn and the first data exchange *)
(***************************************************************************)
EXTENDS GBNHandshake, Json

CONSTANT TraceFile
Trace == ndJsonDeserialize(TraceFile)

VARIABLES l, heldC, heldS, cancelled, over,
          since   \* [endpoint -> time (ms) of its last tx / examined packet]
tvars == <<vars, l, heldC, heldS, cancelled, over, since>>
Ev == Trace[l]
Is(o) == l <= Len(Trace) /\ Trace[l].ev = o
Adv == l' = l + 1
KeepX == UNCHANGED <<heldC, heldS, cancelled, over>>

P(r) == IF r.k = "SYN" THEN Syn(r.seq) ELSE [k |-> r.k]

\* (a late SYN answer does not count: the client skips it; a FIN of an
\* earlier connection that a stale SYN let through to the data phase ends the
\* connection like any FIN does)
Stray == \/ \E i \in 1..Len(toC) : toC[i].k \in {"SYNACK", "FIN"}
         \/ \E i \in 1..Len(toS) : toS[i].k \in {"SYN", "SYNACK", "FIN"}

TraceInit == Init /\ l = 1 /\ heldC = <<>> /\ heldS = <<>> /\ cancelled = FALSE
             /\ over = FALSE /\ since = [c |-> 0, s |-> 0]

TReset ==
    /\ Is("reset") /\ Adv
    /\ cpc' = "start" /\ spc' = "waitSyn" /\ cResent' = FALSE /\ sResent' = FALSE
    /\ sN' = -1 /\ seenN' = {} /\ toC' = <<>> /\ toS' = <<>>
    /\ drops' = 0 /\ dups' = 0 /\ timeouts' = 0 /\ absorbed' = FALSE
    /\ heldC' = <<>> /\ heldS' = <<>> /\ cancelled' = FALSE /\ over' = FALSE
    /\ since' = [c |-> 0, s |-> 0]

\* a stale packet of an earlier connection (ep = pretended sender)
TInj == /\ Is("inj") /\ ~over /\ Adv /\ KeepX /\ UNCHANGED since
        /\ IF Ev.ep = "s" THEN toC' = Append(toC, P(Ev)) /\ UNCHANGED toS
           ELSE toS' = Append(toS, P(Ev)) /\ UNCHANGED toC
        /\ UNCHANGED <<cpc, spc, cResent, sResent, sN, seenN, drops, dups, timeouts, absorbed>>

TTx ==
    /\ Is("tx") /\ ~over /\ Adv /\ KeepX
    /\ since' = [since EXCEPT ![Ev.ep] = Ev.t]
    /\ IF Ev.ep = "c"
       THEN IF Ev.k = "SYN" THEN Ev.seq = CliN /\ CSendSyn(Ev.c)
            ELSE IF Ev.k = "SYNACK" THEN CSendSynAck(Ev.c)
            ELSE \* data-phase packets of a client that is done, or the FIN of
                 \* one whose handshake failed (Close sends it)
                 /\ cpc \in {"done", "fail"} \/ cancelled
                 /\ toS' = Put(toS, [k |-> Ev.k], Ev.c)
                 /\ UNCHANGED <<cpc, spc, cResent, sResent, sN, seenN, toC,
                                drops, dups, timeouts, absorbed>>
       ELSE IF Ev.k = "SYN" THEN Ev.seq = sN /\ SReply(Ev.c)
            ELSE /\ spc \in {"done", "fail"} \/ cancelled
                 /\ toC' = Put(toC, [k |-> Ev.k], Ev.c)
                 /\ UNCHANGED <<cpc, spc, cResent, sResent, sN, seenN, toS,
                                drops, dups, timeouts, absorbed>>

\* the handshake loop examines the next packet (hook after Deserialize).  The
\* channels of the specification hold the packets sent and not yet examined;
\* the reader goroutine hands them over in channel order.
TRx ==
    /\ Is("rx") /\ ~over /\ Adv /\ KeepX
    /\ since' = [since EXCEPT ![Ev.ep] = Ev.t]
    /\ IF Ev.ep = "c"
       THEN IF cpc \in {"done", "fail"} THEN UNCHANGED vars
            ELSE toC # <<>> /\ Head(toC) = P(Ev) /\ CRcv
       ELSE IF spc \in {"done", "fail"} THEN UNCHANGED vars
            ELSE /\ toS # <<>> /\ Head(toS) = P(Ev)
                 /\ IF spc = "waitSyn" THEN SRcvWaitSyn ELSE SRcvWaitAck

\* A wait of the handshake loop starts after the side has sent its SYN (and
\* told the timeout manager, which boosts the handshake timeout on every
\* resend) or after it has looked at a packet that did not end the wait; it
\* lasts the handshake timeout then in force ("wait for SYN with the boosted
\* timeout"): a side never gives up waiting earlier than that.
THsTimeout ==
    /\ Is("hsTimeout") /\ ~over /\ Adv /\ KeepX /\ UNCHANGED since
    /\ IF Ev.ep = "c" THEN CTimeout ELSE STimeout
    /\ Ev.t - since[Ev.ep] >= Ev.to

\* the harness gives up waiting and cancels the context of whichever side is
\* still in its handshake: that side's result is not judged
TCancel == /\ Is("hsCancel") /\ Adv /\ UNCHANGED <<vars, heldC, heldS, over, since>>
           /\ cancelled' = TRUE

\* results: a side returned nil iff the specification has it done; an error
\* iff failed (or the harness cancelled it); AgreeN on the adopted windows;
\* and data flowed both ways when both are in the data phase
TResult ==
    /\ Is("hsResult") /\ Adv /\ UNCHANGED <<vars, heldC, heldS, cancelled, since>>
    /\ over' = TRUE
    /\ (~cancelled \/ cpc \in {"done", "fail"}) =>
          /\ (Ev.cErr = "") = (cpc = "done")
          /\ Ev.cErr # "" => cpc = "fail"
    /\ (~cancelled \/ spc \in {"done", "fail"}) =>
          /\ (Ev.sErr = "") = (spc = "done")
          /\ Ev.sErr # "" => spc = "fail"
    /\ (cpc = "done") => Ev.cN = CliN
    /\ (spc = "done") => (Ev.sN = sN /\ Representable(sN) /\ sN \in seenN)
    /\ (cpc = "done" /\ spc = "done") => Ev.sN = Ev.cN
    \* data flows, unless a left-over handshake packet (a duplicate, a resent
    \* or stale SYN / SYNACK) is still on its way to an endpoint that is
    \* already in the data phase: that packet ends the connection, visibly
    /\ (cpc = "done" /\ spc = "done" /\ ~Stray) => (Ev.c2s = 1 /\ Ev.s2c = 1)
    \* and nothing but the peer's own message is ever handed to an application
    \* (0: nothing yet) - in particular not the payload of a DATA packet of an
    \* earlier connection
    /\ Ev.c2sGot \in {0, 1} /\ Ev.s2cGot \in {0, 1}

Handled == {"reset", "inj", "tx", "rx", "hsTimeout", "hsCancel", "hsResult"}
TSkip == /\ l <= Len(Trace)
         /\ (Ev.ev \notin Handled \/ (over /\ Ev.ev \notin {"reset", "hsResult"}))
         /\ Adv /\ UNCHANGED <<vars, heldC, heldS, cancelled, over, since>>

TraceNext == TReset \/ TInj \/ TTx \/ TRx \/ THsTimeout \/ TCancel
             \/ TResult \/ TSkip
TraceSpec == TraceInit /\ [][TraceNext]_tvars

TraceAccepted ==
    LET d == TLCGet("stats").diameter IN
    IF d - 1 = Len(Trace) THEN TRUE
    ELSE Print(<<"TRACE_REJECTED_AT_LINE", d, "OF", Len(Trace)>>, FALSE)
=============================================================================
