------------------------------ MODULE GBNLife ------------------------------
(***************************************************************************)
(* Life cycle of a GoBackNConn (gbn/gbn_conn.go Close, start, the exits of *)
(* the two loops, FIN handling) for both endpoints of a connection.        *)
(*                                                                         *)
(* Close() is a once-guarded body of five steps, executed by whoever gets  *)
(* there first: an application caller or the deferred Close of a loop that *)
(* exited.  Each step is one action because other goroutines run between   *)
(* them (the FIN send can take finSendTimeout while both loops still run): *)
(*                                                                         *)
(*   CloseBegin    close(g.quit)                                           *)
(*   FinSend       unless remoteClosed: sendPacket(FIN) with timeout       *)
(*   Cancel        g.cancel(); g.sendQueue.stop()                          *)
(*   Joined        g.wg.Wait() returned (both loops have exited)           *)
(*   StopTimers    ping ticker, pong ticker, resend ticker stopped; done   *)
(*                                                                         *)
(* Loops:                                                                  *)
(*   SExit   the send loop returns: it sees quit at its selects, or a      *)
(*           transport error (ctx cancelled), or the keepalive timeout     *)
(*   RExit   the receive loop returns: it only looks at quit between       *)
(*           packets; blocked in recvFromStream it needs the ctx cancelled *)
(*   RFin    the receive loop reads a FIN: remoteClosed, returns           *)
(* A loop that returns runs its deferred Close (CloseBegin if nobody did). *)
(*                                                                         *)
(* Application calls: a blocked Send/Recv selects on quit and returns an   *)
(* error once it is closed; a call started after quit fails at once.       *)
(***************************************************************************)
EXTENDS Integers, FiniteSets, TLC

CONSTANTS EP,      \* {"c", "s"}
          Net,     \* transport condition for FIN packets: "ok" (delivered),
                   \* "blackhole" (accepted, lost), "block" (send blocks
                   \* until the FIN timeout)
          PongStopped  \* TRUE: Close stops the pong ticker (the specification);
                       \* FALSE: named deviation DevPongTickerNotStopped

Peer(e) == CHOOSE p \in EP : p # e

VARIABLES
    cpc,          \* [EP -> progress of the Close body]
    quit,         \* [EP -> BOOLEAN]  g.quit closed
    ctxDone,      \* [EP -> BOOLEAN]  g.ctx cancelled
    remoteClosed, \* [EP -> BOOLEAN]
    sAlive, rAlive,             \* loops running
    pingT, pongT, rsT,          \* ticker goroutines / timers alive
    finCh,        \* [EP -> 0..1] FIN in flight towards the endpoint
    sendB, recvB, \* [EP -> BOOLEAN] an application call is blocked
    failed        \* [EP -> Nat] blocked calls that returned an error

vars == <<cpc, quit, ctxDone, remoteClosed, sAlive, rAlive, pingT, pongT, rsT,
          finCh, sendB, recvB, failed>>

Init ==
    /\ cpc = [e \in EP |-> "none"]
    /\ quit = [e \in EP |-> FALSE]
    /\ ctxDone = [e \in EP |-> FALSE]
    /\ remoteClosed = [e \in EP |-> FALSE]
    /\ sAlive = [e \in EP |-> TRUE]
    /\ rAlive = [e \in EP |-> TRUE]
    /\ pingT = [e \in EP |-> TRUE]
    /\ pongT = [e \in EP |-> TRUE]
    /\ rsT = [e \in EP |-> TRUE]
    /\ finCh = [e \in EP |-> 0]
    /\ sendB \in [EP -> BOOLEAN]
    /\ recvB \in [EP -> BOOLEAN]
    /\ failed = [e \in EP |-> 0]

\* close(g.quit): by an application caller or a loop's deferred Close.
CloseBegin(e) ==
    /\ cpc[e] = "none"
    /\ quit' = [quit EXCEPT ![e] = TRUE]
    /\ cpc' = [cpc EXCEPT ![e] = "quitClosed"]
    /\ UNCHANGED <<ctxDone, remoteClosed, sAlive, rAlive, pingT, pongT, rsT,
                   finCh, sendB, recvB, failed>>

\* FIN sent (or not needed, or lost, or timed out)
FinSend(e) ==
    /\ cpc[e] = "quitClosed"
    /\ finCh' = IF ~remoteClosed[e] /\ Net = "ok"
                THEN [finCh EXCEPT ![Peer(e)] = 1] ELSE finCh
    /\ cpc' = [cpc EXCEPT ![e] = "finTried"]
    /\ UNCHANGED <<quit, ctxDone, remoteClosed, sAlive, rAlive, pingT, pongT,
                   rsT, sendB, recvB, failed>>

Cancel(e) ==
    /\ cpc[e] = "finTried"
    /\ ctxDone' = [ctxDone EXCEPT ![e] = TRUE]
    /\ cpc' = [cpc EXCEPT ![e] = "cancelled"]
    /\ UNCHANGED <<quit, remoteClosed, sAlive, rAlive, pingT, pongT, rsT,
                   finCh, sendB, recvB, failed>>

Joined(e) ==
    /\ cpc[e] = "cancelled"
    /\ ~sAlive[e] /\ ~rAlive[e]
    /\ cpc' = [cpc EXCEPT ![e] = "joined"]
    /\ UNCHANGED <<quit, ctxDone, remoteClosed, sAlive, rAlive, pingT, pongT,
                   rsT, finCh, sendB, recvB, failed>>

StopTimers(e) ==
    /\ cpc[e] = "joined"
    /\ pingT' = [pingT EXCEPT ![e] = FALSE]
    /\ rsT' = [rsT EXCEPT ![e] = FALSE]
    /\ pongT' = IF PongStopped THEN [pongT EXCEPT ![e] = FALSE] ELSE pongT
    /\ cpc' = [cpc EXCEPT ![e] = "done"]
    /\ UNCHANGED <<quit, ctxDone, remoteClosed, sAlive, rAlive, finCh, sendB,
                   recvB, failed>>

\* The send loop returns.  why = "quit" | "err" (transport / keepalive).
SExit(e, why) ==
    /\ sAlive[e]
    /\ why = "quit" => quit[e]
    /\ sAlive' = [sAlive EXCEPT ![e] = FALSE]
    /\ UNCHANGED <<cpc, quit, ctxDone, remoteClosed, rAlive, pingT, pongT, rsT,
                   finCh, sendB, recvB, failed>>

\* The receive loop returns without having read a FIN.
RExit(e, why) ==
    /\ rAlive[e]
    /\ why = "quit" => quit[e]
    /\ rAlive' = [rAlive EXCEPT ![e] = FALSE]
    /\ UNCHANGED <<cpc, quit, ctxDone, remoteClosed, sAlive, pingT, pongT, rsT,
                   finCh, sendB, recvB, failed>>

\* The receive loop reads the peer's FIN.
RFin(e) ==
    /\ rAlive[e] /\ finCh[e] = 1
    /\ finCh' = [finCh EXCEPT ![e] = 0]
    /\ remoteClosed' = [remoteClosed EXCEPT ![e] = TRUE]
    /\ rAlive' = [rAlive EXCEPT ![e] = FALSE]
    /\ UNCHANGED <<cpc, quit, ctxDone, sAlive, pingT, pongT, rsT, sendB, recvB,
                   failed>>

\* A FIN that nobody reads any more stays in the transport.

\* A blocked application call wakes up with an error once quit is closed.
WakeSend(e) ==
    /\ sendB[e] /\ quit[e]
    /\ sendB' = [sendB EXCEPT ![e] = FALSE]
    /\ failed' = [failed EXCEPT ![e] = @ + 1]
    /\ UNCHANGED <<cpc, quit, ctxDone, remoteClosed, sAlive, rAlive, pingT,
                   pongT, rsT, finCh, recvB>>
WakeRecv(e) ==
    /\ recvB[e] /\ quit[e]
    /\ recvB' = [recvB EXCEPT ![e] = FALSE]
    /\ failed' = [failed EXCEPT ![e] = @ + 1]
    /\ UNCHANGED <<cpc, quit, ctxDone, remoteClosed, sAlive, rAlive, pingT,
                   pongT, rsT, finCh, sendB>>

\* Enabling conditions of the loop exits as the code has them.
SCanExit(e) == quit[e] \/ ctxDone[e]
RCanExit(e) == ctxDone[e]   \* blocked in recvFromStream until the ctx is cancelled

\* A loop that exited calls Close.
DeferredClose(e) == (~sAlive[e] \/ ~rAlive[e]) /\ CloseBegin(e)

\* Application (or any goroutine) calls Close at any moment.
AppClose(e) == CloseBegin(e)

\* The send loop can also die by itself: keepalive timeout or transport error.
SDies(e) == SExit(e, "err")

Next ==
    \E e \in EP :
        \/ AppClose(e) \/ DeferredClose(e)
        \/ FinSend(e) \/ Cancel(e) \/ Joined(e) \/ StopTimers(e)
        \/ SCanExit(e) /\ SExit(e, "quit")
        \/ SDies(e)
        \/ RCanExit(e) /\ RExit(e, "err")
        \/ RFin(e)
        \/ WakeSend(e) \/ WakeRecv(e)

Fair ==
    \A e \in EP :
        /\ WF_vars(FinSend(e)) /\ WF_vars(Cancel(e)) /\ WF_vars(Joined(e))
        /\ WF_vars(StopTimers(e))
        /\ WF_vars(SCanExit(e) /\ SExit(e, "quit"))
        /\ WF_vars(RCanExit(e) /\ RExit(e, "err"))
        /\ WF_vars(RFin(e)) /\ WF_vars(DeferredClose(e))
        /\ WF_vars(WakeSend(e)) /\ WF_vars(WakeRecv(e))

Spec == Init /\ [][Next]_vars /\ Fair

---------------------------------------------------------------------------
(* Properties (C12) *)

Closed(e) == cpc[e] = "done"

\* nothing belonging to the connection is left running after Close returned
NoLeak == \A e \in EP :
    Closed(e) => ~sAlive[e] /\ ~rAlive[e] /\ ~pingT[e] /\ ~pongT[e] /\ ~rsT[e]

\* Close, once begun, completes (every wait inside it is bounded)
CloseCompletes == \A e \in EP : (cpc[e] # "none") ~> Closed(e)

\* blocked callers are woken with an error
BlockedCallersWake == \A e \in EP :
    /\ (quit[e] /\ sendB[e]) ~> ~sendB[e]
    /\ (quit[e] /\ recvB[e]) ~> ~recvB[e]

\* when the transport delivers the FIN the peer closes too
PeerLearns == \A e \in EP :
    (Net = "ok" /\ Closed(e)) ~> Closed(Peer(e))

\* Close runs at most once: the body's progress is monotone
CpcOrder == <<"none", "quitClosed", "finTried", "cancelled", "joined", "done">>
Rank(x) == CHOOSE i \in 1..6 : CpcOrder[i] = x
Idempotent == [][\A e \in EP : Rank(cpc'[e]) >= Rank(cpc[e])]_vars
=============================================================================
