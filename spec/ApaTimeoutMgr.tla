--------------------------- MODULE ApaTimeoutMgr ---------------------------
(***************************************************************************)
(* TimeoutMgr.tla (gbn/timeout_manager.go: TimeoutManager + booster) once  *)
(* more, typed for Apalache, to lift C20 from bounded histories to EVERY   *)
(* history: an inductive invariant IndInv is discharged symbolically       *)
(*   IndInit => IndInv            (length 0)                               *)
(*   IndInv /\ Next => IndInv'    (length 1, from the symbolic state)      *)
(* for all 256 sequence numbers, unbounded clock values, every inter-event *)
(* time, every multiplier 1..8 and update frequency 1..200, static and     *)
(* adaptive mode; the state properties (FloorOK, StaticOK) follow from     *)
(* IndInv and the action properties (SampleClean, BoostRate,               *)
(* FreshSampleResets) are checked on the one symbolic step out of IndInv.  *)
(* The actions are those of TimeoutMgr.tla, statement by statement (TLC    *)
(* checks that module for bounded histories and validates the real         *)
(* TimeoutManager against it; this module is kept in step by hand and by   *)
(* MC_ApaTimeoutMgr-free construction: same names, same bodies).           *)
(***************************************************************************)
EXTENDS Integers

CONSTANTS
    \* @type: Bool;
    Static,
    \* @type: Int;
    Initial,
    \* @type: Int;
    Mult,
    \* @type: Int;
    Freq

Floor == 1000
None == -1
Seqs == 0..3   \* the actions touch one sequence number per step and treat all alike (data independence): four stand for the 256

CInit == /\ Static \in BOOLEAN
         /\ Initial \in 1..100000
         /\ (~Static => Initial >= Floor)
         /\ Mult \in 1..8
         /\ Freq \in 1..200

VARIABLES
    \* @type: Int;
    now,
    \* @type: Int;
    orig,
    \* @type: Int;
    cnt,
    \* @type: Int;
    lastBoost,
    \* @type: Int;
    hsCnt,
    \* @type: Int -> Int;
    sentAt,
    \* @type: Int;
    synAt,
    \* @type: Bool;
    hasDyn,
    \* @type: Int;
    resp,
    \* @type: Int -> Int;
    firstTx,
    \* @type: Int -> Int;
    firstTxN,
    \* @type: Int -> Int;
    lastRsN,
    \* @type: Int;
    evn,
    \* @type: Int;
    updates,
    \* @type: { op: Str, k: Str, seq: Int, resent: Bool };
    lastEv

\* Mult * rt without a non-linear term
Times(rt) ==
    IF Mult = 1 THEN rt ELSE IF Mult = 2 THEN 2 * rt
    ELSE IF Mult = 3 THEN 3 * rt ELSE IF Mult = 4 THEN 4 * rt
    ELSE IF Mult = 5 THEN 5 * rt ELSE IF Mult = 6 THEN 6 * rt
    ELSE IF Mult = 7 THEN 7 * rt ELSE 8 * rt
Clamp(rt) == IF Times(rt) < Floor THEN Floor ELSE Times(rt)

Init ==
    /\ now = 0
    /\ orig = Initial /\ cnt = 0 /\ lastBoost = None
    /\ hsCnt = 0
    /\ sentAt = [q \in Seqs |-> None]
    /\ synAt = None
    /\ hasDyn = FALSE /\ resp = 0
    /\ firstTx = [q \in Seqs |-> None] /\ firstTxN = [q \in Seqs |-> None]
    /\ lastRsN = [q \in Seqs |-> None] /\ evn = 0
    /\ updates = 0
    /\ lastEv = [op |-> "init", k |-> "", seq |-> 0, resent |-> FALSE]

Advance ==
    \E d \in Int :
        /\ d > 0
        /\ now' = now + d
        /\ lastEv' = [op |-> "adv", k |-> "", seq |-> 0, resent |-> FALSE]
        /\ UNCHANGED <<orig, cnt, lastBoost, hsCnt, sentAt, synAt, hasDyn,
                       resp, firstTx, firstTxN, lastRsN, evn, updates>>

Update(rt) ==
    /\ hasDyn' = TRUE
    /\ orig' = Clamp(rt) /\ cnt' = 0 /\ lastBoost' = now
    /\ updates' = updates + 1

BoostResend ==
    IF lastBoost # None /\ now - lastBoost < orig
    THEN UNCHANGED <<cnt, lastBoost>>
    ELSE cnt' = cnt + 1 /\ lastBoost' = now

SentSyn ==
    \E resent \in BOOLEAN :
        /\ lastEv' = [op |-> "sent", k |-> "SYN", seq |-> 0, resent |-> resent]
        /\ IF Static THEN UNCHANGED <<synAt, hsCnt>>
           ELSE IF ~resent THEN synAt' = now /\ UNCHANGED hsCnt
           ELSE synAt' = None /\ hsCnt' = hsCnt + 1
        /\ evn' = evn + 1
        /\ UNCHANGED <<now, orig, cnt, lastBoost, sentAt, hasDyn, resp,
                       firstTx, firstTxN, lastRsN, updates>>

SentData ==
    \E q \in Seqs : \E resent \in BOOLEAN :
        /\ lastEv' = [op |-> "sent", k |-> "DATA", seq |-> q, resent |-> resent]
        /\ evn' = evn + 1
        /\ firstTx' = IF resent THEN firstTx ELSE [firstTx EXCEPT ![q] = now]
        /\ firstTxN' = IF resent THEN firstTxN
                       ELSE [firstTxN EXCEPT ![q] = evn + 1]
        /\ lastRsN' = IF resent THEN [lastRsN EXCEPT ![q] = evn + 1]
                      ELSE lastRsN
        /\ IF Static THEN UNCHANGED <<sentAt, cnt, lastBoost>>
           ELSE IF resent
           THEN sentAt' = [sentAt EXCEPT ![q] = None] /\ BoostResend
           ELSE sentAt' = [sentAt EXCEPT ![q] = now]
                /\ UNCHANGED <<cnt, lastBoost>>
        /\ UNCHANGED <<now, orig, hsCnt, synAt, hasDyn, resp, updates>>

RecvSyn ==
    /\ lastEv' = [op |-> "recv", k |-> "SYN", seq |-> 0, resent |-> FALSE]
    /\ IF Static \/ synAt = None
       THEN UNCHANGED <<synAt, hasDyn, orig, cnt, lastBoost, updates>>
       ELSE synAt' = None /\ Update(now - synAt)
    /\ evn' = evn + 1
    /\ UNCHANGED <<now, hsCnt, sentAt, resp, firstTx, firstTxN, lastRsN>>

RecvAck ==
    \E q \in Seqs :
        /\ lastEv' = [op |-> "recv", k |-> "ACK", seq |-> q, resent |-> FALSE]
        /\ IF Static \/ sentAt[q] = None
           THEN UNCHANGED <<sentAt, resp, hasDyn, orig, cnt, lastBoost,
                            updates>>
           ELSE /\ sentAt' = [sentAt EXCEPT ![q] = None]
                /\ IF ~hasDyn \/ (resp + 1) % Freq = 0
                   THEN resp' = 0 /\ Update(now - sentAt[q])
                   ELSE resp' = resp + 1
                        /\ UNCHANGED <<hasDyn, orig, cnt, lastBoost, updates>>
        /\ evn' = evn + 1
        /\ UNCHANGED <<now, hsCnt, synAt, firstTx, firstTxN, lastRsN>>

Next == Advance \/ SentSyn \/ SentData \/ RecvSyn \/ RecvAck

---------------------------------------------------------------------------
(* the inductive invariant: types, the bookkeeping that makes a stored send *)
(* time a clean sample, and the two state properties of C20                 *)
IndInv ==
    /\ now >= 0 /\ evn >= 0 /\ updates >= 0 /\ resp >= 0
    /\ cnt >= 0 /\ hsCnt >= 0
    /\ lastBoost >= None /\ lastBoost <= now
    /\ synAt >= None /\ synAt <= now
    /\ sentAt \in [Seqs -> Int] /\ firstTx \in [Seqs -> Int]
    /\ firstTxN \in [Seqs -> Int] /\ lastRsN \in [Seqs -> Int]
    /\ \A q \in Seqs :
        /\ sentAt[q] >= None /\ sentAt[q] <= now
        /\ firstTxN[q] <= evn /\ lastRsN[q] <= evn
        \* a stored send time is the time of the last first transmission of
        \* that sequence number, and nothing was retransmitted since
        /\ sentAt[q] # None =>
              /\ firstTx[q] = sentAt[q] /\ firstTxN[q] # None
              /\ (lastRsN[q] = None \/ lastRsN[q] < firstTxN[q])
    \* FloorOK: adaptive mode never goes below the one-second floor
    /\ ~Static => orig >= Floor
    \* StaticOK: a static timeout is never changed by traffic
    /\ Static => /\ orig = Initial /\ cnt = 0 /\ hsCnt = 0 /\ ~hasDyn
                 /\ updates = 0 /\ synAt = None
                 /\ \A q \in Seqs : sentAt[q] = None

\* any state satisfying the invariant (the symbolic start of the step check)
IndInit ==
    /\ now \in Int /\ orig \in Int /\ cnt \in Int /\ lastBoost \in Int
    /\ hsCnt \in Int /\ synAt \in Int /\ hasDyn \in BOOLEAN /\ resp \in Int
    /\ evn \in Int /\ updates \in Int
    /\ sentAt \in [Seqs -> Int] /\ firstTx \in [Seqs -> Int]
    /\ firstTxN \in [Seqs -> Int] /\ lastRsN \in [Seqs -> Int]
    /\ lastEv = [op |-> "any", k |-> "", seq |-> 0, resent |-> FALSE]
    /\ IndInv

(* the action properties of TimeoutMgr.tla as action invariants of the one  *)
(* symbolic step                                                            *)
SampleCleanA ==
    (updates' = updates + 1 /\ lastEv'.op = "recv" /\ lastEv'.k = "ACK") =>
        LET q == lastEv'.seq IN
        /\ firstTx[q] # None
        /\ (lastRsN[q] = None \/ lastRsN[q] < firstTxN[q])
        /\ orig' = Clamp(now - firstTx[q])

BoostRateA ==
    /\ cnt' > cnt =>
          /\ cnt' = cnt + 1
          /\ lastEv'.op = "sent" /\ lastEv'.k = "DATA" /\ lastEv'.resent
          /\ (lastBoost = None \/ now - lastBoost >= orig)
    \* the base grows only through a fresh sample
    /\ orig' # orig => updates' > updates

FreshSampleResetsA ==
    updates' > updates => cnt' = 0 /\ orig' >= Floor /\ lastBoost' = now

ActionProps == SampleCleanA /\ BoostRateA /\ FreshSampleResetsA

\* a deliberately wrong claim Apalache must refute (the check is not vacuous):
\* "a retransmission never boosts twice within two base intervals"
WrongRateA ==
    cnt' > cnt => (lastBoost = None \/ now - lastBoost >= 2 * orig)
=============================================================================
