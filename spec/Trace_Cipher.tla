---------------------------- MODULE Trace_Cipher ----------------------------
(***************************************************************************)
(* C08: validation of the real cipher states' (key, nonce) usage, reported  *)
(* by the hooks in cipherState.Encrypt / Decrypt / rotateKey, against       *)
(* CipherStream.tla's discipline.  Keys appear as 32-bit fingerprints.      *)
(*  {"op":"new"}                                                            *)
(*  {"op":"enc","dir":d,"key":fp,"nonce":n}   writer of direction d         *)
(*  {"op":"dec","dir":d,"key":fp,"nonce":n}   reader of direction d         *)
(*  {"op":"rot","dir":d,"role":"w"|"r","key":fp,"nonce":0}                  *)
(*  {"op":"read","dir":d,"ok":1,"match":1,"len":L}                          *)
(*  {"op":"end","collisions":0,"plainHits":0,"authHits":0}                  *)
(***************************************************************************)
EXTENDS CipherOps, Json, TLC

CONSTANTS TraceFile, Dirs
Trace == ndJsonDeserialize(TraceFile)

VARIABLES l,
          ws, rs,     \* [Dirs -> [fp, nonce, gen]] writer / reader cipher state
          pairs,      \* [Dirs -> Seq(<<fp, nonce>>)] pairs used by the writer
          rdIdx,      \* [Dirs -> Nat] records the reader has processed
          usedP,      \* set of <<fp, nonce>> used for encryption (any direction)
          fps         \* set of key fingerprints seen so far

tvars == <<l, ws, rs, pairs, rdIdx, usedP, fps>>
Ev == Trace[l]
Is(o) == l <= Len(Trace) /\ Trace[l].op = o
Adv == l' = l + 1
D == Ev.dir
Unset == -1

Fresh0 == [d \in Dirs |-> [fp |-> Unset, nonce |-> 0, gen |-> 0]]

TNew == /\ Is("new") /\ Adv
        /\ ws' = Fresh0 /\ rs' = Fresh0
        /\ pairs' = [d \in Dirs |-> <<>>] /\ rdIdx' = [d \in Dirs |-> 0]
        /\ usedP' = {} /\ fps' = {}

\* an encryption: the nonce is the state's counter (below the rotation
\* interval), the key is the state's current key, the pair is fresh
TEnc ==
    /\ Is("enc") /\ Adv
    /\ Ev.nonce = ws[D].nonce /\ Ev.nonce < ROT
    /\ (ws[D].fp = Unset \/ ws[D].fp = Ev.key)
    /\ <<Ev.key, Ev.nonce>> \notin usedP
    /\ usedP' = usedP \cup {<<Ev.key, Ev.nonce>>}
    /\ fps' = fps \cup {Ev.key}
    /\ pairs' = [pairs EXCEPT ![D] = Append(@, <<Ev.key, Ev.nonce>>)]
    /\ ws' = [ws EXCEPT ![D] = [fp |-> Ev.key, nonce |-> Ev.nonce + 1, gen |-> @.gen]]
    /\ UNCHANGED <<rs, rdIdx>>

\* a decryption: lock step with the writer's pair for the same record
TDec ==
    /\ Is("dec") /\ Adv
    /\ Ev.nonce = rs[D].nonce /\ Ev.nonce < ROT
    /\ (rs[D].fp = Unset \/ rs[D].fp = Ev.key)
    /\ rdIdx[D] < Len(pairs[D])
    /\ pairs[D][rdIdx[D] + 1] = <<Ev.key, Ev.nonce>>
    /\ rdIdx' = [rdIdx EXCEPT ![D] = @ + 1]
    /\ rs' = [rs EXCEPT ![D] = [fp |-> Ev.key, nonce |-> Ev.nonce + 1, gen |-> @.gen]]
    /\ UNCHANGED <<ws, pairs, usedP, fps>>

\* key rotation exactly when the nonce reaches the interval; the new key is
\* one never seen before (writer) / the writer's next key (reader)
TRot ==
    /\ Is("rot") /\ Adv
    /\ Ev.nonce = 0
    /\ IF Ev.role = "w"
       THEN /\ ws[D].nonce = ROT
            /\ Ev.key \notin fps
            /\ fps' = fps \cup {Ev.key}
            /\ ws' = [ws EXCEPT ![D] = [fp |-> Ev.key, nonce |-> 0, gen |-> @.gen + 1]]
            /\ UNCHANGED rs
       ELSE /\ rs[D].nonce = ROT
            /\ rs' = [rs EXCEPT ![D] = [fp |-> Ev.key, nonce |-> 0, gen |-> @.gen + 1]]
            /\ UNCHANGED <<ws, fps>>
    /\ UNCHANGED <<pairs, rdIdx, usedP>>

TRead == /\ Is("read") /\ Adv
         /\ Ev.ok = 1 /\ Ev.match = 1
         /\ UNCHANGED <<ws, rs, pairs, rdIdx, usedP, fps>>

TEnd == /\ Is("end") /\ Adv
        /\ Ev.collisions = 0 /\ Ev.plainHits = 0 /\ Ev.authHits = 0
        /\ \A d \in Dirs : rdIdx[d] = Len(pairs[d])     \* everything written was read
        /\ UNCHANGED <<ws, rs, pairs, rdIdx, usedP, fps>>

TraceNext == TNew \/ TEnc \/ TDec \/ TRot \/ TRead \/ TEnd
TraceSpec == /\ l = 1 /\ ws = Fresh0 /\ rs = Fresh0
             /\ pairs = [d \in Dirs |-> <<>>] /\ rdIdx = [d \in Dirs |-> 0]
             /\ usedP = {} /\ fps = {}
             /\ [][TraceNext]_tvars

\* nonces never reach past the interval without a rotation
TraceNonceBound == \A d \in Dirs : ws[d].nonce <= ROT /\ rs[d].nonce <= ROT

TraceAccepted ==
    LET d == TLCGet("stats").diameter IN
    IF d - 1 = Len(Trace) THEN TRUE
    ELSE Print(<<"TRACE_REJECTED_AT_LINE", d, "OF", Len(Trace)>>, FALSE)
=============================================================================
