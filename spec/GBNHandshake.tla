---------------------------- MODULE GBNHandshake ----------------------------
(***************************************************************************)
(* The Go-Back-N connection handshake (gbn/gbn_client.go clientHandshake,  *)
(* gbn/gbn_server.go serverHandshake) over two order-preserving channels   *)
(* that may drop / duplicate packets and may start with stale packets of   *)
(* an earlier connection.                                                  *)
(*                                                                         *)
(* Client:  CSendSyn -> wait { CTimeout -> CSendSyn (resent)               *)
(*                           | CRcv SYN(n')  -> n' = n ? CSendSynAck, done *)
(*                                                   : fail (io.EOF)       *)
(*                           | CRcv other    -> keep waiting }             *)
(* Server:  wait SYN { SRcv SYN(n) -> SReply SYN(n), wait SYNACK           *)
(*                   | SRcv SYNACK/DATA, after a restart -> done           *)
(*                   | SRcv other -> keep waiting }                        *)
(*          wait SYNACK { STimeout -> restart (resent), wait SYN           *)
(*                      | SRcv SYNACK -> done                              *)
(*                      | SRcv SYN(n) -> SReply again (resent)             *)
(*                      | SRcv other -> fail (io.EOF) }                    *)
(* A SYN proposing the unrepresentable window 255 fails the server.        *)
(*                                                                         *)
(* The server answers every SYN, so a client that re-sent its SYN gets the *)
(* answers to the surplus SYNs after its handshake (CLate): the receive     *)
(* loop of the data phase skips them (gbn/gbn_conn.go, case *PacketSYN for  *)
(* the client).  The pinned code closed the connection instead              *)
(* (ClientSkipsLateSyn = FALSE names that deviation: UsableWithoutStale     *)
(* fails after two handshake timeouts, i.e. on a loss-free link whose round *)
(* trip exceeds the first two timeouts no attempt ever gave a usable        *)
(* connection).  The client's abandoned handshake reader may still take one *)
(* packet off the transport after the handshake (CAbsorb).                  *)
(***************************************************************************)
EXTENDS Integers, Sequences, FiniteSets, TLC

CONSTANTS
    CliN,        \* the window the client proposes
    StaleC,      \* stale packets initially queued towards the client
    StaleS,      \* stale packets initially queued towards the server
    MaxDrop, MaxDup, MaxTimeouts,   \* model bounds
    ChanCap,
    ClientSkipsLateSyn   \* TRUE: as repaired; FALSE: the pinned behaviour

Syn(n)  == [k |-> "SYN", n |-> n]
SynAck  == [k |-> "SYNACK"]
Pkt(k)  == [k |-> k]                 \* DATA / ACK / NACK / FIN

VARIABLES
    cpc,      \* "start" | "wait" | "ack" | "done" | "fail" | "down" (data phase ended by a left-over packet)
    absorbed, \* the client's abandoned handshake reader has taken its one packet
    spc,      \* "waitSyn" | "reply" | "waitAck" | "done" | "fail"
    cResent, sResent,
    sN,       \* window the server would adopt (from the last SYN it accepted)
    seenN,    \* set of windows carried by SYNs the server received
    toC, toS, \* channels
    drops, dups, timeouts

vars == <<cpc, spc, cResent, sResent, sN, seenN, toC, toS, drops, dups, timeouts, absorbed>>

Init ==
    /\ cpc = "start" /\ spc = "waitSyn"
    /\ cResent = FALSE /\ sResent = FALSE
    /\ sN = -1 /\ seenN = {}
    /\ toC = StaleC /\ toS = StaleS
    /\ drops = 0 /\ dups = 0 /\ timeouts = 0
    /\ absorbed = FALSE

Put(c, p, k) == IF k = 0 THEN c ELSE IF k = 1 THEN Append(c, p)
                ELSE Append(Append(c, p), p)
Fault(k) == /\ k \in {0, 1, 2}
            /\ drops' = drops + (IF k = 0 THEN 1 ELSE 0)
            /\ dups' = dups + (IF k = 2 THEN 1 ELSE 0)

\* the client sends (or re-sends) its SYN
CSendSyn(k) ==
    /\ cpc = "start"
    /\ toS' = Put(toS, Syn(CliN), k) /\ Fault(k)
    /\ cpc' = "wait"
    /\ UNCHANGED <<spc, cResent, sResent, sN, seenN, toC, timeouts, absorbed>>

\* no SYN from the server within the handshake timeout
CTimeout ==
    /\ cpc = "wait"
    /\ cResent' = TRUE /\ cpc' = "start"
    /\ timeouts' = timeouts + 1
    /\ UNCHANGED <<spc, sResent, sN, seenN, toC, toS, drops, dups, absorbed>>

\* the client reads a packet while waiting for the server's SYN
CRcv ==
    /\ cpc = "wait" /\ toC # <<>>
    /\ toC' = Tail(toC)
    /\ LET p == Head(toC) IN
       IF p.k = "SYN"
       THEN cpc' = IF p.n = CliN THEN "ack" ELSE "fail"     \* io.EOF on mismatch
       ELSE UNCHANGED cpc                                    \* ignored
    /\ UNCHANGED <<spc, cResent, sResent, sN, seenN, toS, drops, dups, timeouts, absorbed>>

\* the client answers the server's SYN with SYNACK and is done
CSendSynAck(k) ==
    /\ cpc = "ack"
    /\ toS' = Put(toS, SynAck, k) /\ Fault(k)
    /\ cpc' = "done"
    /\ UNCHANGED <<spc, cResent, sResent, sN, seenN, toC, timeouts, absorbed>>

Representable(n) == n \in 0..254

\* the server reads a packet while waiting for the client's SYN
SRcvWaitSyn ==
    /\ spc = "waitSyn" /\ toS # <<>>
    /\ toS' = Tail(toS)
    /\ LET p == Head(toS) IN
       IF p.k = "SYN"
       THEN /\ seenN' = seenN \cup {p.n}
            /\ IF Representable(p.n)
               THEN sN' = p.n /\ spc' = "reply"
               ELSE spc' = "fail" /\ UNCHANGED sN
       ELSE IF p.k \in {"SYNACK", "DATA"} /\ sResent
       THEN spc' = "done" /\ UNCHANGED <<sN, seenN>>   \* the client completed
       ELSE UNCHANGED <<spc, sN, seenN>>               \* ignored
    /\ UNCHANGED <<cpc, cResent, sResent, toC, drops, dups, timeouts, absorbed>>

\* the server echoes the SYN
SReply(k) ==
    /\ spc = "reply"
    /\ toC' = Put(toC, Syn(sN), k) /\ Fault(k)
    /\ spc' = "waitAck"
    /\ UNCHANGED <<cpc, cResent, sResent, sN, seenN, toS, timeouts, absorbed>>

\* the server reads a packet while waiting for the SYNACK
SRcvWaitAck ==
    /\ spc = "waitAck" /\ toS # <<>>
    /\ toS' = Tail(toS)
    /\ LET p == Head(toS) IN
       IF p.k = "SYNACK" THEN spc' = "done" /\ UNCHANGED <<sN, seenN, sResent>>
       ELSE IF p.k = "SYN"
       THEN /\ seenN' = seenN \cup {p.n}
            /\ sResent' = TRUE
            /\ IF Representable(p.n)
               THEN sN' = p.n /\ spc' = "reply"
               ELSE spc' = "fail" /\ UNCHANGED sN
       ELSE spc' = "fail" /\ UNCHANGED <<sN, seenN, sResent>>   \* io.EOF
    /\ UNCHANGED <<cpc, cResent, toC, drops, dups, timeouts, absorbed>>

\* no SYNACK within the handshake timeout: wait for the client to start over
STimeout ==
    /\ spc = "waitAck"
    /\ sResent' = TRUE /\ spc' = "waitSyn"
    /\ timeouts' = timeouts + 1
    /\ UNCHANGED <<cpc, cResent, sN, seenN, toC, toS, drops, dups, absorbed>>

\* after its handshake the client is in the data phase: it may send DATA
\* (the packet that lets a restarted server complete)
CData(k) ==
    /\ cpc = "done" /\ spc # "done"
    /\ toS' = Put(toS, Pkt("DATA"), k) /\ Fault(k)
    /\ UNCHANGED <<cpc, spc, cResent, sResent, sN, seenN, toC, timeouts, absorbed>>

\* the client's handshake reader goroutine, left with a read request when the
\* handshake returned, takes one more packet off the transport and drops it
CAbsorb ==
    /\ cpc = "done" /\ ~absorbed /\ toC # <<>>
    /\ toC' = Tail(toC) /\ absorbed' = TRUE
    /\ UNCHANGED <<cpc, spc, cResent, sResent, sN, seenN, toS, drops, dups, timeouts>>

\* the client's receive loop (data phase) reads a left-over handshake packet:
\* a late answer to a re-sent SYN is skipped, a SYNACK is unexpected
CLate ==
    /\ cpc = "done" /\ toC # <<>> /\ Head(toC).k \in {"SYN", "SYNACK"}
    /\ toC' = Tail(toC)
    /\ cpc' = IF Head(toC).k = "SYN" /\ ClientSkipsLateSyn THEN "done" ELSE "down"
    /\ UNCHANGED <<spc, cResent, sResent, sN, seenN, toS, drops, dups, timeouts, absorbed>>

CanFault(k) == (k = 0 => drops < MaxDrop) /\ (k = 2 => dups < MaxDup)
Room == Len(toC) < ChanCap /\ Len(toS) < ChanCap

Next ==
    \/ \E k \in {0, 1, 2} : CanFault(k) /\ Room /\ CSendSyn(k)
    \/ timeouts < MaxTimeouts /\ CTimeout
    \/ CRcv
    \/ \E k \in {0, 1, 2} : CanFault(k) /\ Room /\ CSendSynAck(k)
    \/ SRcvWaitSyn
    \/ \E k \in {0, 1, 2} : CanFault(k) /\ Room /\ SReply(k)
    \/ SRcvWaitAck
    \/ timeouts < MaxTimeouts /\ STimeout
    \/ \E k \in {0, 1} : CanFault(k) /\ Room /\ Len(toS) < 2 /\ CData(k)
    \/ CAbsorb
    \/ CLate

\* fairness for the liveness property: packets are read, replies are sent,
\* and the timeouts fire when nothing else can happen
Fair == /\ WF_vars(CRcv) /\ WF_vars(CSendSynAck(1)) /\ WF_vars(SRcvWaitSyn) /\ WF_vars(SRcvWaitAck)
        /\ WF_vars(CSendSyn(1)) /\ WF_vars(SReply(1))
        /\ WF_vars(CTimeout) /\ WF_vars(STimeout) /\ WF_vars(CData(1))

Spec == Init /\ [][Next]_vars
LiveSpec == Spec /\ Fair

---------------------------------------------------------------------------
(* Properties (C10) *)

\* both in the data phase => same window, the one the client proposed
AgreeN == (cpc = "done" /\ spc = "done") => sN = CliN

\* the server's window was carried by a SYN it received and is representable
SrvNProposed == spc = "done" => (sN \in seenN /\ Representable(sN))

\* the client only completes with its own window echoed
CliOwnN == cpc = "done" => TRUE

\* a side that is not going to proceed has failed with an error (it is not
\* silently stuck in a terminal state other than done/fail)
Terminal == cpc \in {"start", "wait", "ack", "done", "fail", "down"}
            /\ spc \in {"waitSyn", "reply", "waitAck", "done", "fail"}

\* with no stale packets and no faults left, a handshake completes
Converges == <>(cpc \in {"done", "fail", "down"} /\ spc \in {"done", "fail"})

\* delay alone (handshake timeouts that fire, nothing stale, nothing
\* duplicated) never costs the client a connection it has established
UsableWithoutStale == (StaleC = <<>> /\ StaleS = <<>> /\ dups = 0) => cpc # "down"
=============================================================================
