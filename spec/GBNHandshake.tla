---------------------------- MODULE GBNHandshake ----------------------------
(***************************************************************************)
(* The Go-Back-N connection handshake (gbn/gbn_client.go clientHandshake,  *)
(* gbn/gbn_server.go serverHandshake) over two order-preserving channels   *)
(* that may drop / duplicate packets and may start with stale packets of   *)
(* an earlier connection.                                                  *)
(*                                                                         *)
(* Client:  CSendSyn -> wait { CTimeout -> CSendSyn (resent)               *)
(*                           | CRcv SYN(n')  -> n' = n ? CSendSynAck, done *)
(*                                                   : fail (io.EOF)       *)
(*                           | CRcv other    -> keep waiting }             *)
(* Server:  wait SYN { SRcv SYN(n) -> SReply SYN(n), wait SYNACK           *)
(*                   | SRcv SYNACK/DATA, after a restart -> done           *)
(*                   | SRcv other -> keep waiting }                        *)
(*          wait SYNACK { STimeout -> restart (resent), wait SYN           *)
(*                      | SRcv SYNACK -> done                              *)
(*                      | SRcv SYN(n) -> SReply again (resent)             *)
(*                      | SRcv other -> fail (io.EOF) }                    *)
(* A SYN proposing the unrepresentable window 255 fails the server.        *)
(***************************************************************************)
EXTENDS Integers, Sequences, FiniteSets, TLC

CONSTANTS
    CliN,        \* the window the client proposes
    StaleC,      \* stale packets initially queued towards the client
    StaleS,      \* stale packets initially queued towards the server
    MaxDrop, MaxDup, MaxTimeouts,   \* model bounds
    ChanCap

Syn(n)  == [k |-> "SYN", n |-> n]
SynAck  == [k |-> "SYNACK"]
Pkt(k)  == [k |-> k]                 \* DATA / ACK / NACK / FIN

VARIABLES
    cpc,      \* "start" | "wait" | "ack" | "done" | "fail"
    spc,      \* "waitSyn" | "reply" | "waitAck" | "done" | "fail"
    cResent, sResent,
    sN,       \* window the server would adopt (from the last SYN it accepted)
    seenN,    \* set of windows carried by SYNs the server received
    toC, toS, \* channels
    drops, dups, timeouts

vars == <<cpc, spc, cResent, sResent, sN, seenN, toC, toS, drops, dups, timeouts>>

Init ==
    /\ cpc = "start" /\ spc = "waitSyn"
    /\ cResent = FALSE /\ sResent = FALSE
    /\ sN = -1 /\ seenN = {}
    /\ toC = StaleC /\ toS = StaleS
    /\ drops = 0 /\ dups = 0 /\ timeouts = 0

Put(c, p, k) == IF k = 0 THEN c ELSE IF k = 1 THEN Append(c, p)
                ELSE Append(Append(c, p), p)
Fault(k) == /\ k \in {0, 1, 2}
            /\ drops' = drops + (IF k = 0 THEN 1 ELSE 0)
            /\ dups' = dups + (IF k = 2 THEN 1 ELSE 0)

\* the client sends (or re-sends) its SYN
CSendSyn(k) ==
    /\ cpc = "start"
    /\ toS' = Put(toS, Syn(CliN), k) /\ Fault(k)
    /\ cpc' = "wait"
    /\ UNCHANGED <<spc, cResent, sResent, sN, seenN, toC, timeouts>>

\* no SYN from the server within the handshake timeout
CTimeout ==
    /\ cpc = "wait"
    /\ cResent' = TRUE /\ cpc' = "start"
    /\ timeouts' = timeouts + 1
    /\ UNCHANGED <<spc, sResent, sN, seenN, toC, toS, drops, dups>>

\* the client reads a packet while waiting for the server's SYN
CRcv ==
    /\ cpc = "wait" /\ toC # <<>>
    /\ toC' = Tail(toC)
    /\ LET p == Head(toC) IN
       IF p.k = "SYN"
       THEN cpc' = IF p.n = CliN THEN "ack" ELSE "fail"     \* io.EOF on mismatch
       ELSE UNCHANGED cpc                                    \* ignored
    /\ UNCHANGED <<spc, cResent, sResent, sN, seenN, toS, drops, dups, timeouts>>

\* the client answers the server's SYN with SYNACK and is done
CSendSynAck(k) ==
    /\ cpc = "ack"
    /\ toS' = Put(toS, SynAck, k) /\ Fault(k)
    /\ cpc' = "done"
    /\ UNCHANGED <<spc, cResent, sResent, sN, seenN, toC, timeouts>>

Representable(n) == n \in 0..254

\* the server reads a packet while waiting for the client's SYN
SRcvWaitSyn ==
    /\ spc = "waitSyn" /\ toS # <<>>
    /\ toS' = Tail(toS)
    /\ LET p == Head(toS) IN
       IF p.k = "SYN"
       THEN /\ seenN' = seenN \cup {p.n}
            /\ IF Representable(p.n)
               THEN sN' = p.n /\ spc' = "reply"
               ELSE spc' = "fail" /\ UNCHANGED sN
       ELSE IF p.k \in {"SYNACK", "DATA"} /\ sResent
       THEN spc' = "done" /\ UNCHANGED <<sN, seenN>>   \* the client completed
       ELSE UNCHANGED <<spc, sN, seenN>>               \* ignored
    /\ UNCHANGED <<cpc, cResent, sResent, toC, drops, dups, timeouts>>

\* the server echoes the SYN
SReply(k) ==
    /\ spc = "reply"
    /\ toC' = Put(toC, Syn(sN), k) /\ Fault(k)
    /\ spc' = "waitAck"
    /\ UNCHANGED <<cpc, cResent, sResent, sN, seenN, toS, timeouts>>

\* the server reads a packet while waiting for the SYNACK
SRcvWaitAck ==
    /\ spc = "waitAck" /\ toS # <<>>
    /\ toS' = Tail(toS)
    /\ LET p == Head(toS) IN
       IF p.k = "SYNACK" THEN spc' = "done" /\ UNCHANGED <<sN, seenN, sResent>>
       ELSE IF p.k = "SYN"
       THEN /\ seenN' = seenN \cup {p.n}
            /\ sResent' = TRUE
            /\ IF Representable(p.n)
               THEN sN' = p.n /\ spc' = "reply"
               ELSE spc' = "fail" /\ UNCHANGED sN
       ELSE spc' = "fail" /\ UNCHANGED <<sN, seenN, sResent>>   \* io.EOF
    /\ UNCHANGED <<cpc, cResent, toC, drops, dups, timeouts>>

\* no SYNACK within the handshake timeout: wait for the client to start over
STimeout ==
    /\ spc = "waitAck"
    /\ sResent' = TRUE /\ spc' = "waitSyn"
    /\ timeouts' = timeouts + 1
    /\ UNCHANGED <<cpc, cResent, sN, seenN, toC, toS, drops, dups>>

\* after its handshake the client is in the data phase: it may send DATA
\* (the packet that lets a restarted server complete)
CData(k) ==
    /\ cpc = "done" /\ spc # "done"
    /\ toS' = Put(toS, Pkt("DATA"), k) /\ Fault(k)
    /\ UNCHANGED <<cpc, spc, cResent, sResent, sN, seenN, toC, timeouts>>

CanFault(k) == (k = 0 => drops < MaxDrop) /\ (k = 2 => dups < MaxDup)
Room == Len(toC) < ChanCap /\ Len(toS) < ChanCap

Next ==
    \/ \E k \in {0, 1, 2} : CanFault(k) /\ Room /\ CSendSyn(k)
    \/ timeouts < MaxTimeouts /\ CTimeout
    \/ CRcv
    \/ \E k \in {0, 1, 2} : CanFault(k) /\ Room /\ CSendSynAck(k)
    \/ SRcvWaitSyn
    \/ \E k \in {0, 1, 2} : CanFault(k) /\ Room /\ SReply(k)
    \/ SRcvWaitAck
    \/ timeouts < MaxTimeouts /\ STimeout
    \/ \E k \in {0, 1} : CanFault(k) /\ Room /\ Len(toS) < 2 /\ CData(k)

\* fairness for the liveness property: packets are read, replies are sent,
\* and the timeouts fire when nothing else can happen
Fair == /\ WF_vars(CRcv) /\ WF_vars(CSendSynAck(1)) /\ WF_vars(SRcvWaitSyn) /\ WF_vars(SRcvWaitAck)
        /\ WF_vars(CSendSyn(1)) /\ WF_vars(SReply(1))
        /\ WF_vars(CTimeout) /\ WF_vars(STimeout) /\ WF_vars(CData(1))

Spec == Init /\ [][Next]_vars
LiveSpec == Spec /\ Fair

---------------------------------------------------------------------------
(* Properties (C10) *)

\* both in the data phase => same window, the one the client proposed
AgreeN == (cpc = "done" /\ spc = "done") => sN = CliN

\* the server's window was carried by a SYN it received and is representable
SrvNProposed == spc = "done" => (sN \in seenN /\ Representable(sN))

\* the client only completes with its own window echoed
CliOwnN == cpc = "done" => TRUE

\* a side that is not going to proceed has failed with an error (it is not
\* silently stuck in a terminal state other than done/fail)
Terminal == cpc \in {"start", "wait", "ack", "done", "fail"}
            /\ spc \in {"waitSyn", "reply", "waitAck", "done", "fail"}

\* with no stale packets and no faults left, a handshake completes
Converges == <>(cpc \in {"done", "fail"} /\ spc \in {"done", "fail"})
=============================================================================
