------------------------------- MODULE Status -------------------------------
(***************************************************************************)
(* What a user of the mailbox client is told about the session: the status  *)
(* register of every ClientConn and Client.status, which ConnStatus()       *)
(* reports ("Not Connected", "Session Not Found", "Session In Use",         *)
(* "Connected").  This is how a connection that does not come up, or that   *)
(* has gone down, "fails visibly" above the byte stream.                    *)
(*                                                                          *)
(*   mailbox/client_conn.go  setStatus (one critical section under          *)
(*                           statusMu: keep a detailed status against "Not  *)
(*                           Connected", else write the register and call   *)
(*                           the callback), recv / send (what they ask      *)
(*                           for), the WithOnFIN closure, NewClientConn /   *)
(*                           RefreshClientConn (a fresh register)           *)
(*   mailbox/client.go       Dial (new or refreshed connection, the callback *)
(*                           that writes Client.status), ConnStatus         *)
(*   mailbox/client_transport.go  grpcTransport.Recv / Send (which status an *)
(*                           error asks for), statusFromError               *)
(*                                                                          *)
(* One action per critical section.  The pinned code's FIN callback is a     *)
(* closure over the ClientConn that NewClientConn created; Refresh copies    *)
(* the options, so on a refreshed connection the FIN still writes the        *)
(* register of the first connection.  That is modelled as it is (finTo) and  *)
(* named: FinWritesFirstConn.  With the flag FALSE the FIN writes the        *)
(* register of the connection that received it, and FinReachesCurrent holds. *)
(***************************************************************************)
EXTENDS Naturals, FiniteSets

CONSTANTS MaxConns,            \* connections a client creates (model bound)
          FinWritesFirstConn   \* TRUE: the pinned behaviour (see above)

NC == 0   \* Not Connected
NF == 1   \* Session Not Found
IU == 2   \* Session In Use
CO == 3   \* Connected
Codes == {NC, NF, IU, CO}
Detailed == {NF, IU}

VARIABLES
    n,       \* connections created so far (1..n exist, n is the current one)
    reg,     \* reg[k]: status register of connection k
    got,     \* got[k]: connection k's receive function has returned a message
    finTo,   \* the connection whose register the FIN callback writes
    pub,     \* Client.status
    lastFin  \* the current connection has seen its peer's FIN (history)

vars == <<n, reg, got, finTo, pub, lastFin>>

Init == /\ n = 0 /\ reg = <<>> /\ got = <<>> /\ finTo = 0 /\ pub = NC
        /\ lastFin = FALSE

\* Client.Dial: NewClientConn (first connection, or the rendezvous changed) or
\* RefreshClientConn; either way a register that starts at "Not Connected"
\* and no callback
NewConn(fresh) ==
    /\ n < MaxConns
    /\ fresh \/ n > 0
    /\ n' = n + 1
    /\ reg' = [k \in 1..(n + 1) |-> IF k = n + 1 THEN NC ELSE reg[k]]
    /\ got' = [k \in 1..(n + 1) |-> IF k = n + 1 THEN FALSE ELSE got[k]]
    /\ finTo' = IF fresh \/ ~FinWritesFirstConn THEN n + 1 ELSE finTo
    /\ lastFin' = FALSE
    /\ UNCHANGED pub

\* setStatus(s) on connection k
Kept(k, s) == s = NC /\ reg[k] \in Detailed
Apply(k, s) ==
    IF Kept(k, s) THEN UNCHANGED <<reg, pub>>
    ELSE /\ reg' = [reg EXCEPT ![k] = s]
         /\ pub' = s

\* recv: the transport returned a message
RecvOk(k) == /\ k \in 1..n /\ Apply(k, CO)
             /\ got' = [got EXCEPT ![k] = TRUE]
             /\ UNCHANGED <<n, finTo, lastFin>>
\* recv: the transport's Recv failed; e is the class of the error
\* (statusFromError: "stream not found" / "stream occupied" / anything else)
RecvFail(k, e) == /\ k \in 1..n /\ e \in {NC, NF, IU} /\ Apply(k, e)
                  /\ UNCHANGED <<n, got, finTo, lastFin>>
\* send: the gRPC transport reports every send error as "Not Connected"
SendFail(k) == /\ k \in 1..n /\ Apply(k, NC)
               /\ UNCHANGED <<n, got, finTo, lastFin>>
\* the peer's FIN was processed by connection k's Go-Back-N
Fin(k) == /\ k \in 1..n /\ finTo \in 1..n
          /\ Apply(finTo, NF)
          /\ lastFin' = (lastFin \/ k = n)
          /\ UNCHANGED <<n, got, finTo>>

Next == \/ \E f \in BOOLEAN : NewConn(f)
        \/ \E k \in 1..n : \/ RecvOk(k) \/ SendFail(k) \/ Fin(k)
                           \/ \E e \in {NC, NF, IU} : RecvFail(k, e)

Spec == Init /\ [][Next]_vars

----------------------------------------------------------------------------
TypeOK == /\ n \in 0..MaxConns /\ pub \in Codes /\ finTo \in 0..n
          /\ DOMAIN reg = 1..n /\ DOMAIN got = 1..n
          /\ \A k \in 1..n : reg[k] \in Codes /\ got[k] \in BOOLEAN

\* "Connected" is only ever said of a connection that has received something
\* from the peer through the relay
ConnectedMeansReceived == \A k \in 1..n : reg[k] = CO => got[k]

\* a register that holds a detailed reason is never degraded to the
\* uninformative "Not Connected" (it can change to another status)
DetailKept == [][\A k \in 1..n : reg[k] \in Detailed => reg'[k] # NC]_vars

\* what ConnStatus() reports changes only by a register write and is then the
\* value written
PubFollowsWrites == [][pub' # pub => \E k \in 1..n' : /\ k \in 1..n => reg'[k] # reg[k] \/ reg'[k] = pub'
                                                     /\ reg'[k] = pub']_vars

\* the step in which the current connection processes its peer's FIN leaves
\* that connection's own register at "Session Not Found", so that the errors
\* that follow on it cannot turn the report into "Not Connected" (what the
\* FIN callback is there for).  Holds with FinWritesFirstConn = FALSE; the
\* pinned code violates it on refreshed connections.
FinReachesCurrent == [][(lastFin' /\ ~lastFin) => reg'[n] = NF]_vars
=============================================================================
