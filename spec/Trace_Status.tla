---------------------------- MODULE Trace_Status ----------------------------
(***************************************************************************)
(* Validation of the real mailbox client's status reporting against         *)
(* Status.tla.  One segment per party of a real session (real               *)
(* mailbox.Client / ClientConn / grpcTransport over the in-process relay):  *)
(*                                                                          *)
(*  client segments ("c": the pairing client, "x": a second client)         *)
(*   {"op":"reset","who":w,"ws":0|1}   ws: the client uses the websocket    *)
(*        transport through the REST front door (harness/wsrelay)           *)
(*   {"op":"relay","rop":"recvErr"|"sendErr"|"deliver","cls":..}  what the  *)
(*        relay answered to a stream call of this client (recorded by the   *)
(*        relay before the call returns)                                    *)
(*   {"op":"new","conn":k}          first appearance of connection k        *)
(*   {"op":"recvOk"|"recvFail"|"sendFail"|"finCb","conn":k,"st":s}  hook:   *)
(*        what is about to ask for status s                                 *)
(*   {"op":"status"|"statusKept","conn":k,"st":s}  hook inside setStatus,   *)
(*        under the register's mutex: written / kept                        *)
(*   {"op":"pub","st":s}            Client.ConnStatus() polled while no     *)
(*        status line was being written                                     *)
(*  server segment ("s")                                                    *)
(*   relay lines as above plus "openRecv"; {"op":"srvStatus","st":s} the    *)
(*        server's onNewStatus callback (public API)                        *)
(*                                                                          *)
(* Every client line is a step of Status.tla (NewConn, RecvOk, RecvFail,    *)
(* SendFail, Fin through Apply) with the logged fields bound; what asked    *)
(* for a status must be backed by what the relay did (a "Connected" by a    *)
(* delivered message, a receive failure by an error of the class that       *)
(* statusFromError maps to the status asked for, a send failure by a send   *)
(* error); ConnectedMeansReceived is an INVARIANT and DetailKept /          *)
(* PubFollowsWrites are PROPERTIES of the configuration.                    *)
(***************************************************************************)
EXTENDS Status, Sequences, Json, TLC
CONSTANT TraceFile
Trace == ndJsonDeserialize(TraceFile)

Kinds == {"recvOk", "recvFail", "sendFail", "finCb"}
Wants == Kinds \X Codes

VARIABLES l,
          mode,      \* "c" (a client on the gRPC transport), "w" (on the websocket transport) or "s" (the server segment)
          pendErr,   \* [NC/NF/IU -> receive errors of that class the relay returned, not yet seen at the hook]
          pendDel,   \* messages the relay delivered to this client, not yet seen at the hook
          pendSend,  \* send errors the relay returned, not yet seen at the hook
          want,      \* [conn -> [Wants -> requests for setStatus not yet executed]]
          sOpen, sDel, sErr   \* server: read attachment attempts / deliveries / stream errors not yet answered by a callback

tvars == <<l, mode, pendErr, pendDel, pendSend, want, sOpen, sDel, sErr>>

Ev == Trace[l]
Is(o) == l <= Len(Trace) /\ Ev.op = o
Adv == l' = l + 1

ClsCode(c) == IF c = "notfound" THEN NF ELSE IF c = "occupied" THEN IU ELSE NC
ZeroErr == [c \in {NC, NF, IU} |-> 0]
ZeroWant == [w \in Wants |-> 0]

TInit == Init /\ l = 1 /\ mode = "c" /\ pendErr = ZeroErr /\ pendDel = 0 /\ pendSend = 0
         /\ want = <<>> /\ sOpen = 0 /\ sDel = 0 /\ sErr = 0

TReset == /\ Is("reset") /\ Adv
          /\ n' = 0 /\ reg' = <<>> /\ got' = <<>> /\ finTo' = 0 /\ pub' = NC /\ lastFin' = FALSE
          /\ mode' = (IF Ev.who = "s" THEN "s" ELSE IF Ev.ws = 1 THEN "w" ELSE "c")
          /\ pendErr' = ZeroErr /\ pendDel' = 0 /\ pendSend' = 0 /\ want' = <<>>
          /\ sOpen' = 0 /\ sDel' = 0 /\ sErr' = 0

KeepS == UNCHANGED <<mode, sOpen, sDel, sErr>>

\* ---- client segments -----------------------------------------------------
TRelayC ==
    /\ mode \in {"c", "w"} /\ Is("relay") /\ Adv /\ UNCHANGED vars /\ KeepS /\ UNCHANGED want
    /\ CASE Ev.rop = "recvErr" -> /\ pendErr' = [pendErr EXCEPT ![ClsCode(Ev.cls)] = @ + 1]
                                  /\ UNCHANGED <<pendDel, pendSend>>
         [] Ev.rop = "sendErr" -> pendSend' = pendSend + 1 /\ UNCHANGED <<pendErr, pendDel>>
         [] Ev.rop = "deliver" -> pendDel' = pendDel + 1 /\ UNCHANGED <<pendErr, pendSend>>
         [] OTHER -> UNCHANGED <<pendErr, pendDel, pendSend>>

\* Client.Dial created or refreshed a connection; which of the two is not
\* logged - the FIN callback's target (finCb lines) tells later
TNew ==
    /\ mode \in {"c", "w"} /\ Is("new") /\ Adv /\ Ev.conn = n + 1
    /\ \E f \in BOOLEAN : NewConn(f)
    /\ want' = [k \in 1..(n + 1) |-> IF k = n + 1 THEN ZeroWant ELSE want[k]]
    /\ KeepS /\ UNCHANGED <<pendErr, pendDel, pendSend>>

\* recv / send / the FIN closure is about to call setStatus(st)
TCause ==
    /\ mode \in {"c", "w"} /\ l <= Len(Trace) /\ Ev.op \in Kinds /\ Adv
    /\ Ev.conn \in 1..n /\ UNCHANGED vars /\ KeepS
    /\ want' = [want EXCEPT ![Ev.conn][<<Ev.op, Ev.st>>] = @ + 1]
    /\ CASE Ev.op = "recvOk" ->   \* only a message the relay delivered makes a connection "Connected"
              /\ Ev.st = CO /\ pendDel > 0 /\ pendDel' = pendDel - 1
              /\ UNCHANGED <<pendErr, pendSend>>
         [] Ev.op = "recvFail" -> \* the status asked for is the class of the error the relay returned;
                                  \* on the websocket transport a failing socket read (the socket was
                                  \* closed, locally or by the proxy) asks for "Not Connected" by itself
              /\ Ev.st \in {NC, NF, IU}
              /\ IF pendErr[Ev.st] > 0
                 THEN pendErr' = [pendErr EXCEPT ![Ev.st] = @ - 1]
                 ELSE mode = "w" /\ Ev.st = NC /\ UNCHANGED pendErr
              /\ UNCHANGED <<pendDel, pendSend>>
         [] Ev.op = "sendFail" -> \* grpcTransport.Send: always "Not Connected", after a send error of
                                  \* the relay; a websocket write can also fail on a socket the proxy
                                  \* has closed earlier
              /\ Ev.st = NC
              /\ IF pendSend > 0 THEN pendSend' = pendSend - 1
                 ELSE mode = "w" /\ UNCHANGED pendSend
              /\ UNCHANGED <<pendErr, pendDel>>
         [] Ev.op = "finCb" ->    \* the closure's connection is the model's FIN target
              /\ Ev.st = NF /\ Ev.conn = finTo
              /\ UNCHANGED <<pendErr, pendDel, pendSend>>

\* setStatus's critical section: one step of Status.tla
TStatus ==
    /\ mode \in {"c", "w"} /\ l <= Len(Trace) /\ Ev.op \in {"status", "statusKept"} /\ Adv
    /\ Ev.conn \in 1..n /\ KeepS /\ UNCHANGED <<pendErr, pendDel, pendSend>>
    /\ (Ev.op = "statusKept") = Kept(Ev.conn, Ev.st)
    /\ \E kd \in Kinds :
         /\ want[Ev.conn][<<kd, Ev.st>>] > 0
         /\ want' = [want EXCEPT ![Ev.conn][<<kd, Ev.st>>] = @ - 1]
         /\ CASE kd = "recvOk" -> RecvOk(Ev.conn)
              [] kd = "recvFail" -> RecvFail(Ev.conn, Ev.st)
              [] kd = "sendFail" -> SendFail(Ev.conn)
              [] kd = "finCb" -> \E k \in 1..n : Fin(k)
    \* the written register holds what the line says
    /\ Ev.op = "status" => reg'[Ev.conn] = Ev.st

\* Client.ConnStatus()
TPub == /\ mode \in {"c", "w"} /\ Is("pub") /\ Adv /\ Ev.st = pub
        /\ UNCHANGED vars /\ KeepS /\ UNCHANGED <<pendErr, pendDel, pendSend, want>>

\* ---- server segment ------------------------------------------------------
KeepC == UNCHANGED <<vars, mode, pendErr, pendDel, pendSend, want>>
TRelayS ==
    /\ mode = "s" /\ Is("relay") /\ Adv /\ KeepC
    \* RecvStream returns a stream object without an error whatever the relay
    \* will answer (a streaming call reports its error at the first Recv), so
    \* the server says "idle" after every attachment attempt, a refused one
    \* included; the refusal follows as a stream error
    /\ CASE Ev.rop = "openRecv" -> sOpen' = sOpen + 1 /\ UNCHANGED <<sDel, sErr>>
         [] Ev.rop = "deliver" -> sDel' = sDel + 1 /\ UNCHANGED <<sOpen, sErr>>
         [] Ev.rop \in {"recvErr", "sendErr"} -> sErr' = sErr + 1 /\ UNCHANGED <<sOpen, sDel>>
         [] OTHER -> UNCHANGED <<sOpen, sDel, sErr>>
\* ServerConn.setStatus calls back on a change only: "idle" (2) once a read
\* stream has been asked for, "in use" (1) once a message has arrived, "not
\* connected" (0) after a stream error
TSrvStatus ==
    /\ mode = "s" /\ Is("srvStatus") /\ Adv /\ KeepC
    /\ CASE Ev.st = 2 -> sOpen > 0 /\ sOpen' = sOpen - 1 /\ UNCHANGED <<sDel, sErr>>
         [] Ev.st = 1 -> sDel > 0 /\ sDel' = 0 /\ UNCHANGED <<sOpen, sErr>>
         [] Ev.st = 0 -> sErr > 0 /\ sErr' = sErr - 1 /\ UNCHANGED <<sOpen, sDel>>
         [] OTHER -> FALSE

TNext == TReset \/ TRelayC \/ TNew \/ TCause \/ TStatus \/ TPub \/ TRelayS \/ TSrvStatus
TSpec == TInit /\ [][TNext]_<<vars, tvars>>

\* the properties of Status.tla, over the reconstructed behaviour (a reset
\* starts a new behaviour: the action properties are guarded by it)
NoReset == l \in 1..Len(Trace) => Trace[l].op # "reset"
TDetailKept == [][NoReset => \A k \in 1..n : (k \in 1..n' /\ reg[k] \in Detailed) => reg'[k] # NC]_<<vars, tvars>>

TraceAccepted ==
    LET d == TLCGet("stats").diameter IN
    IF d - 1 = Len(Trace) THEN TRUE
    ELSE Print(<<"TRACE_REJECTED_AT_LINE", d, "OF", Len(Trace)>>, FALSE)
=============================================================================
