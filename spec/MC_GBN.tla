------------------------------ MODULE MC_GBN ------------------------------
EXTENDS GBN
CONSTANTS SendC, SendS, PingC, PingS
MCMaxSend == [e \in EP |-> IF e = "c" THEN SendC ELSE SendS]
MCMaxPing == [e \in EP |-> IF e = "c" THEN PingC ELSE PingS]

\* Refinement: the protocol model implements the windowed in-order
\* exactly-once channel the layers above assume (RelChan.tla).  A message
\* counts as delivered when the receive loop hands it to the application's
\* buffer (inbox), as accepted when the send loop has taken it (SAdd).
Rel == INSTANCE RelChan WITH
          Dir <- EP, Window <- N,
          acc <- nAcc,
          dl <- [e \in EP |-> dlv[Peer(e)] \o inbox[Peer(e)]]
RelRefinement == Rel!Spec
=============================================================================
