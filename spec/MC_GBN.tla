------------------------------ MODULE MC_GBN ------------------------------
EXTENDS GBN
CONSTANTS SendC, SendS, PingC, PingS
MCMaxSend == [e \in EP |-> IF e = "c" THEN SendC ELSE SendS]
MCMaxPing == [e \in EP |-> IF e = "c" THEN PingC ELSE PingS]
=============================================================================
