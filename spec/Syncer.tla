------------------------------- MODULE Syncer -------------------------------
(***************************************************************************)
(* gbn/syncer.go: the wait after a retransmission of the send window.      *)
(*                                                                         *)
(* The send loop S calls queue.resend(): initResendUpTo(top) arms the      *)
(* syncer (expectedACK = top-1, expectedNACK = top), the window is sent    *)
(* again, then waitForSync() blocks until                                  *)
(*    - a cancel signal arrives,                                           *)
(*    - 3 x the resend timeout has passed, or                              *)
(*    - the connection quits.                                              *)
(* The receive loop R reports every ACK / NACK: the expected NACK resets   *)
(* the syncer at once (cancel); the expected ACK starts a goroutine P      *)
(* (proceedAfterTime) that resets it one resend timeout later, unless it   *)
(* is cancelled first.  The cancel channel is unbuffered and every send is *)
(* non-blocking: a signal reaches ONE goroutine that is listening at that  *)
(* instant (S in waitForSync or some P) - the woken goroutine calls        *)
(* reset() and thereby passes the signal on - or nobody.                   *)
(*                                                                         *)
(* Discrete time.  RT is the resend timeout in ticks.                      *)
(***************************************************************************)
EXTENDS Integers, FiniteSets

CONSTANTS RT,        \* resend timeout (ticks), >= 1
          SeqS,      \* sequence space size s
          MaxRounds, \* resend rounds (model bound)
          MaxTime    \* model bound

VARIABLES
    now,
    state,     \* "idle" | "resending"
    expA, expN,
    sloc,      \* "run" | "sending" | "waiting" | "woken" (got cancel, reset() due)
    sDeadline, \* when waitForSync times out
    ps,        \* set of fire times of listening proceedAfterTime goroutines
    wokenP,    \* proceedAfterTime goroutines that got cancel and have reset() due
    quit,
    rounds,
    \* history, for the properties
    tw,        \* when the current / last wait started
    done,      \* <<time the last wait ended, cause, time it had started, its round>>
    nackT,     \* instants at which the expected NACK was processed
    ackT,      \* instants at which the expected ACK was processed
    doneT      \* <<instant, round>> at which a wait ended by timeout or cancel

vars == <<now, state, expA, expN, sloc, sDeadline, ps, wokenP, quit, rounds, tw, done, nackT, ackT, doneT>>

Init == /\ now = 0 /\ state = "idle" /\ expA = 0 /\ expN = 0 /\ sloc = "run"
        /\ sDeadline = 0 /\ ps = {} /\ wokenP = 0 /\ quit = FALSE /\ rounds = 0
        /\ tw = 0 /\ done = <<-1, "none", 0, 0>> /\ nackT = {} /\ ackT = {} /\ doneT = {}

\* a timer that is due fires, and a woken goroutine runs, before time moves on
Due == \/ (sloc = "waiting" /\ sDeadline <= now) \/ (\E f \in ps : f <= now)
       \/ sloc = "woken" \/ wokenP > 0
Tick == /\ ~Due /\ now < MaxTime /\ now' = now + 1
        /\ UNCHANGED <<state, expA, expN, sloc, sDeadline, ps, wokenP, quit, rounds, tw, done, nackT, ackT, doneT>>

\* queue.resend -> initResendUpTo(top)
InitResend(top) ==
    /\ sloc = "run" /\ ~quit /\ rounds < MaxRounds
    /\ state' = "resending" /\ expA' = (top + SeqS - 1) % SeqS /\ expN' = top
    /\ sloc' = "sending" /\ rounds' = rounds + 1
    /\ UNCHANGED <<now, sDeadline, ps, wokenP, quit, tw, done, nackT, ackT, doneT>>
\* the window has been sent again: waitForSync
StartWait ==
    /\ sloc = "sending"
    /\ sloc' = "waiting" /\ sDeadline' = now + 3 * RT /\ tw' = now
    /\ UNCHANGED <<now, state, expA, expN, ps, wokenP, quit, rounds, done, nackT, ackT, doneT>>

\* The non-blocking send on the cancel channel, at this instant: it reaches S
\* if S is blocked in waitForSync (and is not the sender), or one listening P,
\* or nobody if nobody listens.
ToS == /\ sloc = "waiting" /\ sloc' = "woken" /\ done' = <<now, "cancel", tw, rounds>>
       /\ doneT' = doneT \cup {<<now, rounds>>}
ToP == /\ \E f \in ps : ps' = ps \ {f}
       /\ wokenP' = wokenP + 1
ToNobody == ps = {} /\ UNCHANGED <<ps, wokenP>>

\* R: syncer.processACK / processNACK
RAck(q) == /\ state = "resending" /\ q = expA /\ ~quit
           /\ ps' = ps \cup {now + RT} /\ ackT' = ackT \cup {now}
           /\ UNCHANGED <<now, state, expA, expN, sloc, sDeadline, wokenP, quit, rounds, tw, done, nackT, doneT>>
RNack(q) == /\ state = "resending" /\ q = expN /\ ~quit
            /\ state' = "idle" /\ nackT' = nackT \cup {now}
            /\ \/ ToS /\ UNCHANGED <<ps, wokenP>>
               \/ ToP /\ UNCHANGED <<sloc, done, doneT>>
               \/ sloc # "waiting" /\ ToNobody /\ UNCHANGED <<sloc, done, doneT>>
            /\ UNCHANGED <<now, expA, expN, sDeadline, quit, rounds, tw, ackT>>

\* S, woken or timed out, calls reset(): idle, and signals again (to a P)
SReset == /\ sloc = "woken" /\ sloc' = "run" /\ state' = "idle"
          /\ (ToP \/ ToNobody)
          /\ UNCHANGED <<now, expA, expN, sDeadline, quit, rounds, tw, done, nackT, ackT, doneT>>
STimeout == /\ sloc = "waiting" /\ sDeadline <= now
            /\ sloc' = "run" /\ done' = <<now, "timeout", tw, rounds>> /\ state' = "idle"
            /\ doneT' = doneT \cup {<<now, rounds>>}
            /\ (ToP \/ ToNobody)
            /\ UNCHANGED <<now, expA, expN, sDeadline, quit, rounds, tw, nackT, ackT>>
\* a woken P calls reset() and passes the signal on
PReset == /\ wokenP > 0 /\ state' = "idle"
          /\ \/ ToS /\ wokenP' = wokenP - 1 /\ UNCHANGED ps
             \/ (\E f \in ps : ps' = ps \ {f}) /\ UNCHANGED <<wokenP, sloc, done, doneT>>
             \/ sloc # "waiting" /\ ps = {} /\ wokenP' = wokenP - 1 /\ UNCHANGED <<ps, sloc, done, doneT>>
          /\ UNCHANGED <<now, expA, expN, sDeadline, quit, rounds, tw, nackT, ackT>>
\* a P's own timer: resets the syncer if a resend round is (still or again) on
PTimeout == /\ \E f \in ps :
                 /\ f <= now
                 /\ IF state = "resending"
                    THEN /\ state' = "idle"
                         /\ \/ ToS /\ ps' = ps \ {f} /\ UNCHANGED wokenP
                            \/ /\ \E g \in ps \ {f} : ps' = (ps \ {f}) \ {g}
                               /\ wokenP' = wokenP + 1 /\ UNCHANGED <<sloc, done, doneT>>
                            \/ /\ sloc # "waiting" /\ ps \ {f} = {} /\ ps' = {}
                               /\ UNCHANGED <<wokenP, sloc, done, doneT>>
                    ELSE ps' = ps \ {f} /\ UNCHANGED <<state, wokenP, sloc, done, doneT>>
            /\ UNCHANGED <<now, expA, expN, sDeadline, quit, rounds, tw, nackT, ackT>>

Quit == /\ ~quit /\ quit' = TRUE /\ ps' = {} /\ wokenP' = 0
        /\ sloc' = "run"
        /\ done' = IF sloc = "waiting" THEN <<now, "quit", tw, rounds>> ELSE done
        /\ UNCHANGED <<now, state, expA, expN, sDeadline, rounds, tw, nackT, ackT, doneT>>

Next == \/ Tick \/ StartWait \/ SReset \/ PReset \/ STimeout \/ PTimeout \/ Quit
        \/ \E top \in 0..(SeqS - 1) : InitResend(top)
        \/ \E q \in 0..(SeqS - 1) : RAck(q) \/ RNack(q)

Spec == Init /\ [][Next]_vars

---------------------------------------------------------------------------
\* C06: the wait is bounded by three resend timeouts
BoundedWait == sloc \in {"waiting", "woken"} => now <= tw + 3 * RT
\* the wait ends early only for a cause: at that very instant the expected
\* NACK was processed, or a proceedAfterTime goroutine started by an expected
\* ACK one resend timeout earlier fired (or the connection quit)
EarlyOnlyWithCause ==
    (done[2] = "cancel") =>
        /\ done[1] >= done[3]
        /\ \/ done[1] \in nackT
           \/ \E a \in ackT : done[1] = a + RT
           \* a goroutine that was woken when the wait of an earlier round
           \* ended passes the signal on; if the next wait has begun at that
           \* very instant it ends at once
           \/ \E d \in doneT : d[1] = done[1] /\ d[2] < done[4] /\ done[1] = done[3]
\* the goroutines started for expected ACKs end by their timeout at the latest
NoLingeringP == \A f \in ps : now <= f
TypeOK == /\ state \in {"idle", "resending"} /\ sloc \in {"run", "sending", "waiting", "woken"}
          /\ wokenP \in 0..(MaxRounds * MaxTime)
=============================================================================
