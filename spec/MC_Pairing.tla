---------------------------- MODULE MC_Pairing ----------------------------
(* Exhaustive check of the codec inverse laws for small parameters: every  *)
(* byte sequence and every word sequence is one initial state.             *)
EXTENDS Pairing, TLC
Params == {<<3, 2, 1>>, <<3, 5, 2>>, <<5, 3, 2>>}   \* <<W, NW, NB>>
VARIABLES p, bytes, words, kind
Init == /\ p \in Params
        /\ \/ kind = "bytes" /\ bytes \in [1..p[3] -> 0..255] /\ words = <<>>
           \/ kind = "words" /\ words \in [1..p[2] -> 0..(2 ^ p[1] - 1)]
              /\ bytes = <<>>
Next == UNCHANGED <<p, bytes, words, kind>>
Laws == /\ kind = "bytes" => InverseBytes(bytes, p[1], p[2])
        /\ kind = "words" => InverseWords(words, p[1], p[3])
        /\ \A h \in 0..1 : \A b \in 0..1 : Rendezvous(<<h, b>>)
=============================================================================
