---------------------------- MODULE MailboxLife ----------------------------
(***************************************************************************)
(* Close of a mailbox-level connection (mailbox/client_conn.go               *)
(* ClientConn.Close, mailbox/server_conn.go ServerConn.Close) while the      *)
(* connection's Go-Back-N goroutines are inside the transport's retry loops  *)
(* (recv / send: a mutex held across a blocking relay call, a 2 s            *)
(* uninterruptible back-off before every re-attachment).                     *)
(*                                                                          *)
(*   Close:  closeOnce.Do {                                                  *)
(*     1  gbnConn.Close()   cancels the GBN context, waits for its loops     *)
(*     2  lock receiveMu; close the receive stream; unlock                   *)
(*     3  lock sendMu; close the send stream; unlock                         *)
(*     4  close(quit)       Done() fires: Accept / Dial may go ahead         *)
(*     5  cancel()          (client)                                         *)
(*   }       a second caller waits in closeOnce until the first is through   *)
(*                                                                          *)
(*   recv loop (run by GBN's receive goroutine): lock receiveMu; call the    *)
(*   relay (returns on a message, an error, or when the GBN context ends);   *)
(*   on an error back off (2 s, not interruptible), re-attach, try again;    *)
(*   leaves when the context has ended.  The send loop likewise.             *)
(***************************************************************************)
EXTENDS Naturals, FiniteSets

CONSTANTS Callers,      \* goroutines that call Close
          RelayUp       \* FALSE: every relay call fails at once (the relay is gone)

VARIABLES
    cpc,     \* [caller -> "idle" | "once" (at closeOnce.Do) | "ret"]
    owner,   \* the caller that runs the body ("none" before, stays afterwards)
    step,    \* progress of the body: 0 (not begun) .. 5 (all done); step 1 is reached in two halves
    gctx,    \* the GBN context is alive
    rl, sl,  \* receive / send loop: "call" (in the relay call, mutex held) | "backoff" (sleeping, mutex held) | "out"
    rstr, sstr,  \* the receive / send stream is attached
    quit

vars == <<cpc, owner, step, gctx, rl, sl, rstr, sstr, quit>>

Init == /\ cpc = [k \in Callers |-> "idle"] /\ owner = "none" /\ step = 0
        /\ gctx = TRUE /\ rl = "call" /\ sl = "call" /\ rstr = TRUE /\ sstr = TRUE
        /\ quit = FALSE

\* ---- the retry loops ---------------------------------------------------
Loop(v, str) ==
    \/ /\ v = "call" /\ ~gctx /\ v' = "out" /\ UNCHANGED str          \* the context ended: the call returns, the loop leaves
    \/ /\ v = "call" /\ gctx /\ ~RelayUp /\ v' = "backoff" /\ str' = FALSE  \* the relay call failed
    \/ /\ v = "backoff" /\ v' = "call" /\ str' = gctx /\ UNCHANGED <<>>    \* the back-off is over: re-attach (pointless once the context has ended)
RLoop == Loop(rl, rstr) /\ UNCHANGED <<cpc, owner, step, gctx, sl, sstr, quit>>
SLoop == Loop(sl, sstr) /\ UNCHANGED <<cpc, owner, step, gctx, rl, rstr, quit>>

\* ---- Close --------------------------------------------------------------
Call(k) == /\ cpc[k] = "idle" /\ cpc' = [cpc EXCEPT ![k] = "once"]
           /\ UNCHANGED <<owner, step, gctx, rl, sl, rstr, sstr, quit>>
\* the first caller to arrive at closeOnce runs the body
Own(k) == /\ cpc[k] = "once" /\ owner = "none" /\ owner' = k
          /\ UNCHANGED <<cpc, step, gctx, rl, sl, rstr, sstr, quit>>
\* step 1, first half: GBN's Close cancels its context
S1a == /\ owner # "none" /\ step = 0 /\ gctx /\ gctx' = FALSE
       /\ UNCHANGED <<cpc, owner, step, rl, sl, rstr, sstr, quit>>
\* step 1, second half: ... and returns once its goroutines have left the loops
S1b == /\ owner # "none" /\ step = 0 /\ ~gctx /\ rl = "out" /\ sl = "out" /\ step' = 1
       /\ UNCHANGED <<cpc, owner, gctx, rl, sl, rstr, sstr, quit>>
S2 == /\ step = 1 /\ rl # "backoff" /\ rstr' = FALSE /\ step' = 2     \* needs receiveMu
      /\ UNCHANGED <<cpc, owner, gctx, rl, sl, sstr, quit>>
S3 == /\ step = 2 /\ sl # "backoff" /\ sstr' = FALSE /\ step' = 3     \* needs sendMu
      /\ UNCHANGED <<cpc, owner, gctx, rl, sl, rstr, quit>>
S4 == /\ step = 3 /\ quit' = TRUE /\ step' = 4
      /\ UNCHANGED <<cpc, owner, gctx, rl, sl, rstr, sstr>>
S5 == /\ step = 4 /\ step' = 5
      /\ UNCHANGED <<cpc, owner, gctx, rl, sl, rstr, sstr, quit>>
\* Close returns: the owner when the body is through, anybody else when the
\* once is done
Ret(k) == /\ cpc[k] = "once" /\ step = 5 /\ owner # "none"
          /\ cpc' = [cpc EXCEPT ![k] = "ret"]
          /\ UNCHANGED <<owner, step, gctx, rl, sl, rstr, sstr, quit>>
\* a later Close call by the same goroutine
Again(k) == /\ cpc[k] = "ret" /\ cpc' = [cpc EXCEPT ![k] = "once"]
            /\ UNCHANGED <<owner, step, gctx, rl, sl, rstr, sstr, quit>>

Next == \/ \E k \in Callers : Call(k) \/ Own(k) \/ Ret(k) \/ Again(k)
        \/ S1a \/ S1b \/ S2 \/ S3 \/ S4 \/ S5 \/ RLoop \/ SLoop
Spec == Init /\ [][Next]_vars
Fair == /\ WF_vars(RLoop) /\ WF_vars(SLoop)
        /\ WF_vars(S1a) /\ WF_vars(S1b) /\ WF_vars(S2) /\ WF_vars(S3) /\ WF_vars(S4) /\ WF_vars(S5)
        /\ \A k \in Callers : WF_vars(Own(k)) /\ WF_vars(Ret(k))
LiveSpec == Spec /\ Fair

----------------------------------------------------------------------------
TypeOK == /\ step \in 0..5 /\ owner \in Callers \cup {"none"}
          /\ rl \in {"call", "backoff", "out"} /\ sl \in {"call", "backoff", "out"}
\* Done() fires only when the connection has let go of both streams (the next
\* connection of the session needs them) and its goroutines are gone
DoneMeansReleased == quit => (~rstr /\ ~sstr /\ rl = "out" /\ sl = "out" /\ ~gctx)
\* a Close call returns only when the connection is closed
RetMeansClosed == \A k \in Callers : cpc[k] = "ret" => (quit /\ step = 5)
\* the body runs once
OnceOnly == [][owner # "none" => owner' = owner]_vars
\* every Close call returns, whatever the relay does
CloseCompletes == \A k \in Callers : (cpc[k] = "once") ~> (cpc[k] = "ret")
\* ... and then nothing of the connection is left running
NoLeak == \A k \in Callers : cpc[k] = "ret" => (rl = "out" /\ sl = "out")
=============================================================================
