----------------------------- MODULE Trace_GBN -----------------------------
(***************************************************************************)
(* Trace validation of the real GoBackNConn data phase against GBN.tla.    *)
(*                                                                         *)
(* The trace file is NDJSON, one event per line, produced by the harness   *)
(* (transport and application events) and by the verif hooks in gbn/       *)
(* (window bookkeeping, under the locks that protect it).  Many runs are   *)
(* concatenated; a "reset" line starts a new run.  Every line must be      *)
(* explained by exactly the GBN action it names, with the logged arguments *)
(* and logged post-state; the property invariants of GBN are evaluated in  *)
(* every reconstructed state.                                              *)
(***************************************************************************)
EXTENDS GBN, Json

CONSTANT TraceFile

Trace == ndJsonDeserialize(TraceFile)

VARIABLES l,      \* next line to consume
          dead,   \* [EP -> BOOLEAN] the endpoint's loops may have exited
          held,   \* [EP -> Seq(Packet)] packets the transport handed to a
                  \* recvFromStream caller that has not (yet) reported them
          szS     \* [EP -> 0..N] queue size right after S's last event: the
                  \* send loop's hooks are logged outside the queue locks,
                  \* so what S read is a value between szS and the current
                  \* size (R only shrinks the queue)

VARIABLE strict   \* the run is a "silent peer" scenario (reset line)

tvars == <<vars, l, dead, held, szS, strict>>

Ev == Trace[l]
Is(name) == l <= Len(Trace) /\ Trace[l].ev = name
Adv == l' = l + 1
E == Ev.ep

Pkt(r) == IF r.k = "DATA" THEN Data(r.seq, r.m)
          ELSE IF r.k = "ACK" THEN Ack(r.seq)
          ELSE IF r.k = "NACK" THEN Nack(r.seq)
          ELSE [k |-> r.k]

TraceInit == /\ Init /\ l = 1 /\ dead = [e \in EP |-> FALSE]
             /\ held = [e \in EP |-> <<>>]
             /\ szS = [e \in EP |-> 0]
             /\ strict = FALSE

Keep == UNCHANGED <<dead, held, szS, strict>>
\* an event of the send loop: remember the size it leaves behind
KeepS == /\ UNCHANGED <<dead, held, strict>>
         /\ LET e == E IN
            szS' = [szS EXCEPT ![e] = QSize(base'[e], top'[e], S)]

TReset ==
    /\ Is("reset") /\ Adv
    /\ base' = [e \in EP |-> 0] /\ top' = [e \in EP |-> 0]
    /\ buf' = [e \in EP |-> [i \in 0..(S-1) |-> 0]]
    /\ rseq' = [e \in EP |-> 0] /\ lastNack' = [e \in EP |-> -1]
    /\ ch' = [e \in EP |-> <<>>] /\ spc' = [e \in EP |-> "idle"]
    /\ ping' = [e \in EP |-> FALSE]
    /\ rsNext' = [e \in EP |-> 0] /\ rsTop' = [e \in EP |-> 0]
    /\ rsRet' = [e \in EP |-> "idle"]
    /\ rcur' = [e \in EP |-> None] /\ szR' = [e \in EP |-> 0]
    /\ inbox' = [e \in EP |-> <<>>]
    /\ nAcc' = [e \in EP |-> 0] /\ nPing' = [e \in EP |-> 0]
    /\ dlv' = [e \in EP |-> <<>>]
    /\ drops' = 0 /\ dups' = 0 /\ nRs' = [e \in EP |-> 0] /\ nInj' = 0
    /\ uTop' = [e \in EP |-> 0] /\ uBase' = [e \in EP |-> 0]
    /\ uR' = [e \in EP |-> 0]
    /\ dead' = [e \in EP |-> FALSE]
    /\ held' = [e \in EP |-> <<>>]
    /\ szS' = [e \in EP |-> 0]
    /\ strict' = (Ev.strict = 1)

Stutter == UNCHANGED vars

TPing == Is("ping") /\ Adv /\ SPing(E) /\ KeepS

TAdd == /\ Is("add") /\ Adv
        /\ Ev.seq = top[E]
        /\ SAdd(E)
        /\ top'[E] = Ev.top
        /\ KeepS

TTxData ==
    /\ Is("tx") /\ Ev.k = "DATA" /\ Adv
    /\ IF spc[E] = "tx1"
       THEN /\ Ev.seq = (top[E] + S - 1) % S
            /\ Ev.m = buf[E][Ev.seq]
            /\ (Ev.m = 0) = ping[E]
            /\ STxFirst(E, Ev.c)
       ELSE /\ Ev.seq = rsNext[E]
            /\ Ev.m = buf[E][Ev.seq]
            /\ SResendStep(E, Ev.c)
    /\ KeepS

TTxAck == /\ Is("tx") /\ Ev.k = "ACK" /\ Adv /\ Keep
          /\ Ev.seq = rseq[E]
          /\ RDataOk(E, Ev.c)

TTxNack == /\ Is("tx") /\ Ev.k = "NACK" /\ Adv /\ Keep
           /\ Ev.seq = rseq[E]
           /\ RNackSend(E, Ev.c)

\* FIN and handshake packets seen in the data phase only travel through the
\* channel; the endpoint that sent a FIN is closing.
TTxOther ==
    /\ Is("tx") /\ Ev.k \notin {"DATA", "ACK", "NACK"} /\ Adv
    /\ ch' = [ch EXCEPT ![Peer(E)] = Put(@, [k |-> Ev.k], Ev.c)]
    /\ dead' = IF Ev.k = "FIN" THEN [dead EXCEPT ![E] = TRUE] ELSE dead
    /\ UNCHANGED <<base, top, buf, rseq, lastNack, spc, ping, rsNext, rsTop,
                   rsRet, rcur, szR, inbox, nAcc, nPing, dlv, drops, dups, nRs, nInj,
                   uTop, uBase, uR, held, szS, strict>>

\* The relay forged a packet (C07 scenarios); E is the endpoint the harness
\* names as its pretended sender.
TInj == /\ Is("inj") /\ Adv /\ Keep
        /\ ch' = [ch EXCEPT ![Peer(E)] = Append(@, Pkt(Ev))]
        /\ nInj' = nInj + 1
        /\ UNCHANGED <<base, top, buf, rseq, lastNack, spc, ping, rsNext, rsTop,
                       rsRet, rcur, szR, inbox, nAcc, nPing, dlv, drops, dups,
                       nRs, uTop, uBase, uR>>

\* The transport handed the head of the channel to a recvFromStream caller.
\* That is normally the receive loop, which reports it next ("rx"), but a
\* left-over handshake reader goroutine can also take (and drop) one packet.
TDeq == /\ Is("deq") /\ Adv
        /\ ch[E] # <<>> /\ Head(ch[E]) = Pkt(Ev)
        /\ ch' = [ch EXCEPT ![E] = Tail(@)]
        /\ held' = [held EXCEPT ![E] = Append(@, Pkt(Ev))]
        /\ UNCHANGED <<base, top, buf, rseq, lastNack, spc, ping, rsNext,
                       rsTop, rsRet, rcur, szR, inbox, nAcc, nPing, dlv,
                       drops, dups, nRs, nInj, uTop, uBase, uR, dead, szS, strict>>

RemoveAt(q, i) == [j \in 1..(Len(q) - 1) |-> IF j < i THEN q[j] ELSE q[j + 1]]

Matches(p, r) == p.k = r.k /\ (r.k \in {"DATA", "ACK", "NACK"} => p.seq = r.seq)

\* The receive loop reports the packet it is about to process (hook after
\* Deserialize): GBN!Rx with the packet taken from held.  The loop can be one
\* payload ahead of the application's own report of its last Recv.
TRx == /\ Is("rx") /\ Adv /\ UNCHANGED <<dead, szS, strict>>
       /\ LET I == {i \in 1..Len(held[E]) : Matches(held[E][i], Ev)} IN
          /\ I # {}
          /\ LET i == CHOOSE x \in I : \A y \in I : x <= y
                 p == held[E][i] IN
             /\ held' = [held EXCEPT ![E] = RemoveAt(@, i)]
             /\ IF p.k \in {"DATA", "ACK", "NACK"}
                THEN /\ rcur[E] = None
                     /\ Len(inbox[E]) <= N + 1
                     /\ rcur' = [rcur EXCEPT ![E] = p]
                ELSE UNCHANGED rcur
       /\ UNCHANGED <<base, top, buf, rseq, lastNack, ch, spc, ping, rsNext,
                      rsTop, rsRet, szR, inbox, nAcc, nPing, dlv, drops, dups,
                      nRs, nInj, uTop, uBase, uR>>

TRSeq == Is("rseq") /\ Adv /\ Keep /\ Stutter /\ rseq[E] = Ev.v

TNackSupp == Is("nackSupp") /\ Adv /\ Keep /\ RNackSupp(E)

TAck == /\ Is("ack") /\ Adv /\ Keep
        /\ rcur[E].k = "ACK" /\ rcur[E].seq = Ev.seq
        /\ RAck(E)
        /\ base'[E] = Ev.base
        /\ (Ev.valid = 1) = AckResult(base[E], top[E], Ev.seq, S).valid

\* The ACK was ignored by processACK's empty-queue pre-check.  The pre-check
\* is not under the lock addPacket takes: it saw the queue empty iff the queue
\* was empty at some point since R's previous event, and since only S adds,
\* iff it was empty right after that event (szR) or is empty now.
TAckEmpty == /\ Is("ackEmpty") /\ Adv /\ Keep
             /\ rcur[E].k = "ACK" /\ rcur[E].seq = Ev.seq
             /\ (szR[E] = 0 \/ Size(E) = 0)
             /\ rcur' = [rcur EXCEPT ![E] = None]
             /\ szR' = [szR EXCEPT ![E] = Size(E)]
             /\ UNCHANGED <<base, top, buf, rseq, lastNack, ch, spc, ping, rsNext,
                            rsTop, rsRet, inbox, nAcc, nPing, dlv, drops, dups,
                            nRs, nInj, uTop, uBase, uR>>

TNack == /\ Is("nack") /\ Adv /\ Keep
         /\ rcur[E].k = "NACK" /\ rcur[E].seq = Ev.seq
         /\ RNack(E)
         /\ base'[E] = Ev.base
         /\ LET r == NackResult(base[E], top[E], Ev.seq, S) IN
            /\ (Ev.resend = 1) = r.resend
            /\ (Ev.bumped = 1) = r.bumped

\* The inner loop found size() >= n some time after S's previous event.
TFull == /\ Is("full") /\ Adv
         /\ spc[E] \in {"check", "full"}
         /\ szS[E] >= N
         /\ SetFull(E)
         /\ KeepS

TWake == Is("wake") /\ Adv /\ SWake(E) /\ KeepS

TResend == /\ Is("resend") /\ Adv
           /\ Ev.top = top[E]
           /\ SResendBegin(E, Ev.base)
           /\ KeepS

\* resend() returned early (rate limit, or nothing to resend): back to the
\* select / the inner-loop test.
TResendSkip == /\ Is("resendSkip") \/ Is("resendEmpty")
               /\ Adv
               /\ IF spc[E] = "full" THEN SWake(E) ELSE Stutter /\ AtSelect(E)
               /\ KeepS

TSyncWait == Is("syncWait") /\ Adv /\ SResendEnd(E) /\ KeepS
TSyncDone == Is("syncDone") /\ Adv /\ SSyncDone(E) /\ KeepS

TRecvRet == /\ Is("recvRet") /\ Adv /\ Keep
            /\ IF Ev.err = ""
               THEN inbox[E] # <<>> /\ Head(inbox[E]) = Ev.m /\ AppRecv(E)
               ELSE Stutter

\* what Recv returned belongs to the application: at the end of the run every
\* message it kept still reads as it did when it was returned (nothing is
\* altered after delivery either)
TRecvKept == /\ Is("recvKept") /\ Adv /\ Keep /\ Stutter /\ Ev.bad = 0

\* events that carry no data-phase state change
\* C09: a Send call returned.  In a silent-peer scenario the first N calls
\* must have returned without waiting.
TSendRet == /\ Is("sendRet") /\ Adv /\ Keep /\ Stutter
            /\ (strict /\ Ev.err = "" /\ Ev.m <= N) => Ev.w = 0

\* C09: at an instant where every goroutine is blocked, the application has
\* had exactly the added packets accepted, and a Send call is blocked only if
\* the window is full (or the send loop is in a resend/sync wait).
TProbe == /\ Is("probe") /\ Adv /\ Keep /\ Stutter
          /\ Ev.returned = nAcc[E]
          /\ Ev.blocked = 1 =>
                \/ spc[E] = "full" /\ Size(E) >= N
                \/ spc[E] \in {"rs", "sync"}

\* a ping tick served in the full-window select: no ping packet can be
\* queued, the pong timer is started instead; only possible while the send
\* loop waits there
\* loop waits there, and like every branch of that select it goes round the
\* inner loop again (the window is re-examined: GBN!SWake)
TPingFull == Is("pingFull") /\ Adv /\ SWake(E) /\ KeepS

TInfo == /\ \/ Is("sendCall") \/ Is("closeQuit")
            \/ Is("closeDone") \/ Is("fin") \/ Is("pongTimeout")
            \/ Is("note") \/ Is("new") \/ Is("setN") \/ Is("hsDone")
            \/ Is("closeCall") \/ Is("closeRet") \/ Is("sExit") \/ Is("rExit")
            \/ Is("blockedAtClose") \/ Is("netAtClose") \/ Is("postSend")
            \/ Is("postRecv") \/ Is("peerCheck") \/ Is("inventory")
            \/ Is("closeStuck") \/ Is("selfClosed")
         /\ Adv /\ Stutter /\ UNCHANGED <<held, szS, strict>>
         /\ dead' = IF Ev.ev \in {"closeQuit", "fin", "pongTimeout"}
                    THEN [dead EXCEPT ![E] = TRUE] ELSE dead

\* end of a run: the harness reports what it observed; the reconstructed
\* state must agree.
TEnd == /\ Is("end") /\ Adv /\ Keep /\ Stutter
        /\ Len(dlv[E]) = Ev.delivered
        /\ nAcc[Peer(E)] >= Ev.delivered

TraceNext ==
    \/ TReset \/ TPing \/ TAdd \/ TTxData \/ TTxAck \/ TTxNack \/ TTxOther
    \/ TInj \/ TDeq \/ TRx \/ TRSeq \/ TNackSupp \/ TAck \/ TAckEmpty \/ TNack
    \/ TFull \/ TWake \/ TResend \/ TResendSkip \/ TSyncWait \/ TSyncDone
    \/ TRecvRet \/ TRecvKept \/ TSendRet \/ TProbe \/ TPingFull \/ TInfo \/ TEnd

TraceSpec == TraceInit /\ [][TraceNext]_tvars

\* All lines consumed.  One state per consumed line plus the initial one.
TraceAccepted ==
    LET d == TLCGet("stats").diameter IN
    IF d - 1 = Len(Trace) THEN TRUE
    ELSE Print(<<"TRACE_REJECTED_AT_LINE", d, "OF", Len(Trace)>>, FALSE)
=============================================================================
