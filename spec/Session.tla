------------------------------ MODULE Session ------------------------------
(***************************************************************************)
(* One mailbox session: the listener (mailbox/server.go Server.Accept), the *)
(* dialers of one or two clients (mailbox/client.go Client.Dial), the       *)
(* connection data that selects rendezvous and handshake pattern            *)
(* (mailbox/conndata.go SID, HandshakePattern, SetRemote) and the Noise     *)
(* handshake outcome (mailbox/noise.go DoHandshake) as far as it feeds back *)
(* into the connection data.                                                *)
(*                                                                          *)
(* Accept and Dial are modelled step by step as in the code:                *)
(*   Call   - enter; block if the party's mailboxConn is still open         *)
(*   Wake   - the previous connection's Done channel closed                 *)
(*   Sid    - recompute the rendezvous from the connection data; if it      *)
(*            changed, tear the old connection down (the server deletes its *)
(*            mailboxes) and forget it                                      *)
(*   Ret    - NewConn / RefreshConn returned: the GBN handshake completed   *)
(* The GBN handshake is a rendezvous over the relay: the client's side      *)
(* completes first (CDialRet), the server's second (SAcceptRet).            *)
(* A connection is handed to the application and stays `open` until its     *)
(* owner closes it (the application, or the owner's reader after the peer   *)
(* went away).                                                              *)
(*                                                                          *)
(* The Noise handshake of a connection pair: with XX the client finishes    *)
(* first (it writes act 3, the last), the server second; with KK the server *)
(* finishes first (it writes act 2, the last).                              *)
(* With handshake version >= 2 each side stores the peer's static key when  *)
(* it finishes, which changes its SID and pattern for the NEXT connection.  *)
(***************************************************************************)
EXTENDS Integers, Sequences, FiniteSets, TLC

CONSTANTS
    Clients,        \* e.g. {"c", "x"}: every client knows the passphrase
    V2s,            \* subset of BOOLEAN: TRUE = handshake version 2 is negotiated
                    \* (static keys are kept), FALSE = version 0/1
    PrePairs,       \* subset of BOOLEAN: TRUE = server and client "c" start paired
    MaxCloses,      \* model bound on application / failure closes
    MaxConns,       \* model bound on connections
    AcceptBlocks,   \* TRUE = code: Accept / Dial wait for the previous conn
    StopDeletes,    \* TRUE = code: a rendezvous change deletes the old boxes
    HalfPairFaults  \* TRUE: a connection may die between the two ends of the
                    \* Noise handshake (client paired, server not)

Srv == "s"
Parties == Clients \cup {Srv}
None == "none"
KName(c) == IF c = "c" THEN "Kc" ELSE IF c = "x" THEN "Kx" ELSE "K?"

VARIABLES
    remote,   \* [Parties -> Parties \cup {None}]  ConnData.remoteKey
    psid,     \* [Parties -> sid]   Server.sid / Client.sid
    mc,       \* [Parties -> conn id | 0]   mailboxConn
    pc,       \* [Parties -> "idle" | "wait" | "sid" | "conn"]
    conns,    \* [1..nConns -> record]
    nConns,
    boxes,    \* rendezvous whose mailboxes exist on the relay
    closes,
    everUp,   \* clients that ever completed a Noise handshake with the server
    v2        \* the negotiated handshake version keeps static keys (fixed per session)

vars == <<remote, psid, mc, pc, conns, nConns, boxes, closes, everUp, v2>>

Sid(p) == IF remote[p] = None THEN "P"
          ELSE IF p = Srv THEN KName(remote[p]) ELSE KName(p)
Pat(p) == IF remote[p] = None THEN "XX" ELSE "KK"

\* a session may start with the keys already exchanged (client "c")
RemoteAt(pp) == [p \in Parties |-> IF pp /\ p = Srv THEN "c"
                                   ELSE IF pp /\ p = "c" THEN Srv ELSE None]
PsidAt(pp) == [p \in Parties |-> IF pp /\ p \in {Srv, "c"} THEN "Kc" ELSE "P"]

Init ==
    /\ \E pp \in PrePairs : remote = RemoteAt(pp) /\ psid = PsidAt(pp)
    /\ mc = [p \in Parties |-> 0]
    /\ pc = [p \in Parties |-> "idle"]
    /\ conns = <<>> /\ nConns = 0
    /\ boxes = {} /\ closes = 0 /\ everUp = {}
    /\ v2 \in V2s

IsOpen(i) == i # 0 /\ conns[i].st = "open"
OpenOf(p) == {i \in 1..nConns : conns[i].owner = p /\ conns[i].st = "open"}

NewConn(p, sid, peer) ==
    [owner |-> p, sid |-> sid, st |-> "open", peer |-> peer, noise |-> "hs",
     pat |-> Pat(p), pairedAtCreate |-> remote[p] # None]

---------------------------------------------------------------------------
(* Accept / Dial *)

Call(p) ==
    /\ pc[p] = "idle"
    /\ pc' = [pc EXCEPT ![p] = IF AcceptBlocks /\ IsOpen(mc[p]) THEN "wait" ELSE "sid"]
    /\ UNCHANGED <<remote, psid, mc, conns, nConns, boxes, closes, everUp, v2>>

Wake(p) ==
    /\ pc[p] = "wait" /\ ~IsOpen(mc[p])
    /\ pc' = [pc EXCEPT ![p] = "sid"]
    /\ UNCHANGED <<remote, psid, mc, conns, nConns, boxes, closes, everUp, v2>>

\* recompute the rendezvous; on a change stop / close the old connection
SidStep(p) ==
    /\ pc[p] = "sid"
    /\ LET new == Sid(p)
           changed == new # psid[p] /\ mc[p] # 0 IN
       /\ psid' = [psid EXCEPT ![p] = new]
       /\ mc' = [mc EXCEPT ![p] = IF changed THEN 0 ELSE @]
       /\ conns' = IF changed /\ IsOpen(mc[p])
                   THEN [conns EXCEPT ![mc[p]].st = "closed"] ELSE conns
       \* only the server owns mailboxes: ServerConn.Stop deletes them, and
       \* the new ServerConn creates its own as its GBN handshake starts
       /\ boxes' = IF p = Srv
                   THEN (IF changed /\ StopDeletes THEN boxes \ {psid[p]} ELSE boxes)
                        \cup {new}
                   ELSE boxes
    /\ pc' = [pc EXCEPT ![p] = "conn"]
    /\ UNCHANGED <<remote, nConns, closes, everUp, v2>>

\* The GBN handshake is a rendezvous; either side's call may return first (the
\* client finishes the exchange first, but its Dial may return after the
\* server's Accept).  The side that returns second links the two ends.
\*
\* the client's Dial returns: the server is (or just was) in its GBN handshake
\* at the same rendezvous
HalfOpenSrv(sid) == {i \in 1..nConns : conns[i].owner = Srv /\ conns[i].peer = 0
                                       /\ conns[i].sid = sid /\ conns[i].st = "open"}
CDialRet(c) ==
    /\ c \in Clients /\ pc[c] = "conn" /\ nConns < MaxConns
    /\ psid[Srv] = psid[c] /\ psid[c] \in boxes
    /\ \/ /\ pc[Srv] = "conn" /\ HalfOpenSrv(psid[c]) = {}
          /\ conns' = Append(conns, NewConn(c, psid[c], 0))
       \/ \E sc \in HalfOpenSrv(psid[c]) :
             conns' = [Append(conns, NewConn(c, psid[c], sc)) EXCEPT ![sc].peer = nConns + 1]
    /\ nConns' = nConns + 1
    /\ mc' = [mc EXCEPT ![c] = nConns + 1]
    /\ pc' = [pc EXCEPT ![c] = "idle"]     \* Dial may be called again at any time
    /\ UNCHANGED <<remote, psid, boxes, closes, everUp, v2>>

\* the server's Accept returns: with a client connection that has no server
\* end yet (it may have been closed meanwhile: its SYNACK was already queued),
\* or (cc = 0) before the client's Dial has returned
SAcceptRet(cc) ==
    /\ pc[Srv] = "conn" /\ nConns < MaxConns
    /\ \/ /\ cc \in 1..nConns /\ conns[cc].owner \in Clients /\ conns[cc].peer = 0
          /\ conns[cc].sid = psid[Srv]
          /\ conns' = [Append(conns, NewConn(Srv, psid[Srv], cc)) EXCEPT ![cc].peer = nConns + 1]
       \/ /\ cc = 0 /\ \E c \in Clients : pc[c] = "conn" /\ psid[c] = psid[Srv]
          /\ conns' = Append(conns, NewConn(Srv, psid[Srv], 0))
    /\ nConns' = nConns + 1
    /\ mc' = [mc EXCEPT ![Srv] = nConns + 1]
    /\ pc' = [pc EXCEPT ![Srv] = "idle"]   \* grpc re-enters Accept at once
    /\ UNCHANGED <<remote, psid, boxes, closes, everUp, v2>>

\* NewConn / RefreshConn failed (Accept / Dial return a temporary error)
ConnErr(p) ==
    /\ pc[p] = "conn" /\ closes < MaxCloses      \* a fault, budgeted like the closes
    /\ pc' = [pc EXCEPT ![p] = "idle"]
    /\ closes' = closes + 1
    /\ UNCHANGED <<remote, psid, mc, conns, nConns, boxes, everUp, v2>>

---------------------------------------------------------------------------
(* Noise handshake of the pair (cc, sc) *)

HsCompatible(cc, sc) ==
    LET c == conns[cc].owner IN
    /\ conns[cc].pat = conns[sc].pat
    /\ conns[cc].pat = "KK" => (remote[c] = Srv /\ remote[Srv] = c)

HsClientDone(cc) ==
    LET sc == conns[cc].peer  c == conns[cc].owner IN
    /\ cc \in 1..nConns /\ c \in Clients /\ IsOpen(cc) /\ conns[cc].noise = "hs"
    /\ sc # 0 /\ HsCompatible(cc, sc)
    \* XX: the client is done when it has written act 3 (having read act 2
    \* from a live server end); KK: when it has read act 2, the server's last
    /\ IF conns[cc].pat = "KK" THEN conns[sc].noise = "up" ELSE IsOpen(sc)
    /\ conns' = [conns EXCEPT ![cc].noise = "up"]
    /\ remote' = IF v2 THEN [remote EXCEPT ![c] = Srv] ELSE remote
    /\ UNCHANGED <<psid, mc, pc, nConns, boxes, closes, everUp, v2>>

HsServerDone(sc) ==
    LET cc == conns[sc].peer  c == conns[cc].owner IN
    /\ sc \in 1..nConns /\ conns[sc].owner = Srv /\ IsOpen(sc) /\ conns[sc].noise = "hs"
    /\ cc # 0
    \* XX: the server is done when it has read act 3; KK: when it has written
    \* act 2 (having read act 1)
    /\ IF conns[sc].pat = "XX" THEN conns[cc].noise \in {"up", "rej"}
       ELSE HsCompatible(cc, sc)
    /\ conns' = [conns EXCEPT ![sc].noise = "up"]
    /\ remote' = IF v2 THEN [remote EXCEPT ![Srv] = c] ELSE remote
    /\ everUp' = everUp \cup {c}
    /\ UNCHANGED <<psid, mc, pc, nConns, boxes, closes, v2>>

\* The pairing client ran its XX handshake to the end - act 3 written, the
\* server's key stored (ConnData.SetRemote) - and then its auth-data callback
\* refused the payload (ConnData.SetAuthData hands the callback's error on):
\* Machine.DoHandshake fails on the client, which closes the connection, but
\* the key stays.  The server can still read act 3 and complete; from then
\* on both are on the key-derived rendezvous.
HsClientRejects(cc) ==
    LET sc == conns[cc].peer  c == conns[cc].owner IN
    /\ cc \in 1..nConns /\ c \in Clients /\ IsOpen(cc) /\ conns[cc].noise = "hs"
    /\ sc # 0 /\ HsCompatible(cc, sc) /\ conns[cc].pat = "XX" /\ IsOpen(sc)
    /\ closes < MaxCloses /\ closes' = closes + 1
    /\ conns' = [conns EXCEPT ![cc].noise = "rej", ![cc].st = "closed"]
    /\ remote' = IF v2 THEN [remote EXCEPT ![c] = Srv] ELSE remote
    /\ UNCHANGED <<psid, mc, pc, nConns, boxes, everUp, v2>>

\* both ends of an XX handshake in one step (trace validation: the two ends
\* report from different goroutines, the server's line may overtake the
\* client's although the client finished first)
HsBothDone(sc) ==
    LET cc == conns[sc].peer  c == conns[cc].owner IN
    /\ sc \in 1..nConns /\ conns[sc].owner = Srv /\ IsOpen(sc) /\ conns[sc].noise = "hs"
    /\ cc # 0
    /\ conns[sc].pat = "XX" /\ conns[cc].noise = "hs" /\ HsCompatible(cc, sc)
    /\ conns' = [conns EXCEPT ![sc].noise = "up", ![cc].noise = "up"]
    /\ remote' = IF v2 THEN [remote EXCEPT ![Srv] = c, ![c] = Srv] ELSE remote
    /\ everUp' = everUp \cup {c}
    /\ UNCHANGED <<psid, mc, pc, nConns, boxes, closes, v2>>

\* both ends of a KK handshake in one step (trace validation: the server is
\* done when it has written act 2 and the client when it has read it, but the
\* client's report may overtake the server's)
HsBothDoneKK(cc) ==
    LET sc == conns[cc].peer  c == conns[cc].owner IN
    /\ cc \in 1..nConns /\ c \in Clients /\ IsOpen(cc) /\ conns[cc].noise = "hs"
    /\ sc # 0 /\ IsOpen(sc) /\ conns[sc].noise = "hs"
    /\ conns[cc].pat = "KK" /\ conns[sc].pat = "KK" /\ HsCompatible(cc, sc)
    /\ conns' = [conns EXCEPT ![sc].noise = "up", ![cc].noise = "up"]
    /\ remote' = IF v2 THEN [remote EXCEPT ![Srv] = c, ![c] = Srv] ELSE remote
    /\ everUp' = everUp \cup {c}
    /\ UNCHANGED <<psid, mc, pc, nConns, boxes, closes, v2>>

\* incompatible ends (patterns or keys differ): both handshakes fail, the
\* owners close
HsFail(i) ==
    LET j == conns[i].peer IN
    /\ i \in 1..nConns /\ IsOpen(i) /\ conns[i].noise = "hs" /\ j # 0
    /\ LET cc == IF conns[i].owner = Srv THEN j ELSE i
           sc == IF conns[i].owner = Srv THEN i ELSE j IN ~HsCompatible(cc, sc)
    /\ conns' = [conns EXCEPT ![i].noise = "fail", ![i].st = "closed"]
    /\ UNCHANGED <<remote, psid, mc, pc, nConns, boxes, closes, everUp, v2>>

---------------------------------------------------------------------------
(* closing *)

InHalfPairWindow(i) ==
    LET cc == IF conns[i].owner = Srv THEN conns[i].peer ELSE i
        sc == IF conns[i].owner = Srv THEN i ELSE conns[i].peer IN
    cc # 0 /\ sc # 0 /\ conns[cc].noise = "up" /\ conns[sc].noise = "hs"

\* the owner closes: the application, or its reader after a failure
Close(i) ==
    /\ i \in 1..nConns /\ IsOpen(i) /\ closes < MaxCloses
    /\ HalfPairFaults \/ ~InHalfPairWindow(i)
    /\ closes' = closes + 1
    /\ conns' = [conns EXCEPT ![i].st = "closed"]
    /\ UNCHANGED <<remote, psid, mc, pc, nConns, boxes, everUp, v2>>

\* the peer went away (FIN / keepalive): the owner's reader fails, it closes
PeerDown(i) ==
    LET j == conns[i].peer IN
    /\ i \in 1..nConns /\ IsOpen(i)
    /\ \/ j # 0 /\ ~IsOpen(j)
       \/ j = 0                                     \* nobody answered
    \* the last act of a client that refused the auth data is on its way: its
    \* loss is the half-pairing fault
    /\ HalfPairFaults \/ ~(j # 0 /\ conns[j].noise = "rej" /\ conns[i].noise = "hs")
    /\ conns' = [conns EXCEPT ![i].st = "closed"]
    /\ UNCHANGED <<remote, psid, mc, pc, nConns, boxes, closes, everUp, v2>>

Next ==
    \/ \E p \in Parties : Call(p) \/ Wake(p) \/ SidStep(p) \/ ConnErr(p)
    \/ \E c \in Clients : CDialRet(c)
    \/ \E i \in 0..nConns : SAcceptRet(i)
    \/ \E i \in 1..nConns : HsClientDone(i) \/ HsServerDone(i) \/ HsClientRejects(i)
                            \/ HsFail(i) \/ Close(i) \/ PeerDown(i)

Spec == Init /\ [][Next]_vars

Fair ==
    /\ \A p \in Parties : WF_vars(Call(p)) /\ WF_vars(Wake(p)) /\ WF_vars(SidStep(p))
    /\ \A c \in Clients : SF_vars(CDialRet(c))
    /\ \A i \in 0..MaxConns : WF_vars(SAcceptRet(i))
    /\ \A i \in 1..MaxConns : WF_vars(HsClientDone(i))
                              /\ WF_vars(HsServerDone(i)) /\ WF_vars(HsFail(i))
                              /\ WF_vars(PeerDown(i))
LiveSpec == Spec /\ Fair

---------------------------------------------------------------------------
(* C11 *)

\* never a second connection while the previous one is still open
AtMostOneOpen == \A p \in Parties : Cardinality(OpenOf(p)) <= 1

\* a connection created by a party that knows its peer's key uses the
\* key-derived rendezvous and the KK pattern
KeyedConnsUseK ==
    \A i \in 1..nConns : conns[i].pairedAtCreate =>
        (conns[i].sid # "P" /\ conns[i].pat = "KK")

\* both ends of a connection pair sit on the same rendezvous
SameRendezvous ==
    \A i \in 1..nConns : conns[i].peer # 0 => conns[conns[i].peer].sid = conns[i].sid

\* once keys were exchanged, a different client with only the passphrase is
\* not admitted: at most one client ever completes a handshake
OnlyThePairedClient == v2 => Cardinality(everUp) <= 1

\* the old passphrase rendezvous disappears when the server moves on
OldBoxesGone == (psid[Srv] # "P" /\ pc[Srv] \in {"conn", "idle", "wait"})
                    => "P" \notin boxes

\* a pair that exchanged keys meets again: whenever both have the keys and no
\* connection is up, one comes up (while closes remain, i.e. fairness aside)
Paired(c) == remote[c] = Srv /\ remote[Srv] = c
UpPair(c) == \E i \in 1..nConns : /\ conns[i].owner = c /\ IsOpen(i) /\ conns[i].noise = "up"
                                  /\ conns[i].peer # 0 /\ IsOpen(conns[i].peer)
                                  /\ conns[conns[i].peer].noise = "up"
FreshAfterClose == \A c \in Clients :
    [](Paired(c) /\ nConns + 2 <= MaxConns => <>(UpPair(c) \/ nConns + 2 > MaxConns))

\* half-paired: the client kept the server's key, the server never learnt
\* the client's - they will not meet again (the pairing has to be redone)
HalfPaired == \E c \in Clients : remote[c] = Srv /\ remote[Srv] # c /\ ~(\E i \in 1..nConns :
                  conns[i].owner = c /\ IsOpen(i) /\ conns[i].noise = "up")
=============================================================================
