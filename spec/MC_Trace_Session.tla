------------------------- MODULE MC_Trace_Session -------------------------
EXTENDS Trace_Session
AllClients == {"c", "x"}
BothVersions == {TRUE, FALSE}
=============================================================================
