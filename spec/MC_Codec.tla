----------------------------- MODULE MC_Codec -----------------------------
(* Exhaustive check of the codec operators over a reduced byte alphabet:   *)
(* every byte string up to MaxLen and every message with fields and        *)
(* payloads over the alphabet is one initial state.                        *)
EXTENDS Codec, TLC
CONSTANTS Alpha, MaxLen, MaxPl, Dev
VARIABLES kind, b, m

Strs(n) == UNION {[1..i -> Alpha] : i \in 0..n}

GbnMsgs ==
    [k : {"DATA"}, seq : Alpha, fin : BOOLEAN, ping : BOOLEAN, pl : Strs(MaxPl)]
    \cup [k : {"ACK", "NACK"}, seq : Alpha]
    \cup [k : {"SYN"}, n : Alpha]
    \cup {[k |-> "FIN"], [k |-> "SYNACK"]}
MsgMsgs == [v : Alpha, pl : Strs(MaxPl)]

Init == \/ kind = "bytes" /\ b \in Strs(MaxLen) /\ m = [k |-> "FIN"]
        \/ kind = "gbn" /\ b = <<>> /\ m \in GbnMsgs
        \/ kind = "msg" /\ b = <<>> /\ m \in MsgMsgs
Next == UNCHANGED <<kind, b, m>>

Props ==
    /\ kind = "bytes" =>
          /\ (IF Dev THEN DevGbnDeser(b).st # "panic" ELSE NoPanic(b))
          /\ GbnStable(b) /\ MsgStable(b)
    /\ kind = "gbn" => GbnRoundTrip(m)
    /\ kind = "msg" => MsgRoundTrip(m)
=============================================================================
