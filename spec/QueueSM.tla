------------------------------ MODULE QueueSM ------------------------------
(***************************************************************************)
(* The send queue of gbn/queue.go as a state machine over (base, top),     *)
(* driven by the operators of Window.tla: Add (addPacket, only while there *)
(* is room), Ack(q) (processACK), Nack(q) (processNACK) for wire bytes q.  *)
(* Its only purpose is to be *replayed*: TLC generates behaviours          *)
(* (-simulate), each is printed as JSON with the expected return values    *)
(* and the expected (base, top) after every step, and the driver           *)
(* TestC09Replay steps the real queue through the same calls, comparing    *)
(* after each (specification -> implementation, the converse direction of  *)
(* trace validation).                                                      *)
(***************************************************************************)
EXTENDS Window, Sequences, Json, TLC

CONSTANTS S,       \* size of the sequence space (window n = S - 1)
          Wire,    \* wire bytes used for ACK / NACK
          Depth    \* steps per behaviour

VARIABLES b, t, hist
vars == <<b, t, hist>>

Init == b = 0 /\ t = 0 /\ hist = <<>>

Add ==
    /\ QSize(b, t, S) < S - 1
    /\ t' = (t + 1) % S /\ b' = b
    /\ hist' = Append(hist, [op |-> "add", q |-> t, r1 |-> 0, r2 |-> 0, b |-> b, t |-> (t + 1) % S])

B2I(x) == IF x THEN 1 ELSE 0

Ack(q) ==
    LET r == AckResult(b, t, q, S) IN
    /\ b' = r.base /\ t' = t
    /\ hist' = Append(hist, [op |-> "ack", q |-> q, r1 |-> B2I(r.valid), r2 |-> 0,
                             b |-> r.base, t |-> t])

Nack(q) ==
    LET r == NackResult(b, t, q, S) IN
    /\ b' = r.base /\ t' = t
    /\ hist' = Append(hist, [op |-> "nack", q |-> q, r1 |-> B2I(r.resend), r2 |-> B2I(r.bumped),
                             b |-> r.base, t |-> t])

Next == /\ Len(hist) < Depth
        /\ Add \/ \E q \in Wire : Ack(q) \/ Nack(q)
Spec == Init /\ [][Next]_vars

\* the window invariants hold along every behaviour
Safe == ValidWin(b, t, S) /\ QSize(b, t, S) <= S - 1

\* a finished behaviour is printed once (as an "invariant" that always holds)
Dump == Len(hist) = Depth => PrintT(<<"BEHAVIOUR", S, ToJson(hist)>>)
=============================================================================
