----------------------------- MODULE Trace_Noise -----------------------------
(***************************************************************************)
(* C03 / C04: handshake cases executed on the real Machines (with a man in *)
(* the middle rewriting version bytes and flipping bits of fields) against *)
(* the outcome Noise.tla predicts for the same case.  One line per case:   *)
(*  {"op":"case","case":{...},"newErr":..,"iDone":..,"rDone":..,"wrote2":..,*)
(*   "wrote3":..,"iVer":..,"rVer":..,"keysAgree":..,"iRsOK":..,"rRsOK":..,   *)
(*   "payloadOK":..,"iAuthLen":..,"iRemote":..,"rRemote":..}                *)
(***************************************************************************)
EXTENDS Noise, Json

CONSTANT TraceFile
Trace == ndJsonDeserialize(TraceFile)

B(x) == IF x THEN 1 ELSE 0

PayloadOf(cls) ==
    IF cls = "empty" THEN [id |-> "empty", big |-> FALSE]
    ELSE IF cls = "small" THEN [id |-> "small", big |-> FALSE]
    ELSE IF cls = "p498" THEN [id |-> "p498", big |-> FALSE]
    ELSE IF cls \in {"big", "p499", "p500", "p501"} THEN [id |-> cls, big |-> TRUE]
    ELSE [id |-> "large", big |-> TRUE]

CaseOf(k) ==
    [pattern |-> k.pattern, cMin |-> k.cMin, cMax |-> k.cMax, sMin |-> k.sMin,
     sMax |-> k.sMax, pwEq |-> k.pwEq, iExpect |-> k.iExpect, rExpect |-> k.rExpect,
     payload |-> PayloadOf(k.payloadClass), verSub |-> k.verSub,
     corruptAct |-> k.corruptAct, corruptField |-> k.corruptField,
     imp |-> IF "imp" \in DOMAIN k THEN k.imp ELSE 0]

\* the remote static key each side's connection data holds afterwards
RemoteI(c, o) == IF c.pattern = KK THEN (IF c.iExpect = "sR" THEN "sR" ELSE "other")
                 ELSE IF o.iDone /\ o.iVer >= 2 THEN "sR" ELSE "none"
RemoteR(c, o) == IF c.pattern = KK THEN (IF c.rExpect = "sI" THEN "sI" ELSE "other")
                 ELSE IF o.rDone /\ o.rVer >= 2 THEN "sI" ELSE "none"

\* which class of disagreement a line shows (for reporting); "" = agrees
Diff(ln) ==
    LET c == CaseOf(ln["case"])
        o == Outcome(c) IN
    IF o.newErr THEN (IF ln.newErr = 1 THEN "" ELSE "newErr")
    ELSE IF ln.newErr = 1 THEN "newErr"
    ELSE IF ln.iDone # B(o.iDone) THEN "iDone"
    ELSE IF ln.rDone # B(o.rDone) THEN "rDone"
    ELSE IF ln.wrote2 # B(o.wrote2) THEN "wrote2"
    ELSE IF ln.wrote3 # B(o.wrote3) THEN "wrote3"
    ELSE IF ln.iVer # o.iVer THEN "iVer"
    ELSE IF ln.rVer # o.rVer THEN "rVer"
    ELSE IF ln.keysAgree # B(o.keysAgree) THEN "keysAgree"
    ELSE IF ln.iRsOK # B(o.iRsOK) THEN "iRsOK"
    ELSE IF ln.rRsOK # B(o.rRsOK) THEN "rRsOK"
    ELSE IF ln.payloadOK # B(o.payloadOK) THEN "payloadOK"
    ELSE IF ~o.iDone /\ ln.iAuthLen # 0 THEN "authDataOnAbort"
    ELSE IF ln.iRemote # RemoteI(c, o) THEN "iRemote"
    ELSE IF ln.rRemote # RemoteR(c, o) THEN "rRemote"
    ELSE ""

\* the properties themselves, evaluated on what the real code did
RealC03(ln) ==
    LET c == CaseOf(ln["case"]) IN
    IF ln.newErr = 1 THEN TRUE ELSE
    /\ (ln.iDone = 1 \/ ln.rDone = 1) => Authorised(c)
    /\ ~Authorised(c) => (ln.wrote2 = 0 /\ ln.respBytes = 0)
    /\ ln.iDone = 0 => ln.iAuthLen = 0
RealC04(ln) ==
    IF ln.newErr = 1 THEN TRUE
    ELSE (ln.iDone = 1 /\ ln.rDone = 1) =>
        /\ ln.iVer = ln.rVer /\ ln.keysAgree = 1 /\ ln.iRsOK = 1 /\ ln.rRsOK = 1
        /\ ln.payloadOK = 1

\* the one disagreement the protocol is known to admit (see Noise.tla,
\* IsVersionConfusion), as observed on the real endpoints
RealConfusion(ln) ==
    /\ ln.newErr = 0 /\ ln.iDone = 1 /\ ln.rDone = 1
    /\ {ln.iVer, ln.rVer} = {1, 2} /\ ln.keysAgree = 1 /\ ln.iRsOK = 1
    /\ ln.rRsOK = 1 /\ ln.payloadOK = 1

VARIABLE i
Init == i = 1
Next == i <= Len(Trace) /\ i' = i + 1
\* Every line is evaluated; lines that disagree with the model or break a
\* property are printed (the check reads them), the run continues.
AllOK == i <= Len(Trace) =>
    LET d == Diff(Trace[i])
        c3 == RealC03(Trace[i])
        c4 == RealC04(Trace[i]) IN
    IF d = "" /\ c3 /\ c4 THEN TRUE
    ELSE PrintT(<<"NOISE_LINE", i, "DIFF", d, "C03", c3, "C04", c4,
                  "CONFUSION", RealConfusion(Trace[i])>>)
=============================================================================
