----------------------------- MODULE Trace_Link -----------------------------
(***************************************************************************)
(* Validation of the real mailbox transport against MailboxLink.tla's       *)
(* LossyFifo: the records of the link tap (every data-phase packet a real   *)
(* GoBackNConn hands to the mailbox layer's send function, "gtx", and every *)
(* packet the mailbox layer's receive function hands to the peer's          *)
(* GoBackNConn, "grx"), in their global order, for both directions of one   *)
(* client/server connection pair of an end-to-end session under relay       *)
(* faults.  A received packet must be one that was sent and not yet passed  *)
(* over: per sender (send loop / receive loop) the position in the sent     *)
(* sequence never goes back (a repetition                                   *)
(* stays at its position, a loss skips forward).  Identical packets         *)
(* (GBN's own retransmissions) are matched to the earliest candidate, which *)
(* is the most permissive choice.                                           *)
(* Lines: {"ev":"reset"} | {"ev":"gtx"|"grx","side":..,"st":stream,"k":type, *)
(*         "seq":..,"len":..,"crc":..}                                      *)
(***************************************************************************)
EXTENDS Naturals, Sequences, Json, TLC
CONSTANT TraceFile
Trace == ndJsonDeserialize(TraceFile)

VARIABLES l,
          sent,   \* [stream -> [class -> sequence of packets handed to send()]]
          pos     \* [stream -> [class -> index in sent of the last packet its reader received]]
\* The streams are named by the ids the connections themselves report: a
\* connection's gtx lines carry its send stream, its grx lines its receive
\* stream; the sender of a stream and its receiver must agree on the name
\* (C17: the client's send stream is the server's receive stream).
Streams == {Trace[i].st : i \in {j \in 1..Len(Trace) : Trace[j].ev \in {"gtx", "grx"}}}
\* A connection has two senders: the send loop (DATA packets, pings and
\* retransmissions: type 2) and the receive loop (ACK 3, NACK 4).  Each calls
\* the transport's send function sequentially, so each class is a FIFO of its
\* own; the order in which the two take the transport's send mutex is not
\* visible at the hook (it fires before the call), so nothing is demanded
\* across classes.
Classes == {"data", "ack"}
Class(r) == IF r.k = 2 THEN "data" ELSE "ack"
Pkt(r) == <<r.k, r.seq, r.len, r.crc>>
Ev == Trace[l]
Is(e) == l <= Len(Trace) /\ Trace[l].ev = e

Empty == [x \in Streams |-> [c \in Classes |-> <<>>]]
Zero == [x \in Streams |-> [c \in Classes |-> 0]]
Init == l = 1 /\ sent = Empty /\ pos = Zero

TReset == /\ Is("reset") /\ l' = l + 1 /\ sent' = Empty /\ pos' = Zero

\* handshake packets are sent outside sendPacket (no gtx): SYN = 1, SYNACK = 6;
\* a FIN (5) may stem from a connection attempt that was abandoned before it
\* was handed out: it is not matched either
Handshake(r) == r.k \in {1, 5, 6}

TTx == /\ Is("gtx") /\ l' = l + 1 /\ UNCHANGED pos
       /\ IF Handshake(Ev) THEN UNCHANGED sent
          ELSE sent' = [sent EXCEPT ![Ev.st][Class(Ev)] = Append(@, Pkt(Ev))]

TRx == /\ Is("grx") /\ l' = l + 1 /\ UNCHANGED sent
       /\ IF Handshake(Ev) THEN UNCHANGED pos
          ELSE LET from == Ev.st
                   c == Class(Ev)
                   lo == IF pos[from][c] = 0 THEN 1 ELSE pos[from][c]
                   cand == {j \in lo..Len(sent[from][c]) : sent[from][c][j] = Pkt(Ev)}
               IN /\ cand # {}
                  /\ pos' = [pos EXCEPT ![from][c] =
                                CHOOSE j \in cand : \A k \in cand : j <= k]

Next == TReset \/ TTx \/ TRx
Spec == Init /\ [][Next]_<<l, sent, pos>>

TraceAccepted ==
    LET d == TLCGet("stats").diameter IN
    IF d - 1 = Len(Trace) THEN TRUE
    ELSE Print(<<"TRACE_REJECTED_AT_LINE", d, "OF", Len(Trace)>>, FALSE)
=============================================================================
