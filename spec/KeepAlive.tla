------------------------------ MODULE KeepAlive ------------------------------
(***************************************************************************)
(* Timed model of the keepalive and resend timers of one GoBackNConn        *)
(* endpoint A (gbn/gbn_conn.go sendPacketsForever / receivePacketsForever,  *)
(* gbn/ticker.go) against a peer B that answers every DATA packet with an   *)
(* ACK after a fixed latency, sends its own keepalive pings, and may die    *)
(* (stop responding altogether) at any moment.  Discrete time; every timer  *)
(* is a count-down; Tick is only possible when no zero-delay step is        *)
(* enabled (maximal progress), so "bounded response" properties are plain   *)
(* invariants over the age counters.                                        *)
(*                                                                         *)
(* Send loop locations:                                                     *)
(*   "outer"  the outer select: serves resend tick, ping tick, pong tick,   *)
(*            application data                                              *)
(*   "full"   the inner select (window full): serves ACK wake-up and the    *)
(*            resend tick; the ping/pong ticks only if ServeKAWhenFull      *)
(*   "sync"   inside queue.resend waiting for the syncer: serves nothing    *)
(*                                                                         *)
(* Named deviations of the pinned code (both TRUE reproduce it):            *)
(*   ~ServeKAWhenFull    keepalive ticks are not served in the inner select *)
(*   ResetResendOnAnyRx  every received packet restarts the resend ticker   *)
(*                       (the repaired code restarts it only when the       *)
(*                       packet acknowledges something: ACK / NACK)         *)
(***************************************************************************)
EXTENDS Integers, Sequences, TLC

CONSTANTS
    N,            \* window
    P, Q,         \* A's ping interval and pong timeout
    PB,           \* B's ping interval (0: B never pings)
    R,            \* resend timeout (static)
    LAT,          \* one-way latency
    MaxQueued,    \* application messages A may want to send
    MaxLoss,      \* A's DATA packets the network may lose while B is alive
    BMayDie,      \* whether B may die
    Bound,        \* bound checked by DetectDead / NoSilentStall
    ServeKAWhenFull,
    ResetResendOnAnyRx

VARIABLES
    loc, size, queued,
    rsCd, rsTick,
    pingCd, pingTick,
    pongOn, pongCd, pongTick,
    syncCd,
    closed,
    toB, toA,        \* in flight: sequences of [k, d] (kind, remaining delay)
    bAlive, bPingCd, \* B: alive, ping count-down
    lost,
    deadFor,         \* time since B died (capped at Bound + 1)
    stallFor         \* time A has had unacknowledged data without progress

vars == <<loc, size, queued, rsCd, rsTick, pingCd, pingTick, pongOn, pongCd,
          pongTick, syncCd, closed, toB, toA, bAlive, bPingCd, lost,
          deadFor, stallFor>>

Cap == Bound + 1
Min(a, b) == IF a < b THEN a ELSE b

Init ==
    /\ loc = "outer" /\ size = 0 /\ queued \in 0..MaxQueued
    /\ rsCd = R /\ rsTick = FALSE
    /\ pingCd = P /\ pingTick = FALSE
    /\ pongOn = FALSE /\ pongCd = 0 /\ pongTick = FALSE
    /\ syncCd = 0 /\ closed = FALSE
    /\ toB = <<>> /\ toA = <<>>
    /\ bAlive = TRUE /\ bPingCd = PB /\ lost = 0
    /\ deadFor = 0 /\ stallFor = 0

Send(ch, k) == Append(ch, [k |-> k, d |-> LAT])

\* after a packet was added: the inner-loop test
AfterAdd(sz) == IF sz >= N THEN "full" ELSE "outer"

---------------------------------------------------------------------------
(* A: send loop (zero-delay steps) *)

\* application data accepted in the outer select
SData ==
    /\ ~closed /\ loc = "outer" /\ queued > 0
    /\ queued' = queued - 1 /\ size' = size + 1
    /\ toB' = Send(toB, "DATA")
    /\ loc' = AfterAdd(size + 1)
    /\ UNCHANGED <<rsCd, rsTick, pingCd, pingTick, pongOn, pongCd, pongTick,
                   syncCd, closed, toA, bAlive, bPingCd, lost, deadFor,
                   stallFor>>

\* the resend tick is served (outer or inner select): resend the window and
\* wait for the syncer; with an empty window nothing happens
SResend ==
    /\ ~closed /\ loc \in {"outer", "full"} /\ rsTick
    /\ rsTick' = FALSE /\ rsCd' = R
    /\ IF size = 0 THEN UNCHANGED <<loc, syncCd, toB>>
       ELSE /\ loc' = "sync" /\ syncCd' = 3 * R
            /\ toB' = toB \o [i \in 1..size |-> [k |-> "DATA", d |-> LAT]]
    /\ UNCHANGED <<size, queued, pingCd, pingTick, pongOn, pongCd, pongTick,
                   closed, toA, bAlive, bPingCd, lost, deadFor, stallFor>>

\* waitForSync ends (timeout or cancelled): back to the loop
SSyncDone ==
    /\ ~closed /\ loc = "sync" /\ syncCd = 0
    /\ loc' = AfterAdd(size)
    /\ rsCd' = R /\ rsTick' = FALSE          \* resendQueue resets and drains
    /\ UNCHANGED <<size, queued, pingCd, pingTick, pongOn, pongCd, pongTick,
                   syncCd, closed, toB, toA, bAlive, bPingCd, lost,
                   deadFor, stallFor>>

KAServed == loc = "outer" \/ (loc = "full" /\ ServeKAWhenFull)

\* ping tick: a pending pong tick wins; otherwise arm the pong timer, restart
\* the ping timer and (in the outer select) send a ping packet
SPing ==
    /\ ~closed /\ KAServed /\ pingTick
    /\ pingTick' = FALSE
    /\ IF pongTick
       THEN closed' = TRUE /\ UNCHANGED <<pongOn, pongCd, pingCd, size, toB, loc>>
       ELSE /\ pongOn' = TRUE /\ pongCd' = Q /\ pingCd' = P
            /\ IF loc = "outer"
               THEN /\ size' = size + 1 /\ toB' = Send(toB, "DATA")
                    /\ loc' = AfterAdd(size + 1)
               ELSE UNCHANGED <<size, toB, loc>>   \* the window is the probe
            /\ UNCHANGED closed
    /\ UNCHANGED <<queued, rsCd, rsTick, pongTick, syncCd, toA, bAlive, bPingCd,
                   lost, deadFor, stallFor>>

\* pong tick: no packet arrived since the ping
SPong ==
    /\ ~closed /\ KAServed /\ pongTick
    /\ closed' = TRUE
    /\ UNCHANGED <<loc, size, queued, rsCd, rsTick, pingCd, pingTick, pongOn,
                   pongCd, pongTick, syncCd, toB, toA, bAlive, bPingCd,
                   lost, deadFor, stallFor>>

\* woken by an acknowledgement in the inner select
SWake ==
    /\ ~closed /\ loc = "full" /\ size < N
    /\ loc' = "outer"
    /\ UNCHANGED <<size, queued, rsCd, rsTick, pingCd, pingTick, pongOn, pongCd,
                   pongTick, syncCd, closed, toB, toA, bAlive, bPingCd,
                   lost, deadFor, stallFor>>

---------------------------------------------------------------------------
(* A: receive loop: a packet arrives (its delay has run out) *)

ARecv ==
    /\ ~closed /\ toA # <<>> /\ Head(toA).d = 0
    /\ toA' = Tail(toA)
    /\ LET p == Head(toA) IN
       \* every packet: restart the ping timer, pause the pong timer
       /\ pingCd' = P /\ pingTick' = FALSE
       /\ pongOn' = FALSE /\ pongTick' = FALSE /\ pongCd' = 0
       /\ IF ResetResendOnAnyRx \/ p.k = "ACK"
          THEN rsCd' = R /\ rsTick' = FALSE
          ELSE UNCHANGED <<rsCd, rsTick>>
       /\ IF p.k = "ACK"
          THEN /\ size' = IF size > 0 THEN size - 1 ELSE 0
               /\ stallFor' = 0
               \* the expected ACK of a resend shortens the sync wait
               /\ syncCd' = IF loc = "sync" /\ size = 1 THEN Min(syncCd, R) ELSE syncCd
               /\ UNCHANGED toB
          ELSE \* B's ping (a DATA packet): acknowledge it
               /\ toB' = Send(toB, "ACK")
               /\ UNCHANGED <<size, stallFor, syncCd>>
    /\ UNCHANGED <<loc, queued, closed, bAlive, bPingCd, lost, deadFor>>

---------------------------------------------------------------------------
(* B and the network *)

BRecv ==
    /\ toB # <<>> /\ Head(toB).d = 0
    /\ toB' = Tail(toB)
    /\ IF ~bAlive THEN UNCHANGED <<toA, bPingCd>>
       ELSE /\ bPingCd' = PB
            /\ IF Head(toB).k = "DATA"
               THEN toA' = Send(toA, "ACK")
               ELSE UNCHANGED toA
    /\ UNCHANGED <<loc, size, queued, rsCd, rsTick, pingCd, pingTick, pongOn,
                   pongCd, pongTick, syncCd, closed, bAlive, lost, deadFor,
                   stallFor>>

\* the network loses one of A's packets (while B is alive: tail loss etc.)
Lose ==
    /\ lost < MaxLoss /\ bAlive /\ toB # <<>> /\ Head(toB).k = "DATA"
    /\ Head(toB).d = LAT            \* decided when it is sent
    /\ toB' = Tail(toB) /\ lost' = lost + 1
    /\ UNCHANGED <<loc, size, queued, rsCd, rsTick, pingCd, pingTick, pongOn,
                   pongCd, pongTick, syncCd, closed, toA, bAlive, bPingCd,
                   deadFor, stallFor>>

\* B's own keepalive ping
BPing ==
    /\ bAlive /\ PB > 0 /\ bPingCd = 0
    /\ bPingCd' = PB
    /\ toA' = Send(toA, "DATA")
    /\ UNCHANGED <<loc, size, queued, rsCd, rsTick, pingCd, pingTick, pongOn,
                   pongCd, pongTick, syncCd, closed, toB, bAlive, lost,
                   deadFor, stallFor>>

Die ==
    /\ BMayDie /\ bAlive
    /\ bAlive' = FALSE /\ toA' = <<>>        \* nothing more arrives from B
    /\ UNCHANGED <<loc, size, queued, rsCd, rsTick, pingCd, pingTick, pongOn,
                   pongCd, pongTick, syncCd, closed, toB, bPingCd, lost,
                   deadFor, stallFor>>

---------------------------------------------------------------------------
(* time *)

Urgent ==
    \/ (~closed /\ loc = "outer" /\ queued > 0)
    \/ (~closed /\ loc \in {"outer", "full"} /\ rsTick)
    \/ (~closed /\ loc = "sync" /\ syncCd = 0)
    \/ (~closed /\ KAServed /\ (pingTick \/ pongTick))
    \/ (~closed /\ loc = "full" /\ size < N)
    \/ (~closed /\ toA # <<>> /\ Head(toA).d = 0)
    \/ (toB # <<>> /\ Head(toB).d = 0)
    \/ (bAlive /\ PB > 0 /\ bPingCd = 0)

Dec(x) == IF x > 0 THEN x - 1 ELSE 0
Age(q) == [i \in 1..Len(q) |-> [k |-> q[i].k, d |-> Dec(q[i].d)]]

Tick ==
    /\ ~Urgent /\ ~closed
    /\ toB' = Age(toB) /\ toA' = Age(toA)
    \* tickers are periodic: at zero a tick becomes pending and the count-down
    \* restarts
    /\ rsCd' = IF rsCd = 1 THEN R ELSE rsCd - 1
    /\ rsTick' = (rsTick \/ rsCd = 1)
    /\ pingCd' = IF pingCd = 1 THEN P ELSE pingCd - 1
    /\ pingTick' = (pingTick \/ pingCd = 1)
    /\ pongCd' = IF pongOn THEN (IF pongCd = 1 THEN Q ELSE pongCd - 1) ELSE 0
    /\ pongTick' = (pongTick \/ (pongOn /\ pongCd = 1))
    /\ syncCd' = Dec(syncCd)
    /\ bPingCd' = IF bAlive /\ PB > 0 THEN Dec(bPingCd) ELSE bPingCd
    /\ deadFor' = IF ~bAlive THEN Min(deadFor + 1, Cap) ELSE 0
    /\ stallFor' = IF size > 0 /\ bAlive THEN Min(stallFor + 1, Cap) ELSE 0
    /\ UNCHANGED <<loc, size, queued, pongOn, closed, bAlive, lost>>

Next == SData \/ SResend \/ SSyncDone \/ SPing \/ SPong \/ SWake \/ ARecv
        \/ BRecv \/ Lose \/ BPing \/ Die \/ Tick
Spec == Init /\ [][Next]_vars

---------------------------------------------------------------------------
(* Properties *)

\* C13: a peer that stops responding is detected within the bound, whatever
\* the send loop was doing and however much data was queued
DetectDead == deadFor > Bound => closed

\* C13: a peer that keeps answering within the pong timeout is never cut off
NoFalseClose == closed => ~bAlive

\* C06: while both ends are alive, unacknowledged data is acknowledged (or
\* retransmitted and then acknowledged) within the bound: no silent stall
NoSilentStall == (bAlive /\ ~closed) => stallFor <= Bound
=============================================================================
