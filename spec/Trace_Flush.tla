----------------------------- MODULE Trace_Flush -----------------------------
(***************************************************************************)
(* C16: (a) every logged call of the real Machine.Flush is compared with    *)
(* RecordIO!FlushStep, and the per-record accounting (exactly the record's  *)
(* bytes emitted once, exact plaintext count, no new record while one is    *)
(* pending, the peer decrypts it) is checked at the end of each record;     *)
(* (b) handshakes and record exchanges over fragmenting readers must have   *)
(* the outcome of the unfragmented run: success.                            *)
(*  {"op":"flush","L":..,"hdr":h,"body":b,"acc":a,"n":n,"err":""|"timeout"} *)
(*  {"op":"flushEnd","L":..,"sum":..,"emitted":..,"peerOK":..,"refused":..,  *)
(*   "pending":..}                                                          *)
(*  {"op":"hs","pattern":..,"frag":k,"newErr":..,"cErr":..,"sErr":..,        *)
(*   "recOK":..,"payloadOK":..}                                             *)
(***************************************************************************)
EXTENDS RecordIO, Json

CONSTANT TraceFile
Trace == ndJsonDeserialize(TraceFile)

VARIABLES l, hdr, body, sumN, emitted
Ev == Trace[l]
Is(o) == l <= Len(Trace) /\ Trace[l].op = o
Adv == l' = l + 1

TFlush ==
    /\ Is("flush") /\ Adv
    \* a record starts with the first flush after a flushEnd
    /\ LET h0 == IF hdr = 0 /\ body = 0 THEN HDR ELSE hdr
           b0 == IF hdr = 0 /\ body = 0 THEN Ev.L + MAC ELSE body
           r == FlushStep(h0, b0, Ev.acc) IN
       /\ Ev.hdr = h0 /\ Ev.body = b0
       /\ Ev.n = r.n
       /\ (Ev.err # "") = r.err
       /\ hdr' = r.hdr /\ body' = r.body
       /\ sumN' = (IF hdr = 0 /\ body = 0 THEN 0 ELSE sumN) + r.n
       /\ emitted' = (IF hdr = 0 /\ body = 0 THEN 0 ELSE emitted) + Ev.acc

TFlushEnd ==
    /\ Is("flushEnd") /\ Adv
    /\ hdr = 0 /\ body = 0 /\ Ev.pending = 0       \* the record is out
    /\ Ev.sum = sumN /\ sumN = Ev.L                  \* CountExact
    /\ Ev.emitted = emitted /\ emitted = HDR + Ev.L + MAC   \* EmitOnce
    /\ Ev.peerOK = 1
    \* a record of the opposite direction read while this one was partly out
    \* arrived intact (and left this one intact: peerOK)
    /\ Ev.rev \in {-1, 1}
    /\ Ev.refused \in {-1, 1}                        \* NoNewRecordWhilePending
    /\ UNCHANGED <<hdr, body, sumN, emitted>>

\* FragIndependent: a valid handshake succeeds whatever the read granularity
THs ==
    /\ Is("hs") /\ Adv
    /\ Ev.newErr = "" /\ Ev.cErr = "" /\ Ev.sErr = ""
    /\ Ev.recOK = 1 /\ Ev.payloadOK = 1
    /\ UNCHANGED <<hdr, body, sumN, emitted>>

TraceNext == TFlush \/ TFlushEnd \/ THs
TraceSpec == l = 1 /\ hdr = 0 /\ body = 0 /\ sumN = 0 /\ emitted = 0
             /\ [][TraceNext]_<<l, hdr, body, sumN, emitted>>
TraceAccepted ==
    LET d == TLCGet("stats").diameter IN
    IF d - 1 = Len(Trace) THEN TRUE
    ELSE Print(<<"TRACE_REJECTED_AT_LINE", d, "OF", Len(Trace)>>, FALSE)
=============================================================================
