-------------------------- MODULE Trace_TimeoutMgr --------------------------
(***************************************************************************)
(* Trace validation of the real gbn.TimeoutManager (driven under virtual   *)
(* time) against TimeoutMgr.tla.  One file per configuration; lines:       *)
(*   {"op":"new"}                              a fresh manager             *)
(*   {"op":"adv","d":ms}                       time passes                 *)
(*   {"op":"sent","k":..,"seq":..,"resent":0|1, getters}                   *)
(*   {"op":"recv","k":..,"seq":.., getters}                                *)
(* getters: "rt" GetResendTimeout, "ht" GetHandshakeTimeout (ms), "cnt",   *)
(* "hcnt" boost counts, "orig" base timeout (ms).  The boosted values are  *)
(* computed in float32 by the code: one millisecond of tolerance.          *)
(***************************************************************************)
EXTENDS TimeoutMgr, Json, Sequences

CONSTANT TraceFile
Trace == ndJsonDeserialize(TraceFile)

VARIABLE l
tvars == <<vars, l>>
Ev == Trace[l]
Is(o) == l <= Len(Trace) /\ Trace[l].op = o
Adv == l' = l + 1

Near(a, b) == a - b <= 1 /\ b - a <= 1

Getters ==
    /\ Near(ResendTimeout', Ev.rt)
    /\ Near(HandshakeTimeout', Ev.ht)
    /\ cnt' = Ev.cnt /\ hsCnt' = Ev.hcnt
    /\ Near(orig', Ev.orig)

TNew == /\ Is("new") /\ Adv
        /\ now' = 0 /\ orig' = Initial /\ cnt' = 0 /\ lastBoost' = Never
        /\ hsCnt' = 0 /\ sentAt' = [q \in Seqs |-> None] /\ synAt' = None
        /\ hasDyn' = FALSE /\ resp' = 0
        /\ firstTx' = [q \in Seqs |-> None] /\ firstTxN' = [q \in Seqs |-> None]
        /\ lastRsN' = [q \in Seqs |-> None] /\ evn' = 0 /\ updates' = 0
        /\ lastEv' = [op |-> "init"]

TAdv == Is("adv") /\ Adv /\ Advance(Ev.d)

TSent == /\ Is("sent") /\ Adv
         /\ IF Ev.k = "SYN" THEN SentSyn(Ev.resent = 1)
            ELSE IF Ev.k = "DATA" THEN SentData(Ev.seq, Ev.resent = 1)
            ELSE SentOther(Ev.k)
         /\ Getters

TRecv == /\ Is("recv") /\ Adv
         /\ IF Ev.k \in {"SYN", "SYNACK"} THEN RecvSyn(Ev.k)
            ELSE IF Ev.k = "ACK" THEN RecvAck(Ev.seq)
            ELSE RecvOther(Ev.k)
         /\ Getters

TraceNext == TNew \/ TAdv \/ TSent \/ TRecv
TraceSpec == Init /\ l = 1 /\ [][TraceNext]_tvars

TraceAccepted ==
    LET d == TLCGet("stats").diameter IN
    IF d - 1 = Len(Trace) THEN TRUE
    ELSE Print(<<"TRACE_REJECTED_AT_LINE", d, "OF", Len(Trace)>>, FALSE)
=============================================================================
