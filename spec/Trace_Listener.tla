--------------------------- MODULE Trace_Listener ---------------------------
(***************************************************************************)
(* Validation of the real mailbox.Listener (TCP, loopback) against          *)
(* Listener.tla.  Lines (one scenario per reset):                           *)
(*   reset                                                                  *)
(*   connect {p}          peer p's TCP connection is established            *)
(*                        (p = "g.." holds the passphrase and runs the real *)
(*                        initiator handshake, "b.." does not: wrong        *)
(*                        passphrase, garbage, or silence)                  *)
(*   acceptCall {c}       a caller enters Accept                            *)
(*   acceptRet {c, kind, p}   kind conn (p from the connection's remote     *)
(*                        address) | err (p from the error text, "tcp" for  *)
(*                        an error of the TCP listener) | closed            *)
(*   dialRet {p, ok}      the peer's mailbox.Dial returned (ok: a connection) *)
(*   close                Close is about to be called                       *)
(*   end {lingering}      goroutines still inside the Listener's code some  *)
(*                        time after Close (and after the handshake read    *)
(*                        deadline)                                         *)
(* The listen loop's and the handshake goroutines' steps are not logged:    *)
(* they are silent steps, taken only when the line at hand needs them (the  *)
(* real semaphore holds 1000 tokens, so they commute).  Acceptance: the     *)
(* high-water mark of consumed lines reaches the end.                       *)
(***************************************************************************)
EXTENDS Listener, Json, TLC
CONSTANT TraceFile
Trace == ndJsonDeserialize(TraceFile)

VARIABLES l
tvars == <<vars, l>>
Ev == Trace[l]
Is(o) == l <= Len(Trace) /\ Ev.op = o
Adv == l' = l + 1

TInit == Init /\ l = 1
TReset == /\ Is("reset") /\ Adv
          /\ sema' = H /\ lpc' = "sema" /\ hs' = [p \in Peers |-> "no"]
          /\ acc' = [c \in Callers |-> "idle"] /\ quit' = FALSE /\ tcpOpen' = TRUE
          /\ ret' = <<>>

TConnect == Is("connect") /\ Adv /\ Connect(Ev.p)
TCall == Is("acceptCall") /\ Adv /\ ACall(Ev.c)
TClose == Is("close") /\ Adv /\ Close
\* what Accept returned is what the model's Accept returns
TRet == /\ Is("acceptRet") /\ Adv
        /\ CASE Ev.kind = "conn" -> Deliver(Ev.p, Ev.c) /\ hs[Ev.p] = "offerOk"
             [] Ev.kind = "err" /\ Ev.p = "tcp" -> LRejDeliver(Ev.c)
             [] Ev.kind = "err" -> Deliver(Ev.p, Ev.c) /\ hs[Ev.p] = "offerErr"
             [] Ev.kind = "closed" -> AQuit(Ev.c)
             [] OTHER -> FALSE
\* the peer's side: its handshake completed (mailbox.Dial returned a
\* connection) only if it holds the passphrase
TDialRet == /\ Is("dialRet") /\ Adv /\ UNCHANGED vars
            /\ Ev.ok = 1 => Ev.p \in Good

\* nothing lingers once the listener is closed and the deadlines have passed
TEnd == /\ Is("end") /\ Adv /\ UNCHANGED vars
        /\ Ev.lingering = 0
        /\ quit => Drained

\* silent steps, only those the line at hand needs
Needs(p) == /\ l <= Len(Trace) /\ Ev.op = "acceptRet" /\ Ev.kind \in {"conn", "err"} /\ Ev.p = p
NeedsTcpErr == l <= Len(Trace) /\ Ev.op = "acceptRet" /\ Ev.kind = "err" /\ Ev.p = "tcp"
AtEnd == l <= Len(Trace) /\ Ev.op = "end" /\ quit
TSilent ==
    /\ UNCHANGED l
    /\ \/ \E p \in Peers : Needs(p) /\ (LAccept(p) \/ HsEnd(p))
       \/ (\E p \in Peers : Needs(p) /\ hs[p] = "queued") /\ lpc = "sema" /\ LTake
       \/ NeedsTcpErr /\ ((lpc = "sema" /\ LTake) \/ LAcceptErr)
       \/ AtEnd /\ (LQuit \/ LAcceptErr \/ LRejQuit
                    \/ \E p \in Peers : HsQuit(p) \/ OfferQuit(p))

TNext == TReset \/ TConnect \/ TCall \/ TClose \/ TRet \/ TDialRet \/ TEnd \/ TSilent
TSpec == TInit /\ [][TNext]_tvars

HW == IF l > TLCGet(1) THEN TLCSet(1, l) ELSE TRUE
ASSUME TLCSet(1, 0)
TraceAccepted ==
    IF TLCGet(1) = Len(Trace) + 1 THEN TRUE
    ELSE Print(<<"TRACE_REJECTED_AT_LINE", TLCGet(1), "OF", Len(Trace)>>, FALSE)
=============================================================================
