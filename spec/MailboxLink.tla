---------------------------- MODULE MailboxLink ----------------------------
(***************************************************************************)
(* One direction of the packet transport that the mailbox layer offers to  *)
(* Go-Back-N: the sender endpoint's send function (ClientConn.send /        *)
(* ServerConn.sendToStream: a retry loop that re-creates the stream and     *)
(* sends the same payload again after an error), the relay's one-way FIFO   *)
(* stream with one writer and one reader, and the receiver endpoint's       *)
(* receive function (ClientConn.recv / ServerConn.recvFromStream: a retry   *)
(* loop that re-attaches after an error).                                   *)
(*                                                                          *)
(*   mailbox/client_conn.go  send, recv, createSendMailBox,                 *)
(*                           createReceiveMailBox                           *)
(*   mailbox/server_conn.go  sendToStream, recvFromStream, create*MailBox   *)
(*   relay (aperture hashmail / harness stand-in): streams, occupancy,      *)
(*                           first message on a stream without mailbox lost *)
(*                                                                          *)
(* Packets are numbered 1, 2, ... in the order GBN hands them to send().    *)
(* The property is the channel GBN.tla assumes (its ch variable with        *)
(* Put(ch, pkt, copies)): what the receiver's GBN gets is what the sender's *)
(* GBN handed over, in order, with losses and in-place repetitions only.    *)
(***************************************************************************)
EXTENDS Naturals, Sequences

CONSTANTS MaxPkts,     \* packets GBN hands to send() (model bound)
          MaxFaults    \* relay / network faults (model bound)

VARIABLES
    handed,   \* number of packets GBN has handed to send()
    pend,     \* packet the send loop is working on (0: none, send() returned)
    box,      \* the mailbox exists at the relay
    wAtt,     \* the sender holds the stream's write end
    rAtt,     \* the receiver holds the stream's read end
    q,        \* the relay's queue
    got,      \* packets the receive function returned to GBN, in order
    faults

vars == <<handed, pend, box, wAtt, rAtt, q, got, faults>>

Init == /\ handed = 0 /\ pend = 0 /\ box = FALSE /\ wAtt = FALSE /\ rAtt = FALSE
        /\ q = <<>> /\ got = <<>> /\ faults = 0

Fault == faults < MaxFaults /\ faults' = faults + 1

\* GBN calls send(p); the loop holds the send mutex until it has succeeded
SendCall == /\ pend = 0 /\ handed < MaxPkts
            /\ handed' = handed + 1 /\ pend' = handed + 1
            /\ UNCHANGED <<box, wAtt, rAtt, q, got, faults>>

\* create*MailBox: (the server side creates the mailbox;) attach the write end
CreateBox == /\ ~box /\ box' = TRUE
             /\ UNCHANGED <<handed, pend, wAtt, rAtt, q, got, faults>>
WAttach == /\ pend # 0 /\ ~wAtt /\ box /\ wAtt' = TRUE
           /\ UNCHANGED <<handed, pend, box, rAtt, q, got, faults>>

\* transport.Send succeeds: the relay has taken the message
SendOk == /\ pend # 0 /\ wAtt
          /\ q' = Append(q, pend) /\ pend' = 0
          /\ UNCHANGED <<handed, box, wAtt, rAtt, got, faults>>
\* the first message on a send stream whose mailbox does not exist is lost,
\* and the call reports success
SendIntoVoid == /\ pend # 0 /\ ~box /\ ~wAtt /\ Fault
                /\ pend' = 0
                /\ UNCHANGED <<handed, box, wAtt, rAtt, q, got>>
\* the send fails after the relay has taken the message: the loop re-creates
\* the stream and sends the same payload again (a repetition in place)
SendFailAfter == /\ pend # 0 /\ wAtt /\ Fault
                 /\ q' = Append(q, pend) /\ wAtt' = FALSE
                 /\ UNCHANGED <<handed, pend, box, rAtt, got>>
SendFailBefore == /\ pend # 0 /\ wAtt /\ Fault
                  /\ wAtt' = FALSE
                  /\ UNCHANGED <<handed, pend, box, rAtt, q, got>>

\* the relay drops a message; the relay restarts and loses everything
RelayDrop == /\ q # <<>> /\ Fault
             /\ \E i \in 1..Len(q) :
                  q' = [j \in 1..(Len(q) - 1) |-> IF j < i THEN q[j] ELSE q[j + 1]]
             /\ UNCHANGED <<handed, pend, box, wAtt, rAtt, got>>
RelayRestart == /\ Fault /\ box' = FALSE /\ wAtt' = FALSE /\ rAtt' = FALSE /\ q' = <<>>
                /\ UNCHANGED <<handed, pend, got>>

\* the receive loop attaches, is handed the head of the queue, or fails
RAttach == /\ ~rAtt /\ box /\ rAtt' = TRUE
           /\ UNCHANGED <<handed, pend, box, wAtt, q, got, faults>>
RecvOk == /\ rAtt /\ q # <<>>
          /\ got' = Append(got, Head(q)) /\ q' = Tail(q)
          /\ UNCHANGED <<handed, pend, box, wAtt, rAtt, faults>>
\* the message leaves the queue but the reader's stream has just broken
RecvLose == /\ rAtt /\ q # <<>> /\ Fault
            /\ q' = Tail(q) /\ rAtt' = FALSE
            /\ UNCHANGED <<handed, pend, box, wAtt, got>>
RecvBreak == /\ rAtt /\ Fault /\ rAtt' = FALSE
             /\ UNCHANGED <<handed, pend, box, wAtt, q, got>>

Next == \/ SendCall \/ CreateBox \/ WAttach \/ SendOk \/ SendIntoVoid
        \/ SendFailAfter \/ SendFailBefore \/ RelayDrop \/ RelayRestart
        \/ RAttach \/ RecvOk \/ RecvLose \/ RecvBreak

Spec == Init /\ [][Next]_vars

---------------------------------------------------------------------------
\* The channel GBN.tla assumes: every packet received was handed over, and
\* the received sequence never goes back (so repetitions are in place and the
\* order of first occurrences is the order of sending).
LossyFifo ==
    /\ \A i \in 1..Len(got) : got[i] \in 1..handed
    /\ \A i, j \in 1..Len(got) : i < j => got[i] <= got[j]

\* ... and nothing is received before it was sent
Causal == \A i \in 1..Len(got) : got[i] <= handed

\* send() returns only when the relay took the message or the message went
\* into the void of a stream without mailbox (never while a retry is due)
TypeOK == /\ pend \in 0..MaxPkts /\ handed \in 0..MaxPkts
          /\ (wAtt => box) /\ (rAtt => box)
=============================================================================
