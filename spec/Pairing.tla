------------------------------ MODULE Pairing ------------------------------
(***************************************************************************)
(* The pairing phrase codec (mailbox/crypto.go) and the rendezvous         *)
(* (stream id) derivation (mailbox/conndata.go SID, server.go GetSID,      *)
(* client_conn.go / server_conn.go).                                       *)
(*                                                                         *)
(* Codec: the entropy bytes are a bit stream, most significant bit first;  *)
(* word i is the number formed by bits [i*W, (i+1)*W).  Generic in         *)
(* (W = bits per word, NW = number of words, NB = number of bytes); the    *)
(* code uses (11, 10, 14).                                                 *)
(***************************************************************************)
EXTENDS Integers, Sequences

\* bit k (0-based, MSB first) of byte x
BitOf(x, k) == (x \div (2 ^ (7 - k))) % 2

\* the bit stream of a byte sequence, as a function 0..8*Len-1 -> {0,1}
BitAt(bytes, i) == BitOf(bytes[(i \div 8) + 1], i % 8)

RECURSIVE NumFrom(_, _, _)
\* the number formed by W bits of the stream starting at bit i
NumFrom(bytes, i, w) ==
    IF w = 0 THEN 0
    ELSE NumFrom(bytes, i, w - 1) * 2 + BitAt(bytes, i + w - 1)

\* PassphraseEntropyToMnemonic (as word indices)
ToWords(bytes, W, NW) == [j \in 1..NW |-> NumFrom(bytes, (j - 1) * W, W)]

\* bit i of the stream produced by writing the words, zero padded
WordBit(words, W, i) ==
    IF i \div W >= Len(words) THEN 0
    ELSE (words[(i \div W) + 1] \div (2 ^ (W - 1 - (i % W)))) % 2

RECURSIVE ByteFrom(_, _, _, _)
ByteFrom(words, W, i, k) ==
    IF k = 0 THEN 0
    ELSE ByteFrom(words, W, i, k - 1) * 2 + WordBit(words, W, i + k - 1)

\* PassphraseMnemonicToEntropy
FromWords(words, W, NB) == [b \in 1..NB |-> ByteFrom(words, W, (b - 1) * 8, 8)]

\* the entropy with the bits beyond NW*W cleared
Significant(bytes, W, NW) ==
    [b \in 1..Len(bytes) |->
        LET keep == NW * W - (b - 1) * 8 IN   \* significant bits in byte b
        IF keep >= 8 THEN bytes[b]
        ELSE IF keep <= 0 THEN 0
        ELSE (bytes[b] \div (2 ^ (8 - keep))) * (2 ^ (8 - keep))]

\* C17: the codec functions are exact inverses on the significant bits
InverseBytes(bytes, W, NW) ==
    FromWords(ToWords(bytes, W, NW), W, Len(bytes)) = Significant(bytes, W, NW)
InverseWords(words, W, NB) ==
    ToWords(FromWords(words, W, NB), W, Len(words)) = words

---------------------------------------------------------------------------
(* Rendezvous.  A session id is a pair <<h, bit>>: h stands for the first   *)
(* 511 bits of the SHA-512 value (an abstract identifier of the secret it   *)
(* was derived from) and bit for the last bit.  GetSID flips the last bit   *)
(* for the client-to-server direction.                                      *)

Flip(sid) == <<sid[1], 1 - sid[2]>>
GetSID(sid, serverToClient) == IF serverToClient THEN sid ELSE Flip(sid)

ClientRecv(sid) == GetSID(sid, TRUE)
ClientSend(sid) == GetSID(sid, FALSE)
ServerRecv(sid) == GetSID(sid, FALSE)
ServerSend(sid) == GetSID(sid, TRUE)

Rendezvous(sid) ==
    /\ ClientSend(sid) = ServerRecv(sid)
    /\ ClientRecv(sid) = ServerSend(sid)
    /\ ClientSend(sid) # ClientRecv(sid)
    /\ ClientSend(sid)[1] = ClientRecv(sid)[1]
=============================================================================
