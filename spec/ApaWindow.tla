---------------------------- MODULE ApaWindow ----------------------------
(* The window lemma of Window.tla for EVERY sequence space s in 2..256 and  *)
(* every base, top and wire byte at once, discharged symbolically by        *)
(* Apalache (TLC enumerates s <= 8 and s in {21, 255}).                      *)
EXTENDS Window

VARIABLES
    \* @type: Int;
    s,
    \* @type: Int;
    b,
    \* @type: Int;
    t,
    \* @type: Int;
    q

Init == s \in 2..256 /\ b \in 0..255 /\ t \in 0..255 /\ q \in 0..255
Next == UNCHANGED <<s, b, t, q>>

\* the repaired arithmetic is safe for every window state and wire value
Lemma == ValidWin(b, t, s) => (AckSafe(b, t, q, s) /\ NackSafe(b, t, q, s))
\* the pinned (unguarded) arithmetic is not: Apalache must find a counterexample
DevLemma == ValidWin(b, t, s) => (DevAckSafe(b, t, q, s) /\ DevNackSafe(b, t, q, s))
=============================================================================
