------------------------------ MODULE GBNChunk ------------------------------
(***************************************************************************)
(* Message chunking on top of the reliable packet channel that GBN.tla     *)
(* provides (PrefixDelivery): GoBackNConn.Send splits a payload into       *)
(* packets of at most M bytes and flags the last one; GoBackNConn.Recv     *)
(* concatenates packets until it sees the flag (gbn/gbn_conn.go).          *)
(*                                                                         *)
(* A packet is [m, off, len, fin]: bytes [off, off+len) of message m.      *)
(* The channel is a FIFO of packets (exactly-once, in order: that is what  *)
(* C01 establishes), so this module is only about boundaries.              *)
(*                                                                         *)
(*   SendBegin(m, L)   Send(payload of L bytes) starts                     *)
(*   SendChunk         the next packet is handed to the send loop          *)
(*   SendDone          Send returns nil                                    *)
(*   SendTimeout       the send deadline expires between two packets: Send *)
(*                     returns an error, the packets handed over stay      *)
(*   RecvChunk         Recv takes the next packet                          *)
(*   RecvDone          the flagged packet was taken: Recv returns          *)
(*   RecvTimeout       the receive deadline expires inside a message       *)
(***************************************************************************)
EXTENDS Integers, Sequences, TLC

CONSTANTS
    M,               \* maxChunkSize (0 = chunking off)
    Lens,            \* payload lengths the application may send
    MaxMsgs,         \* messages (model bound)
    SendDeadlines,   \* TRUE: SendTimeout may fire inside a message
    RecvDeadlines,   \* TRUE: RecvTimeout may fire inside a message
    EmptySendsNothing,  \* named deviation DevEmptyNoPacket: with chunking on,
                        \* an empty payload produces no packet at all (pinned
                        \* code); FALSE: one empty flagged packet
    RecvKeepsPartial    \* TRUE: packets consumed by a Recv call that timed
                        \* out stay with the connection (repaired behaviour);
                        \* FALSE: they are dropped with the call's local buffer

VARIABLES
    chan,      \* FIFO of packets
    sending,   \* [m, L, off] of the Send in progress, or None
    nSent,     \* messages begun
    okSends,   \* sequence of [m, L]: Sends that returned nil
    partial,   \* packets held by the Recv in progress / by the connection
    recvs,     \* sequence of Recv results: each a sequence of packets
    retry      \* a Send that timed out is retried with the same message id

vars == <<chan, sending, nSent, okSends, partial, recvs, retry>>
None == [m |-> 0]

Init == /\ chan = <<>> /\ sending = None /\ nSent = 0 /\ okSends = <<>>
        /\ partial = <<>> /\ recvs = <<>> /\ retry = None

SendBegin(L) ==
    /\ sending = None /\ retry = None /\ nSent < MaxMsgs
    /\ nSent' = nSent + 1
    /\ sending' = [m |-> nSent + 1, L |-> L, off |-> 0, first |-> TRUE]
    /\ UNCHANGED <<chan, okSends, partial, recvs, retry>>

SendRetry ==
    /\ sending = None /\ retry # None
    /\ sending' = [m |-> retry.m, L |-> retry.L, off |-> 0, first |-> TRUE]
    /\ retry' = None
    /\ UNCHANGED <<chan, nSent, okSends, partial, recvs>>

\* one iteration of Send's loop (or the single packet when chunking is off)
SendChunk ==
    /\ sending # None
    /\ IF M = 0
       THEN /\ sending.first
            /\ chan' = Append(chan, [m |-> sending.m, off |-> 0, len |-> sending.L,
                                     fin |-> TRUE])
            /\ sending' = [sending EXCEPT !.off = sending.L, !.first = FALSE]
       ELSE IF sending.L = 0 /\ sending.first /\ ~EmptySendsNothing
       THEN /\ chan' = Append(chan, [m |-> sending.m, off |-> 0, len |-> 0,
                                     fin |-> TRUE])
            /\ sending' = [sending EXCEPT !.first = FALSE]
       ELSE /\ sending.off < sending.L
            /\ LET rem == sending.L - sending.off
                   n == IF rem <= M THEN rem ELSE M IN
               /\ chan' = Append(chan, [m |-> sending.m, off |-> sending.off,
                                        len |-> n, fin |-> rem <= M])
               /\ sending' = [sending EXCEPT !.off = @ + n, !.first = FALSE]
    /\ UNCHANGED <<nSent, okSends, partial, recvs, retry>>

SendComplete(s) ==
    IF M = 0 THEN ~s.first
    ELSE IF s.L = 0 THEN (EmptySendsNothing \/ ~s.first)
    ELSE s.off = s.L

SendDone ==
    /\ sending # None /\ SendComplete(sending)
    /\ okSends' = Append(okSends, [m |-> sending.m, L |-> sending.L])
    /\ sending' = None
    /\ UNCHANGED <<chan, nSent, partial, recvs, retry>>

SendTimeout ==
    /\ SendDeadlines /\ sending # None /\ ~SendComplete(sending)
    /\ retry' = [m |-> sending.m, L |-> sending.L]
    /\ sending' = None
    /\ UNCHANGED <<chan, nSent, okSends, partial, recvs>>

RecvChunk ==
    /\ chan # <<>>
    /\ LET p == Head(chan) IN
       IF p.fin
       THEN /\ recvs' = Append(recvs, Append(partial, p))
            /\ partial' = <<>>
       ELSE /\ partial' = Append(partial, p)
            /\ UNCHANGED recvs
    /\ chan' = Tail(chan)
    /\ UNCHANGED <<sending, nSent, okSends, retry>>

RecvTimeout ==
    /\ RecvDeadlines /\ partial # <<>>
    /\ partial' = IF RecvKeepsPartial THEN partial ELSE <<>>
    /\ UNCHANGED <<chan, sending, nSent, okSends, recvs, retry>>

Next == \/ \E L \in Lens : SendBegin(L)
        \/ SendRetry \/ SendChunk \/ SendDone \/ SendTimeout
        \/ RecvChunk \/ RecvTimeout
Spec == Init /\ [][Next]_vars

---------------------------------------------------------------------------
\* a Recv result is exactly message [m, L]: its packets tile [0, L) in order
RECURSIVE Tiles(_, _, _)
Tiles(ps, m, off) ==
    IF ps = <<>> THEN off
    ELSE IF Head(ps).m = m /\ Head(ps).off = off
    THEN Tiles(Tail(ps), m, off + Head(ps).len) ELSE -1

IsMessage(r, s) == Tiles(r, s.m, 0) = s.L /\ r[Len(r)].fin

\* C14: the Recv results are, in order, the successfully sent messages (a
\* prefix of them while packets are still in flight)
OneSendOneRecv ==
    /\ Len(recvs) <= Len(okSends) + (IF sending # None THEN 1 ELSE 0)
    /\ \A i \in 1..Len(recvs) :
          i <= Len(okSends) => IsMessage(recvs[i], okSends[i])

\* once everything is quiet every successful Send has its Recv
AllDelivered ==
    (chan = <<>> /\ sending = None /\ retry = None /\ partial = <<>>)
        => Len(recvs) = Len(okSends)
=============================================================================
