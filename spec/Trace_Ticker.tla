---------------------------- MODULE Trace_Ticker ----------------------------
(***************************************************************************)
(* C18: the ticker hooks of real runs (reset / stop sections of every       *)
(* IntervalAwareForceTicker, reported from inside the sections) against     *)
(* Ticker.tla's MutualExclusion and stop ordering: per ticker, sections     *)
(* never overlap, and nothing follows a stop.                               *)
(*   {"ev":"tk","tk":id,"what":"resetBegin|resetEnd|stopBegin|stopEnd"}     *)
(***************************************************************************)
EXTENDS Integers, Sequences, Json, TLC
CONSTANT TraceFile
Trace == ndJsonDeserialize(TraceFile)

VARIABLES l, inSec, stopped
Ev == Trace[l]
Adv == l' = l + 1
Is(w) == l <= Len(Trace) /\ Trace[l].ev = "tk" /\ Trace[l].what = w
In(tk) == tk \in DOMAIN inSec /\ inSec[tk]
Set(f, k, v) == [x \in DOMAIN f \cup {k} |-> IF x = k THEN v ELSE f[x]]

TBegin == /\ (Is("resetBegin") \/ Is("stopBegin")) /\ Adv
          /\ ~In(Ev.tk) /\ Ev.tk \notin stopped
          /\ inSec' = Set(inSec, Ev.tk, TRUE)
          /\ UNCHANGED stopped
TEnd == /\ (Is("resetEnd") \/ Is("stopEnd")) /\ Adv
        /\ In(Ev.tk)
        /\ inSec' = Set(inSec, Ev.tk, FALSE)
        /\ stopped' = IF Ev.what = "stopEnd" THEN stopped \cup {Ev.tk} ELSE stopped
\* a "scenario" line starts a new run with fresh tickers
TScenario == /\ l <= Len(Trace) /\ Trace[l].ev = "scenario" /\ Adv
             /\ inSec' = <<>> /\ stopped' = {}
TSkip == /\ l <= Len(Trace) /\ Trace[l].ev \notin {"tk", "scenario"} /\ Adv
         /\ UNCHANGED <<inSec, stopped>>

TraceNext == TBegin \/ TEnd \/ TScenario \/ TSkip
TraceSpec == l = 1 /\ inSec = <<>> /\ stopped = {} /\ [][TraceNext]_<<l, inSec, stopped>>
TraceAccepted ==
    LET d == TLCGet("stats").diameter IN
    IF d - 1 = Len(Trace) THEN TRUE
    ELSE Print(<<"TRACE_REJECTED_AT_LINE", d, "OF", Len(Trace)>>, FALSE)
=============================================================================
