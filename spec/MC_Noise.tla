------------------------------ MODULE MC_Noise ------------------------------
(***************************************************************************)
(* Every handshake case is one initial state: pattern x version ranges x   *)
(* passphrase equal/different x expected static keys right/wrong x payload *)
(* class x the relay's version-byte substitutions (every combination over  *)
(* the acts, values 0..3) x one corrupted field.                            *)
(***************************************************************************)
EXTENDS Noise
CONSTANTS Full          \* TRUE: version substitutions and a corrupted field
                        \* combined; FALSE: one kind of tampering at a time
VARIABLES pattern, cr, sr, pw, ie, re, pl, v1, v2, v3, ca, cf, imp
vars == <<pattern, cr, sr, pw, ie, re, pl, v1, v2, v3, ca, cf, imp>>

Ranges == {<<a, b>> \in (0..2) \X (0..2) : a <= b}
Payloads == {[id |-> "empty", big |-> FALSE], [id |-> "small", big |-> FALSE],
             [id |-> "big", big |-> TRUE]}
Subs == -1..3

c == [pattern |-> pattern, cMin |-> cr[1], cMax |-> cr[2], sMin |-> sr[1],
      sMax |-> sr[2], pwEq |-> pw, iExpect |-> ie, rExpect |-> re, payload |-> pl,
      verSub |-> <<v1, v2, v3>>, corruptAct |-> ca, corruptField |-> cf, imp |-> imp]

Init ==
    /\ pattern \in {XX, KK}
    /\ cr \in Ranges /\ sr \in Ranges
    /\ pl \in Payloads
    /\ v1 \in Subs /\ v2 \in Subs
    /\ IF pattern = XX
       THEN /\ pw \in BOOLEAN /\ ie = "none" /\ re = "none"
            /\ v3 \in Subs /\ ca \in 0..3 /\ imp = 0
       ELSE /\ pw = TRUE /\ ie \in {"sR", "sX"} /\ re \in {"sI", "sX"}
            /\ v3 = -1 /\ ca \in 0..2
            \* an impersonator: right public keys all round, wrong private key
            /\ imp \in {0, 1} /\ (imp = 1 => ca = 0)
    /\ cf \in 1..5
    /\ ca = 0 => cf = 1
    /\ Full \/ (v1 = -1 /\ v2 = -1 /\ v3 = -1) \/ ca = 0
Next == UNCHANGED vars

C03 == CompleteOnlyIfAuthorised(c) /\ NoResponseOnMismatch(c)
C04 == AgreementModuloKnown(c)
C04Strict == Agreement(c)
=============================================================================
